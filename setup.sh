#!/bin/sh
# offline setup: nothing is fetched. Warms the build caches used by the checks (all under /verif/.cache):
#   - Kani build of the crate (engine KX), - optimized-dependency test build of the crate (engines RP / BX).
# The checks work without this (they build on demand); it only moves the one-time cost out of the first check.
cd "$(dirname "$0")"
mkdir -p .cache evidence replays
verus --version >/dev/null || exit 1
export CARGO_NET_OFFLINE=true
python3 tools/kx.py U-shift >/dev/null 2>&1 || echo "setup: Kani warm-up failed (checks will build on demand)"
python3 tools/rp.py --warm >/dev/null 2>&1 || echo "setup: replay warm-up failed (checks will build on demand)"
exit 0
