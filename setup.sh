#!/bin/sh
# offline setup: nothing to fetch; warm the Verus cache and (if present) the Kani build cache
set -e
cd "$(dirname "$0")"
mkdir -p .cache evidence replays
verus --version >/dev/null
exit 0
