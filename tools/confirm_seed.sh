#!/bin/bash
# confirm seeded changes produced by independent sub-agents: for each ${SEEDDIR:-/tmp/seed}/<ID>/out/m<i>.patch
#  1. applies to a scratch worktree of /repo HEAD, 2. full suite must pass, 3. demo must fail with the change,
#  4. demo must pass without it.  Writes ${SEEDDIR:-/tmp/seed}/confirm/<ID>-m<i>.json
set -u
WT=${SEEDDIR:-/tmp/seed}/confirm-wt
OUT=${SEEDDIR:-/tmp/seed}/confirm
mkdir -p $OUT
export CARGO_NET_OFFLINE=true CARGO_TARGET_DIR=${SEEDDIR:-/tmp/seed}/confirm-target
if [ ! -d $WT ]; then git -C /repo worktree add --detach $WT HEAD >/dev/null 2>&1; fi
for id in "$@"; do
  for p in ${SEEDDIR:-/tmp/seed}/$id/out/m*.patch; do
    [ -f "$p" ] || continue
    i=$(basename $p .patch)
    res=$OUT/$id-$i.json
    [ -f $res ] && continue
    git -C $WT checkout -q -- . ; git -C $WT clean -fdq
    demo=${SEEDDIR:-/tmp/seed}/$id/out/${i}_demo.rs
    target=$(head -3 $demo | grep -o 'append to: *[^ ]*' | sed 's/append to: *//')
    filter=$(python3 -c "import json;print(json.load(open('${SEEDDIR:-/tmp/seed}/$id/out/${i}_meta.json')).get('demo_test_filter','seeded_demo_$i'))")
    applies=true; git -C $WT apply $p 2>${SEEDDIR:-/tmp/seed}/confirm/$id-$i.apply.err || applies=false
    suite=skipped; demo_with=skipped; demo_without=skipped
    if $applies; then
      (cd $WT && cargo nextest run --workspace --no-fail-fast --test-threads 8 --offline > $OUT/$id-$i.suite.log 2>&1); src=$?
      suite=$(grep -o 'Summary.*' $OUT/$id-$i.suite.log | tail -1)
      if [ $src -ne 0 ]; then
        # re-run failed tests once (known flaky network tests)
        (cd $WT && cargo nextest run --workspace --no-fail-fast --test-threads 4 --offline > $OUT/$id-$i.suite2.log 2>&1); src=$?
        suite="$suite | rerun: $(grep -o 'Summary.*' $OUT/$id-$i.suite2.log | tail -1)"
      fi
      cat $demo >> $WT/$target
      (cd $WT && cargo test --offline --lib $filter -- --test-threads 1 > $OUT/$id-$i.demo_with.log 2>&1); demo_with=$(grep -o 'test result:.*' $OUT/$id-$i.demo_with.log | tail -1)
      git -C $WT checkout -q -- . ; cat $demo >> $WT/$target
      (cd $WT && cargo test --offline --lib $filter -- --test-threads 1 > $OUT/$id-$i.demo_without.log 2>&1); demo_without=$(grep -o 'test result:.*' $OUT/$id-$i.demo_without.log | tail -1)
    fi
    python3 - "$id" "$i" "$applies" "$suite" "$demo_with" "$demo_without" "$target" "$filter" > $res <<'PY'
import json,sys
id,i,applies,suite,dw,dwo,target,flt=sys.argv[1:]
print(json.dumps({'id':id,'mutant':i,'applies':applies=='true','suite':suite,'demo_with_change':dw,'demo_without_change':dwo,'demo_target':target,'filter':flt},indent=1))
PY
    git -C $WT checkout -q -- . ; git -C $WT clean -fdq
  done
done
echo CONFIRM-DONE
