#!/usr/bin/env python3
"""writes MANIFEST.json from tools/registry.py + tools/manifest_meta.py"""
import json, os, sys
sys.path.insert(0, os.path.dirname(os.path.abspath(__file__)))
import registry, manifest_meta as mm
VERIF = os.path.dirname(os.path.dirname(os.path.abspath(__file__)))
checks = []
for pid in sorted(registry.PROPS):
    m = mm.CHECKS[pid]
    checks.append({
        'property_id': pid,
        'quick_cmd': './check %s --tier quick' % pid,
        'thorough_cmd': './check %s --tier thorough' % pid,
        'evidence_file': '/verif/evidence/%s.json' % pid,
        'replay_cmd_template': './check %s --replay {path}' % pid,
        'engine': 'vx+kx',
        'level_claimed': {'category': 'proof', 'text': m['text'], 'design_ref': m['design_ref']},
        'level_note': m['note'],
        'technique': m['technique'],
    })
na = [{'property_id': k, 'reason': v} for k, v in sorted(mm.NOT_APPLICABLE.items()) if k not in registry.PROPS]
man = {
    'version': 1,
    'setup_cmd': './setup.sh',
    'hooks': {'guard': 'none', 'enable': 'no source hooks: private items are reached by mechanical extraction (Verus) or by appending #[cfg(kani)] modules to a scratch copy of the crate', 'baseline_off_cmd': 'cd /repo && cargo test --workspace --no-fail-fast --offline', 'source_commits': [], 'add_only': True},
    'engines': [
        {'name': 'vx', 'path': 'tools/vx.py', 'serves_properties': sorted(registry.PROPS), 'kind_free_text': 'Verus (deductive, SMT) on functions extracted mechanically from /repo on every run, contracts spliced from vx/units/*.vt'},
        {'name': 'kx', 'path': 'tools/kx.py', 'serves_properties': sorted(p for p in registry.PROPS if registry.PROPS[p].get('kx')), 'kind_free_text': 'Kani/CBMC harnesses appended to a scratch copy of the real crate: complete (loop-free / fixed-width) units count as proof, bounded units are labelled and not counted'},
        {'name': 'rp', 'path': 'tools/rp.py', 'serves_properties': sorted(registry.PROPS), 'kind_free_text': 'replay: searches a concrete failing input for a failed obligation against the real crate (never decides)'},
    ],
    'checks': checks,
    'not_applicable': na,
    'notes': mm.NOTES + ' Repairs of genuine defects in /repo (unguarded fix: commits, see known_findings.txt): ' + ', '.join(mm.FIX_COMMITS) + '.',
}
json.dump(man, open(os.path.join(VERIF, 'MANIFEST.json'), 'w'), indent=1)
print('wrote MANIFEST.json: %d checks, %d not applicable' % (len(checks), len(na)))
