#!/usr/bin/env python3
"""markdown table of seeded changes and the obligations the checks report: python3 tools/seed_table.py 'seeded/*-r2m*'"""
import glob, json, os, sys
VERIF = os.path.dirname(os.path.dirname(os.path.abspath(__file__)))
print('| seeded change | what it does | result | obligations reported (first three) |')
print('|---|---|---|---|')
for pat in sys.argv[1:]:
    for d in sorted(glob.glob(os.path.join(VERIF, pat))):
        m = json.load(open(os.path.join(d, 'meta.json')))
        c = m.get('checks', {})
        s = (m.get('summary') or '').replace('\n', ' ').replace('|', '/')[:160]
        obs = ', '.join('`%s`' % o for o in c.get('failed_obligations', [])[:3])
        print('| %s | %s | exit %s | %s |' % (os.path.basename(d), s, c.get('exit'), obs))
