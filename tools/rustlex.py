"""Minimal Rust tokenizer + item locator used by the extractor.

Token kinds: ws, lc (line comment), bc (block comment), doc (/// or //! or /** */), str, char,
life (lifetime), id, num, p (punctuation, single char, except '->', '=>', '::' which are joined).
Every token carries (kind, text, start, end) byte offsets into the source string.
"""
import re

ID_START = re.compile(r'[A-Za-z_]')
ID_CONT = re.compile(r'[A-Za-z0-9_]')


class LexError(Exception):
    pass


def tokenize(s):
    toks = []
    i, n = 0, len(s)
    while i < n:
        c = s[i]
        st = i
        if c.isspace():
            while i < n and s[i].isspace():
                i += 1
            toks.append(('ws', s[st:i], st, i))
        elif s.startswith('//', i):
            j = s.find('\n', i)
            if j < 0:
                j = n
            text = s[i:j]
            kind = 'doc' if (text.startswith('///') and not text.startswith('////')) or text.startswith('//!') else 'lc'
            toks.append((kind, text, i, j))
            i = j
        elif s.startswith('/*', i):
            depth = 1
            j = i + 2
            while j < n and depth > 0:
                if s.startswith('/*', j):
                    depth += 1
                    j += 2
                elif s.startswith('*/', j):
                    depth -= 1
                    j += 2
                else:
                    j += 1
            text = s[i:j]
            kind = 'doc' if text.startswith('/**') and not text.startswith('/***') and text != '/**/' else 'bc'
            toks.append((kind, text, i, j))
            i = j
        elif c == '"' or (c in 'bc' and s.startswith('"', i + 1)) :
            j = i + (1 if c == '"' else 2)
            while j < n and s[j] != '"':
                if s[j] == '\\':
                    j += 1
                j += 1
            j += 1
            toks.append(('str', s[i:j], i, j))
            i = j
        elif (c == 'r' or (c == 'b' and s.startswith('r', i + 1))) and re.match(r'b?r#*"', s[i:i + 12]):
            m = re.match(r'b?r(#*)"', s[i:])
            hashes = m.group(1)
            endpat = '"' + hashes
            j = s.find(endpat, i + len(m.group(0)))
            if j < 0:
                raise LexError('unterminated raw string at %d' % i)
            j += len(endpat)
            toks.append(('str', s[i:j], i, j))
            i = j
        elif c == "'" or (c == 'b' and s.startswith("'", i + 1)):
            k = i + (1 if c == "'" else 2)
            # char literal or lifetime
            if c == "'" and k < n and ID_START.match(s[k]) and not (k + 1 < n and s[k + 1] == "'"):
                # lifetime (or label)
                j = k
                while j < n and ID_CONT.match(s[j]):
                    j += 1
                toks.append(('life', s[i:j], i, j))
                i = j
            else:
                j = k
                if s[j] == '\\':
                    j += 2
                    while j < n and s[j] != "'":
                        j += 1
                else:
                    j += 1
                    # multi-byte chars are single python chars already
                if j >= n or s[j] != "'":
                    raise LexError('bad char literal at %d: %r' % (i, s[i:i + 10]))
                j += 1
                toks.append(('char', s[i:j], i, j))
                i = j
        elif ID_START.match(c):
            j = i
            while j < n and ID_CONT.match(s[j]):
                j += 1
            # raw identifiers r#foo
            toks.append(('id', s[i:j], i, j))
            i = j
        elif c.isdigit():
            j = i
            while j < n and (ID_CONT.match(s[j]) or (s[j] == '.' and j + 1 < n and s[j + 1].isdigit())):
                j += 1
            toks.append(('num', s[i:j], i, j))
            i = j
        else:
            for op in ('->', '=>', '::'):
                if s.startswith(op, i):
                    toks.append(('p', op, i, i + len(op)))
                    i += len(op)
                    break
            else:
                toks.append(('p', c, i, i + 1))
                i += 1
    return toks


TRIVIA = ('ws', 'lc', 'bc', 'doc')
OPEN = {'(': ')', '[': ']', '{': '}'}
CLOSE = {')': '(', ']': '[', '}': '{'}


def match_close(toks, idx):
    """toks[idx] is an opening bracket; return index of the matching close."""
    assert toks[idx][0] == 'p' and toks[idx][1] in OPEN, toks[idx]
    depth = 0
    for j in range(idx, len(toks)):
        k, t = toks[j][0], toks[j][1]
        if k != 'p':
            continue
        if t in OPEN:
            depth += 1
        elif t in CLOSE:
            depth -= 1
            if depth == 0:
                return j
    raise LexError('unbalanced bracket at token %d' % idx)


def norm(text):
    """normalise a header for comparison: drop comments, collapse whitespace, no space around punctuation"""
    toks = tokenize(text)
    out = []
    for k, t, _, _ in toks:
        if k in TRIVIA:
            continue
        out.append(t)
    res = ''
    for t in out:
        if res and (ID_CONT.match(res[-1]) or res[-1] == "'") and ID_CONT.match(t[0]):
            res += ' '
        res += t
    return res


ITEM_KW = ('fn', 'struct', 'enum', 'impl', 'trait', 'mod', 'const', 'static', 'type', 'use', 'macro_rules', 'union')


class Item:
    def __init__(self, kind, name, header, start_tok, end_tok, body_open, toks):
        self.kind = kind          # fn/struct/...
        self.name = name          # identifier (for impl: normalised header)
        self.header = header      # normalised header text (from keyword up to body/;)
        self.start_tok = start_tok  # first token (incl. attrs/docs/vis)
        self.end_tok = end_tok      # last token (inclusive)
        self.body_open = body_open  # token index of '{' of the body or None
        self.toks = toks

    @property
    def start(self):
        return self.toks[self.start_tok][2]

    @property
    def end(self):
        return self.toks[self.end_tok][3]


def items_in(toks, lo, hi):
    """Enumerate items between token indexes lo (inclusive) and hi (exclusive) at nesting depth 0."""
    items = []
    i = lo
    while i < hi:
        k, t = toks[i][0], toks[i][1]
        if k in ('ws', 'lc', 'bc'):
            i += 1
            continue
        start = i
        # skip docs and attributes
        j = i
        while j < hi:
            k, t = toks[j][0], toks[j][1]
            if k in TRIVIA:
                j += 1
            elif k == 'p' and t == '#':
                # attribute: #[...] or #![...]
                m = j + 1
                while toks[m][0] in TRIVIA:
                    m += 1
                if toks[m][1] == '!':
                    m += 1
                    while toks[m][0] in TRIVIA:
                        m += 1
                if toks[m][1] != '[':
                    break
                j = match_close(toks, m) + 1
            else:
                break
        if j >= hi:
            break
        # header scan: find keyword
        kind = None
        name = None
        m = j
        kwpos = None
        while m < hi:
            k, t = toks[m][0], toks[m][1]
            if k in TRIVIA:
                m += 1
                continue
            if k == 'id' and t in ('pub', 'async', 'unsafe', 'default', 'extern', 'crate', 'super', 'in', 'self'):
                m += 1
                continue
            if k == 'str':  # extern "C"
                m += 1
                continue
            if k == 'p' and t == '(':  # pub(crate)
                m = match_close(toks, m) + 1
                continue
            if k == 'id' and t == 'const':
                # const fn or const item
                q = m + 1
                while toks[q][0] in TRIVIA:
                    q += 1
                if toks[q][1] in ('fn', 'unsafe', 'async', 'extern'):
                    m = q
                    continue
                kind = 'const'
                kwpos = m
                break
            if k == 'id' and t in ITEM_KW:
                kind = t
                kwpos = m
                break
            break
        if kind is None:
            # not an item (e.g. stray tokens, macro invocation); skip to next ';' or matching brace
            q = j
            while q < hi:
                k, t = toks[q][0], toks[q][1]
                if k == 'p' and t in OPEN:
                    q = match_close(toks, q)
                    if t == '{':
                        break
                elif k == 'p' and t == ';':
                    break
                q += 1
            items.append(Item('other', None, '', start, min(q, hi - 1), None, toks))
            i = q + 1
            continue
        # find the end of header: '{' or ';' at bracket depth 0 (angle brackets ignored)
        q = kwpos + 1
        body_open = None
        end = None
        while q < hi:
            k, t = toks[q][0], toks[q][1]
            if k == 'p' and t in ('(', '['):
                q = match_close(toks, q) + 1
                continue
            if k == 'p' and t == '{':
                if kind in ('const', 'static', 'type', 'use'):
                    # braces inside an expression / use-list: skip group, keep looking for ';'
                    q = match_close(toks, q) + 1
                    continue
                body_open = q
                end = match_close(toks, q)
                break
            if k == 'p' and t == ';':
                end = q
                break
            q += 1
        if end is None:
            raise LexError('item without end near token %d (%s)' % (kwpos, toks[kwpos][1]))
        hdr_end = body_open if body_open is not None else end
        header = norm(''.join(t[1] for t in toks[kwpos:hdr_end]))
        if kind == 'impl' or kind == 'use':
            name = header
        elif kind == 'macro_rules':
            name = header
        else:
            q = kwpos + 1
            while toks[q][0] in TRIVIA:
                q += 1
            name = toks[q][1]
        # tuple struct / unit struct: `struct X(..);` handled by ';' end
        items.append(Item(kind, name, header, start, end, body_open, toks))
        i = end + 1
    return items


class AnchorError(Exception):
    pass


def find_path(src, path):
    """path: list of segments like 'impl PeerState', 'fn finish', 'mod tests', 'trait Store', 'struct X', 'enum Y'.
    Returns (Item, toks)."""
    toks = tokenize(src)
    lo, hi = 0, len(toks)
    item = None
    for seg_i, seg in enumerate(path):
        seg = seg.strip()
        m_ = re.match(r'[a-z_]+', seg)
        kind = m_.group(0) if m_ else seg
        rest = seg[len(kind):].strip()
        want = norm(seg)
        cands = []
        for it in items_in(toks, lo, hi):
            if it.kind != kind:
                continue
            if kind == 'impl':
                if it.header == want:
                    cands.append(it)
            else:
                if it.name == rest.strip():
                    cands.append(it)
        if kind == 'impl' and not cands:
            for it in items_in(toks, lo, hi):
                if it.kind == 'impl' and want[len('impl'):].strip() and want[len('impl'):].strip() in it.header:
                    cands.append(it)
        if len(cands) == 0:
            raise AnchorError('anchor not found: %r in path %r' % (seg, path))
        if len(cands) > 1 and seg_i + 1 < len(path):
            # several blocks with the same header (e.g. two `impl Store {`): keep those containing the next segment
            nxt = path[seg_i + 1].strip()
            m2 = re.match(r'[a-z_]+', nxt)
            nkind = m2.group(0) if m2 else nxt
            nrest = nxt[len(nkind):].strip()
            keep = []
            for c in cands:
                if c.body_open is None:
                    continue
                for it in items_in(toks, c.body_open + 1, c.end_tok):
                    if it.kind == nkind and ((nkind == 'impl' and it.header == norm(nxt)) or (nkind != 'impl' and it.name == nrest)):
                        keep.append(c)
                        break
            cands = keep
            if len(cands) == 0:
                raise AnchorError('anchor not found: %r in any %r of path %r' % (nxt, seg, path))
        if len(cands) > 1:
            # allow cfg(test) duplicates? no: ambiguous
            raise AnchorError('anchor ambiguous (%d matches): %r in path %r' % (len(cands), seg, path))
        item = cands[0]
        if item.body_open is not None:
            lo, hi = item.body_open + 1, item.end_tok
    return item, toks
