#!/usr/bin/env python3
"""writes the task text for an independent seeding sub-agent: python3 tools/seed_prompt.py <SEEDDIR> <ID> [...]
The sub-agent gets only the property text, its own scratch worktree and the summaries of changes already tried."""
import glob, json, os, sys
VERIF = os.path.dirname(os.path.dirname(os.path.abspath(__file__)))
seeddir = sys.argv[1]
props = {json.loads(l)['id']: json.loads(l) for l in open(os.path.join(VERIF, 'properties.jsonl'))}
for pid in sys.argv[2:]:
    p = props[pid]
    tried = []
    for d in sorted(glob.glob(os.path.join(VERIF, 'seeded', pid + '-*'))):
        try:
            tried.append(' - ' + json.load(open(os.path.join(d, 'meta.json')))['summary'][:260].replace('\n', ' '))
        except Exception:
            pass
    wt = '%s/%s' % (seeddir, pid)
    tg = '%s/target-%s' % (seeddir, pid)
    txt = f"""You are helping to evaluate a verification effort by playing the role of a developer who introduces a subtle regression.

You have your own git worktree of the Rust crate `iroh-docs` at {wt} (a detached checkout; work ONLY inside this directory; do not read or touch /repo, /verif or any other directory outside {wt} except the cargo registry for reading dependency sources). Build and test offline with a private target directory:
    cd {wt} && CARGO_NET_OFFLINE=true CARGO_TARGET_DIR={tg} cargo nextest run --offline --no-fail-fast --test-threads 8        (the full existing suite: 92 tests must keep passing)
    CARGO_TARGET_DIR={tg} cargo test --offline --lib <filter> -- --nocapture                                                    (to run your own demonstration test)
The first build takes a few minutes. Two network tests (test_sync_via_relay, test_download_policies) are flaky under machine load: re-run them alone before concluding that a change breaks them.

Here is a semantic property that the crate is supposed to satisfy (this text is ALL you know about what is being checked):

----------------------------------------------------------------
{pid}: {p['title']}

{p['statement']}

Quantified over: {p['quantifier']['text']}
----------------------------------------------------------------
"""
    if tried:
        txt += "\nThe following changes have ALREADY been tried by somebody else; do NOT repeat them or trivial variants of them (choose different functions / mechanisms / failure modes):\n" + '\n'.join(tried) + '\n'
    txt += f"""
Your task: produce THREE different source changes (independent of each other, each applied to the pristine checkout), each of which
  (a) is a realistic, small edit to the crate's non-test source code (src/**, not inside #[cfg(test)] modules) of the kind a developer could make by mistake or during a refactor (a flipped comparison, an off-by-one, a dropped or misplaced check, a wrong bound, a forgotten table/row/flag update, a swapped argument, an early return, a changed default ...),
  (b) makes the crate VIOLATE the property above,
  (c) still compiles and still passes the complete existing test suite (all 92 tests), and
  (d) needs something specific to manifest - a particular multi-step sequence of operations, an unusual input (e.g. keys with 0xFF bytes, empty keys, equal timestamps, prefixes), a particular arrival order, a failure at a particular point, or two cooperating sites that each look fine alone - rather than being exposed at once by ordinary use.
Prefer changes in different functions / mechanisms for the three variants, and prefer the core mechanisms that implement the property over peripheral code.

For each change i in 1..3 deliver, under {wt}/out/ (create it):
  - m<i>.patch        : `git diff` of the change against the pristine checkout (source change only, WITHOUT the demonstration test)
  - m<i>_demo.rs      : a self-contained demonstration: a `#[cfg(test)] mod seeded_demo_m<i> {{ use super::*; ... }}` module text that can be appended to one source file of the crate (say which one in a first-line comment `// append to: src/....rs`) containing one or more `#[test]`/`#[tokio::test]` functions that PASS on the pristine checkout and FAIL with the change applied
  - m<i>_meta.json    : {{"property": "{pid}", "summary": "...what was changed...", "why_it_breaks": "...", "needs_to_manifest": "...the specific input / sequence / order needed...", "demo_target_file": "src/...", "demo_test_filter": "seeded_demo_m<i>", "suite_passes_with_change": true, "demo_fails_with_change": true, "demo_passes_without_change": true}}
You must actually verify (c) and the demo behaviour yourself by running the commands, for every change, and only report what you observed. Restore the pristine state between variants with `git -C {wt} checkout -- . && git -C {wt} clean -fd -e out`.
When done, delete {tg} (rm -rf) to free disk space, leave {wt}/out in place, and reply with a short summary of the three changes and the verification you ran.
"""
    os.makedirs(seeddir, exist_ok=True)
    open('%s/%s.prompt.txt' % (seeddir, pid), 'w').write(txt)
    print('wrote %s/%s.prompt.txt (%d earlier changes listed)' % (seeddir, pid, len(tried)))
