#!/usr/bin/env python3
"""Engine RP: look for a concrete failing input of a failed obligation against the real crate.

replay/cases/<name>.rs: a `#[cfg(test)] mod verif_rp_<name> { .. }` module with header comments
    // target: src/sync.rs          (file of the crate copy the module is appended to)
    // labels: label1 label2 ...     (obligation labels this case can witness; prefix match with trailing *)
Each test in the module checks the same statement as the obligation on concrete inputs and panics with the
failing input when the real code violates it. RP never decides a property.
"""
import glob
import os
import re
import subprocess
import sys
import time

VERIF = os.path.dirname(os.path.dirname(os.path.abspath(__file__)))
REPO = os.environ.get('VERIF_REPO', '/repo')
WORK = os.path.join(VERIF, '.cache', 'rp-work' + os.environ.get('VERIF_WORK_SUFFIX', ''))
TARGET = os.path.join(VERIF, '.cache', 'rp-target')


def cases():
    res = []
    for p in sorted(glob.glob(os.path.join(VERIF, 'replay', 'cases', '*.rs'))):
        txt = open(p).read()
        m = re.search(r'^// target:\s*(\S+)', txt, re.M)
        l = re.search(r'^// labels:\s*(.*)$', txt, re.M)
        t = re.search(r'^// tier:\s*(\S+)', txt, re.M)
        b = re.search(r'^// bound:\s*(.*(?:\n// (?!target:|labels:|tier:).*)*)', txt, re.M)
        name = os.path.splitext(os.path.basename(p))[0]
        res.append({'name': name, 'path': p, 'target': m.group(1) if m else 'src/sync.rs', 'labels': l.group(1).split() if l else [], 'text': txt,
                    'tier': t.group(1) if t else 'thorough', 'bound': re.sub(r'\n// ', ' ', b.group(1)).strip() if b else ''})
    return res


def matches(label, pats):
    for p in pats:
        if p.endswith('*') and label.startswith(p[:-1]):
            return True
        if p == label:
            return True
    return False


def run_cases(sel, timeout=1500):
    """append the selected case modules to a fresh copy of /repo and run them. -> dict name -> (failed?, output)"""
    os.makedirs(WORK, exist_ok=True)
    subprocess.run(['rsync', '-a', '--delete', '--exclude', 'target', '--exclude', '.git', REPO + '/', WORK + '/'], check=True)
    for c in sel:
        with open(os.path.join(WORK, c['target']), 'a') as f:
            f.write('\n' + c['text'] + '\n')
    env = dict(os.environ)
    env['CARGO_TARGET_DIR'] = TARGET
    env['CARGO_NET_OFFLINE'] = 'true'
    if os.environ.get('VERIF_TIER') == 'thorough' or os.environ.get('VERIF_BX_DEPTH') == 'thorough':
        env['VERIF_BX_DEPTH'] = 'thorough'
    out = {}
    for c in sel:
        t0 = time.time()
        p = subprocess.run(['cargo', 'test', '--offline', '--config', 'profile.dev.package."*".opt-level=2', '--lib', 'verif_rp_' + c['name'] + '::', '--', '--nocapture', '--test-threads', '1'],
                           cwd=WORK, env=env, capture_output=True, text=True, timeout=timeout)
        txt = p.stdout + '\n' + p.stderr
        ran = re.search(r'test result: (\w+)\. (\d+) passed; (\d+) failed', txt)
        if not ran:
            out[c['name']] = {'status': 'error', 'output': txt[-3000:], 'wall': time.time() - t0}
            continue
        failed = int(ran.group(3)) > 0
        lines = [l for l in txt.split('\n') if 'WITNESS' in l or 'panicked at' in l or l.startswith('test ')]
        out[c['name']] = {'status': 'fail' if failed else 'pass', 'output': '\n'.join(lines)[-3000:], 'passed': int(ran.group(2)), 'failed': int(ran.group(3)), 'wall': time.time() - t0}
    return out


def find_witness(prop, label):
    sel = [c for c in cases() if matches(label, c['labels'])]
    if not sel:
        return {'found': False, 'note': 'no replay case registered for this obligation'}
    try:
        res = run_cases(sel)
    except Exception as e:
        return {'found': False, 'note': 'replay failed to run: %r' % e}
    for name, r in res.items():
        if r['status'] == 'fail':
            return {'found': True, 'case': name, 'input': r['output'], 'note': 'concrete input(s) on which the real code violates the obligation (cargo test on a copy of /repo working tree)'}
    return {'found': False, 'note': 'replay cases ran without finding a failing input: ' + ', '.join('%s=%s' % (n, r['status']) for n, r in res.items())}


if __name__ == '__main__':
    if sys.argv[1:] == ['--warm']:
        # build the test binary of a pristine copy once so that later runs are incremental
        os.makedirs(WORK, exist_ok=True)
        subprocess.run(['rsync', '-a', '--delete', '--exclude', 'target', '--exclude', '.git', REPO + '/', WORK + '/'], check=True)
        env = dict(os.environ); env['CARGO_TARGET_DIR'] = TARGET; env['CARGO_NET_OFFLINE'] = 'true'
        r = subprocess.run(['cargo', 'test', '--offline', '--config', 'profile.dev.package."*".opt-level=2', '--lib', '--no-run'], cwd=WORK, env=env)
        sys.exit(r.returncode)
    names = sys.argv[1:]
    sel = [c for c in cases() if not names or c['name'] in names]
    res = run_cases(sel)
    bad = 0
    for n, r in res.items():
        print('==', n, r['status'], '%.1fs' % r['wall'])
        print(r['output'])
        if r['status'] != 'pass':
            bad = 1
    sys.exit(bad)
