#!/usr/bin/env python3
"""false-alarm test: apply each behaviour-preserving patch to /repo, run every VX unit, every KX unit and every quick BX case,
undo. A unit that reports a failure (other than a listed known finding) on such a patch is a false alarm."""
import concurrent.futures as cf, glob, json, os, subprocess, sys
VERIF = os.path.dirname(os.path.dirname(os.path.abspath(__file__)))
sys.path.insert(0, os.path.join(VERIF, 'tools'))
import vx, kx, rp, registry
patches = sorted(glob.glob(sys.argv[1] + '/b*.patch'))
out = {}
known = set(l.split('label=')[1].split()[0] for l in open(os.path.join(VERIF, 'known_findings.txt')) if l.startswith('known:'))
assert subprocess.run(['git', '-C', '/repo', 'status', '--porcelain'], capture_output=True, text=True).stdout.strip() == ''
units = sorted(glob.glob(os.path.join(VERIF, 'vx', 'units', '*.vt')))
for p in patches:
    name = os.path.basename(p)
    if subprocess.run(['git', '-C', '/repo', 'apply', p]).returncode != 0:
        out[name] = {'applies': False}; continue
    try:
        res = {'vx': {}, 'kx': {}, 'bx': {}}
        with cf.ThreadPoolExecutor(max_workers=8) as ex:
            futs = {ex.submit(vx.run_unit, u, os.path.join(VERIF, '.cache', 'vx-work', 'benign'), 0, known): u for u in units}
            for f in cf.as_completed(futs):
                r = f.result()
                st = r['status']
                if st == 'fail' and all(fl['labels'] and all(l in known for l in fl['labels']) for fl in r.get('failures', [])):
                    st = 'ok(known)'
                if st == 'fail' and r.get('degraded'):
                    # the check's policy (DESIGN 0.2, degraded anchors): proof splices lost -> a failing obligation is reported only with a
                    # concrete witness from the replay engine, otherwise the unit is undecided (exit 2)
                    st = 'undecided'
                    r['reason'] = 'annotation anchors lost (%s): failing obligations are not reported without a witness' % '; '.join(r['degraded'])[:120]
                res['vx'][r['unit']] = st if st in ('ok', 'ok(known)') else (st + ': ' + (r.get('reason') or ', '.join(sorted(set(l for fl in r.get('failures', []) for l in (fl['labels'] or [fl['function'] + '.body-safety'])))))[:160])
        for k in kx.run_units(list(registry.KX.values())):
            res['kx'][k['name']] = k['status'] + ((': ' + k.get('reason', '')[:100]) if k['status'] != 'ok' else '')
        sel = [] if os.environ.get('BENIGN_SKIP_BX') else [c for c in rp.cases() if c['tier'] == 'quick']
        for n, r in (rp.run_cases(sel).items() if sel else []):
            res['bx'][n] = r['status']
        out[name] = res
        bad = {k: v for sec in res.values() for k, v in sec.items() if not str(v).startswith('ok') and not str(v).startswith('pass')}
        print(name, 'FALSE-ALARM' if any(str(v).startswith('fail') for v in bad.values()) else 'no-alarm', json.dumps(bad)[:400], flush=True)
    finally:
        subprocess.run(['git', '-C', '/repo', 'checkout', '--', '.'], check=True)
json.dump(out, open(os.path.join(VERIF, 'notes', 'benign_results.json'), 'w'), indent=1)
