#!/usr/bin/env python3
"""one-off maintenance: record, next to every `//@ closure k:` directive, the header the closure has in the current /repo
(`//@ closure-expect k: |..|`), so that later changes that insert/remove closures can be re-aligned."""
import glob, os, re, sys
sys.path.insert(0, os.path.dirname(os.path.abspath(__file__)))
import vx
from rustlex import tokenize, norm
VERIF = vx.VERIF
files = glob.glob(os.path.join(VERIF, 'vx', 'units', '*.vt')) + glob.glob(os.path.join(VERIF, 'vx', 'frag', '*.vt'))
for f in files:
    lines = open(f).read().split('\n')
    out = []
    cur = None
    changed = False
    i = 0
    while i < len(lines):
        l = lines[i]
        m = re.match(r'\s*//@extract (.*)$', l)
        if m:
            parts = [p.strip() for p in m.group(1).split(' :: ')]
            cur = (parts[0], parts[1:])
            curlift = None
        m2 = re.match(r'\s*//@ closure (\d+):', l)
        m3 = re.match(r'\s*//@ loop (\d+):\s*$', l)
        out.append(l)
        if m3 and cur and not any(re.match(r'\s*//@ loop-expect %s:' % m3.group(1), x) for x in lines[max(0, i - 2):i + 3]):
            j = i
            while j >= 0 and not lines[j].strip().startswith('//@extract'):
                j -= 1
            blk = []
            k = j + 1
            while k < len(lines) and lines[k].strip() != '//@end':
                blk.append(lines[k]); k += 1
            tmp = '/tmp/_ce.vt'
            open(tmp, 'w').write('\n'.join([lines[j]] + [b for b in blk if re.match(r'\s*//@ (rules|map|sig|letty|lift-async|lift-closure):', b) or re.match(r'\s*//@ lift-', b)] + ['//@end']) + '\n')
            try:
                chunks = vx.parse_template(tmp)
                exx = chunks[0][1]
                text, log, meta = vx.render_extract(exx)
                _, _, body = vx.split_item(text)
                toks = tokenize(body)
                lp = vx.find_loops(toks)
                kk = int(m3.group(1))
                if 1 <= kk <= len(lp):
                    # insert after the continuation lines of this loop directive? simplest: directly after the directive line
                    out.append('//@ loop-expect %d: %s' % (kk, toks[lp[kk - 1]][1]))
                    changed = True
            except Exception as e:
                print('skip loop', f, l, e)
        if m2 and cur and not any(re.match(r'\s*//@ closure-expect %s:' % m2.group(1), x) for x in lines[max(0, i - 2):i + 8]):
            # compute header k of the body after rules: use vx internals
            ex = vx.Extract(cur[0], cur[1])
            # gather rules/maps of this block
            j = i
            while j >= 0 and not lines[j].strip().startswith('//@extract'):
                j -= 1
            blk = []
            k = j + 1
            while k < len(lines) and lines[k].strip() != '//@end':
                blk.append(lines[k]); k += 1
            tmp = '/tmp/_ce.vt'
            open(tmp, 'w').write('\n'.join([lines[j]] + [b for b in blk if re.match(r'\s*//@ (rules|map|sig|letty):', b)] + ['//@end']) + '\n')
            try:
                chunks = vx.parse_template(tmp)
                exx = chunks[0][1]
                text, log, meta = vx.render_extract(exx)
                # body after rules = text after header; find closures
                _, _, body = vx.split_item(text)
                toks = tokenize(body)
                cl = vx.find_closures(toks)
                kk = int(m2.group(1))
                if 1 <= kk <= len(cl):
                    hdr = norm(''.join(t[1] for t in toks[cl[kk - 1][0]:cl[kk - 1][1] + 1]))
                    out.append('//@ closure-expect %d: %s' % (kk, hdr))
                    changed = True
            except Exception as e:
                print('skip', f, l, e)
        i += 1
    if changed:
        open(f, 'w').write('\n'.join(out))
        print('updated', os.path.relpath(f, VERIF))
