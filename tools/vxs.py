#!/usr/bin/env python3
"""short summary of vx runs: python3 tools/vxs.py U-name [more units]  (honours VERIF_REPO; VXS=-v prints rendered errors)"""
import os, sys
V = os.path.dirname(os.path.dirname(os.path.abspath(__file__)))
sys.path.insert(0, os.path.join(V, 'tools'))
import vx
for u in sys.argv[1:]:
    j = vx.run_unit(os.path.join(V, 'vx', 'units', u + '.vt'), os.path.join(V, '.cache', 'vx-work' + os.environ.get('VERIF_WORK_SUFFIX', '')))
    print(u, j['status'], 'obl=%d' % len(j.get('obligations', [])), 'wall=%.1f' % j.get('wall', 0), 'degraded=%s' % j.get('degraded'), (j.get('reason') or j.get('error') or '')[:600])
    for f in j.get('failures', []):
        print('   FAIL', f['function'], f['labels'], f['message'].split('\n')[0], f['where'])
    if j.get('vac_missing'): print('   VAC-MISSING', j['vac_missing'])
    if '-v' in os.environ.get('VXS', ''):
        for f in j.get('failures', []): print(f['rendered'][:1500])
        if j['status'] not in ('ok', 'fail'): print(j.get('rendered', '')[:3000])
