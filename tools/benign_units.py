import glob, json, os, re, subprocess, sys
V='/verif'
def units_for(file):
    us=set()
    # units whose template (incl. included frags) extracts from the file
    for u in glob.glob(V+'/vx/units/*.vt'):
        txt=open(u).read()
        incs=re.findall(r'//@include (\S+)', txt)
        seen=set()
        while incs:
            i=incs.pop()
            if i in seen: continue
            seen.add(i)
            try: t2=open(V+'/vx/'+i).read()
            except: continue
            txt+=t2; incs+=re.findall(r'//@include (\S+)', t2)
        if ('//@extract '+file) in txt: us.add(os.path.basename(u)[:-3])
    return sorted(us)
res={}
for p in sorted(glob.glob(V+'/notes/benign/b*.patch')):
    n=os.path.basename(p)[:-6]
    if sys.argv[1:] and n not in sys.argv[1:]: continue
    meta=json.load(open(p[:-6]+'.json'))
    us=units_for(meta['file'])
    subprocess.run(['rm','-rf','/tmp/bq']); os.makedirs('/tmp/bq')
    subprocess.run(['rsync','-a','--exclude','target','--exclude','.git','/repo/','/tmp/bq/'],check=True)
    ap=subprocess.run(['patch','-p1','-s','-d','/tmp/bq','-i',p],capture_output=True,text=True)
    if ap.returncode: print(n,'PATCH FAILS',ap.stdout[:200]); continue
    env=dict(os.environ); env['VERIF_REPO']='/tmp/bq'; env['VERIF_WORK_SUFFIX']='-benign'
    out=subprocess.run(['python3',V+'/tools/vxs.py']+us,capture_output=True,text=True,env=env).stdout
    lines=[l for l in out.split('\n') if l.startswith('U-') or l.startswith('L-')]
    bad=[l[:260] for l in lines if ' ok ' not in l]
    res[n]={'file':meta['file'],'function':meta['function'],'units':len(us),'not_ok':bad}
    print(n, meta['function'][:50], 'units=%d'%len(us), 'ALL-OK' if not bad else bad, flush=True)
prev={}
try: prev=json.load(open('/verif/notes/benign_units_results.json'))
except Exception: pass
prev.update(res)
json.dump(prev,open('/verif/notes/benign_units_results.json','w'),indent=1)
