FIX_COMMITS = ['81ddff2', '385433c', 'cc971f4', 'bbe6c99', 'bc82b1c', '737bbcb', '381eb2a', 'f3c4e1a', '36238bb']
NOTES = 'Contract-based deductive verification of the real code: see DESIGN.md. exit 2 of a check means undecided (lost anchor / unsupported construct / resource limit), never an alarm.'
CHECKS = {
    'C11': {
        'text': 'Verus discharges, for all states and arguments, the exact transition contracts of the per-peer sync slot (PeerState::{start_connect,accept_request,finish,set_sync_running}) on the real function text extracted from src/engine/state.rs on every run.',
        'design_ref': 'DESIGN.md section 5, C11',
        'note': 'Trusted: SystemTime/Instant::now arbitrary; tie-break used through an uninterpreted predicate; two-node interleaving theorem not proved (per-function contracts only).',
        'technique': 'contract-based deductive verification (Verus on mechanically extracted real functions)',
    },
}
CHECKS['C05'] = {
    'text': 'Verus proves on the extracted real text that every range bound built for a query (RecordsBounds::author_key/author_prefix/namespace/from_start/to_end, ByKeyBounds::new/namespace) contains exactly the ids the filter describes, for all namespaces, authors and byte-string keys (0xFF tails, empty keys included); Kani proves the byte-increment helper for all 32-byte ids. The offset/limit window of QueryIterator::next is out of reach and stated as not covered.',
    'design_ref': 'DESIGN.md section 5, C05',
    'note': 'Trusted: redb table order and range semantics (A-redb), Bytes as abstract byte string, increment_by_one for variable-length slices beyond the Kani bound; QueryIterator::next not covered.',
    'technique': 'contract-based deductive verification (Verus on mechanically extracted real functions; Kani for byte-level leaf functions)',
}
TECH = 'contract-based deductive verification (Verus on mechanically extracted real functions; Kani for byte-level leaf functions)'
CHECKS['C02'] = {
    'text': 'Verus proves, for all table states, keys, timestamps and hashes, that ranger::Store::put (real text) admits an entry iff it is strictly newer than every same-author entry at its key or any prefix of it (empty key and deletion markers included), prunes exactly the same-author entries below its key that are not newer, reports their number, writes the entry and touches nothing else; a rejected entry changes nothing. The proof is modular over the contracts, proved in the same unit on the real text, of get_exact, parents, prefixes_of, remove_prefix_filtered, entry_put, and over the exact range bounds proved in U-bounds.',
    'design_ref': 'DESIGN.md section 5, C02',
    'note': 'Trusted: redb table semantics (A-redb), Store::modify runs its closure once (R4), abstract entry getters, Record order (Kani), Bytes. Order-independence over sequences follows from put == put_spec but the fold lemma is not mechanised.',
    'technique': TECH,
}
CHECKS['C08'] = {
    'text': 'Per-primitive half of the statement: Verus proves on the real text that prefix lookup, filtered prefix removal, single put and the range bounds of the redb-backed store equal their ordered-map definitions, for all table contents and ids.',
    'design_ref': 'DESIGN.md section 5, C08',
    'note': 'Trusted: A-redb, R4. Whole-session transcript equality is not decided (relational over process_message).',
    'technique': TECH,
}
CHECKS['C13'] = {
    'text': 'Verus proves on the real text that entry_put leaves the per-author head at max(old head, entry timestamp) with every other head unchanged, and that remove_replica deletes exactly the heads of the removed document.',
    'design_ref': 'DESIGN.md section 5, C13',
    'note': 'Trusted: A-redb, R4, abstract entry getters.',
    'technique': TECH,
}
CHECKS['C16'] = {
    'text': 'Verus proves on the real text of Store::remove_replica, for all table contents and namespace ids (neighbours in byte order, ids ending in 0xFF): refused while open with nothing changed; otherwise exactly the rows of that document disappear from records, by-key index, heads, capability, peers and policy tables and every other row is unchanged. The namespace range bounds it relies on are proved exact in U-bounds.',
    'design_ref': 'DESIGN.md section 5, C16',
    'note': 'Trusted: A-redb, R4, abstract open-replica set.',
    'technique': TECH,
}
NOT_APPLICABLE = {
    'C01': 'whole-session convergence of the generic async reconciliation routine (GAT iterators, three closures, FuturesOrdered) is a protocol proof over message histories, outside function contracts; Verus cannot take process_message, Kani cannot run the redb store or Bytes',
    'C04': 'statement over interleavings/histories of 2..5 replicas with lossy gossip and restarts; no function or data structure whose contract expresses it',
    'C06': 'needs crash points, redb recovery semantics and wall-clock commit placement; none of these is an input of any function, redb is a trusted dependency',
    'C14': 'handle counting is written against HashMap::entry (Vacant/Occupied guards) which neither Verus (no spec) nor Kani (hashbrown SIMD ICE) can handle; the remaining clauses are actor scheduling/FIFO/concurrency, on which this family is silent',
}
for _p in ['C02','C03','C05','C07','C08','C09','C10','C12','C13','C15','C16','C17','C18']:
    NOT_APPLICABLE.setdefault(_p, 'not yet claimed: units under construction (see DESIGN.md section 5)')
