FIX_COMMITS = ['81ddff2', '385433c', 'cc971f4', 'bbe6c99', 'bc82b1c', '737bbcb', '381eb2a', 'f3c4e1a', '36238bb', '91307a4', '71b6bdf', '4a011ec', '029d212', '06a4570']
NOTES = 'Contract-based deductive verification of the real code: see DESIGN.md. exit 2 of a check means undecided (lost anchor / unsupported construct / resource limit), never an alarm.'
CHECKS = {
    'C11': {
        'text': 'Verus discharges, for all states and arguments, the exact transition contracts of the per-peer sync slot (PeerState and NamespaceStates) and the slot postconditions of the live actor handlers on the real text: a finished, failed or declined dial never leaves the slot marked as dialing, an accepted session frees the slot, exactly one follow-up dial iff a report was refused, a dial task is spawned iff start_connect allowed it, unknown documents are declined as not found; lemmas over these contracts give the simultaneous-dial tie-break.',
        'design_ref': 'DESIGN.md section 5, C11',
        'note': 'Trusted: SystemTime/Instant::now arbitrary; tie-break used through an uninterpreted predicate; two-node interleaving theorem not proved (per-function contracts only).',
        'technique': 'contract-based deductive verification (Verus on mechanically extracted real functions)',
    },
}
CHECKS['C05'] = {
    'text': 'Verus proves on the extracted real text that every range bound built for a query (RecordsBounds::author_key/author_prefix/namespace/from_start/to_end, ByKeyBounds::new/namespace) contains exactly the ids the filter describes, for all namespaces, authors and byte-string keys (0xFF tails, empty keys included); Kani proves the byte-increment helper for all 32-byte ids. QueryIterator::new opens exactly the range the filters describe and QueryIterator::next is verified on its real text (after two logged generic desugarings for `break <value>` and tuple-pattern closure parameters): every call returns the entry at the remaining offset of the filtered stream - for latest-per-key queries the stream is the selector output over all live index rows, then author- and empty-filtered -, skips exactly `offset` entries, never passes `limit`; a verified client lemma shows that driving a fresh iterator to the end collects exactly take(limit, skip(offset, stream)). A bounded stand-in (c05_query) additionally executes 5508 queries against a real store.',
    'design_ref': 'DESIGN.md section 5, C05',
    'note': 'Trusted: redb table order and range semantics (A-redb), Bytes as abstract byte string, increment_by_one for variable-length slices beyond the Kani bound; the generic RangeExt helpers (next_filter_map) are modelled in the range shells; behaviour after a redb read error is not specified.',
    'technique': 'contract-based deductive verification (Verus on mechanically extracted real functions; Kani for byte-level leaf functions)',
}
TECH = 'contract-based deductive verification (Verus on mechanically extracted real functions; Kani for byte-level leaf functions)'
CHECKS['C02'] = {
    'text': 'Verus proves, for all table states, keys, timestamps and hashes, that ranger::Store::put (real text) admits an entry iff it is strictly newer than every same-author entry at its key or any prefix of it (empty key and deletion markers included), prunes exactly the same-author entries below its key that are not newer, reports their number, writes the entry and touches nothing else; a rejected entry changes nothing. The proof is modular over the contracts, proved in the same unit on the real text, of get_exact, parents, prefixes_of, remove_prefix_filtered, entry_put, and over the exact range bounds proved in U-bounds.',
    'design_ref': 'DESIGN.md section 5, C02',
    'note': 'Trusted: redb table semantics (A-redb), Store::modify runs its closure once (R4), abstract entry getters, Record order (Kani), Bytes. Order-independence over sequences follows from put == put_spec but the fold lemma is not mechanised.',
    'technique': TECH,
}
CHECKS['C08'] = {
    'text': 'Per-primitive half of the statement: Verus proves on the real text that prefix lookup, filtered prefix removal, single put and the range bounds of the redb-backed store equal their ordered-map definitions, for all table contents and ids.',
    'design_ref': 'DESIGN.md section 5, C08',
    'note': 'Trusted: A-redb, R4. Whole-session transcript equality is not decided (relational over process_message).',
    'technique': TECH,
}
CHECKS['C13'] = {
    'text': 'Verus proves on the real text that entry_put leaves the per-author head at max(old head, entry timestamp) with every other head unchanged, and that remove_replica deletes exactly the heads of the removed document.',
    'design_ref': 'DESIGN.md section 5, C13',
    'note': 'Trusted: A-redb, R4, abstract entry getters.',
    'technique': TECH,
}
CHECKS['C16'] = {
    'text': 'Verus proves on the real text of Store::remove_replica, for all table contents and namespace ids (neighbours in byte order, ids ending in 0xFF): refused while open with nothing changed; otherwise exactly the rows of that document disappear from records, by-key index, heads, capability, peers and policy tables and every other row is unchanged. The namespace range bounds it relies on are proved exact in U-bounds.',
    'design_ref': 'DESIGN.md section 5, C16',
    'note': 'Trusted: A-redb, R4, abstract open-replica set.',
    'technique': TECH,
}
CHECKS['C07'] = {
    'text': 'Verus proves on the real text: Capability::merge errs iff the ids differ (self unchanged), otherwise the result is Write iff either side was, a Write capability is never replaced, and the returned flag is exact; secret_key is Ok iff Write; from_raw(raw(c)) == c and from_raw errs exactly on unknown kinds; Store::import_namespace writes exactly merge(existing, imported) into the row of the named document and leaves every other row and table unchanged (also on every error exit); load_replica_info returns the stored capability. Lemmas over these contracts: over any sequence of imports a stored Write row never changes. The ImportNamespace arm of the store actor (lifted closure, U-actor-import): an upgrade reaches the open replica of that document (its capability becomes the merge = Write) and changes nothing else of it (subscribers, handles, sync flag), any other outcome leaves every open replica unchanged.',
    'design_ref': 'DESIGN.md section 5, C07',
    'note': 'Trusted: NamespaceSecret (opaque, bytes round trip), num_enum conversions, A-redb, R4. send_reply_with and the other actor arms are not under contract; HashMap entry API shell.',
    'technique': TECH,
}
CHECKS['C09'] = {
    'text': 'Framing half: Verus proves on the real text of SyncCodec::decode/encode that decoding never panics, short input is need-more-data with the buffer untouched, oversized frames are errors, a complete frame is consumed exactly, and encode appends exactly len_be32 followed by the payload to any buffer; lemmas give chunking independence and two-frame round trips over these contracts. Capability raw/from_raw round trip.',
    'design_ref': 'DESIGN.md section 5, C09',
    'note': 'Trusted: postcard as uninterpreted functions, BytesMut model. serde-derive round trips, snapshots and text forms are not covered.',
    'technique': TECH,
}
CHECKS['C10'] = {
    'text': 'Verus proves on the real text of BobState::{new,run,into_outcome}, run_alice and handle_connection, for every frame sequence and every local failure: no panic (every unwrap reached only with Some), a declined request returns Err(Abort) without any store call and with state unchanged, Sync-before-Init / double Init / Abort / early close are errors, Ok only after Init followed by Syncs, and the outcome can always be reported. A bounded stand-in (c10_session, labelled bounded, not counted) additionally runs the real BobState::run and run_alice over in-memory streams against a real store actor for every frame sequence of up to 3 frames (incl. undecodable and truncated frames), every accept-callback answer and replica state.',
    'design_ref': 'DESIGN.md section 5, C10',
    'note': 'Trusted: stream and store-handle shells returning arbitrary values. Liveness, actor shutdown and counter mirroring are not covered.',
    'technique': TECH,
}
CHECKS['C15'] = {
    'text': 'Verus proves on the real text that set_download_policy fails without any change for unknown documents and otherwise writes exactly the encoded policy row of that document, get_download_policy returns the decoded row or the default, get-after-set returns the policy set, and DownloadPolicy::matches / FilterKind::matches implement exactly the everything-except / nothing-except, prefix / exact rule.',
    'design_ref': 'DESIGN.md section 5, C15',
    'note': 'Trusted: A-redb, R4, postcard inverse axiom, Iterator::any/all specs. Text form and reopen not covered.',
    'technique': TECH,
}
CHECKS['C03'] = {
    'text': 'Verus proves on the real text: validate_entry returns Ok iff the namespace matches, the entry is Local or both signatures verify over the canonical bytes of this very entry (Entry::encode proved to write id, len, hash, timestamp), and the timestamp is at most now + ten minutes (constant tied to the real const by Kani); insert_remote_entry returns Ok only for well-formed-empty valid entries and changes nothing otherwise; the validate closure of sync_process_message (lambda-lifted mechanically) accepts exactly the same predicate, so both ingress paths agree. The gate inside process_message itself (validate before store, continue after a rejected entry) is outside both verifiers and is exercised by the bounded stand-in c03_recon (labelled bounded, not counted).',
    'design_ref': 'DESIGN.md section 5, C03',
    'note': 'Trusted: ed25519 as an uninterpreted predicate, clock bound, the gate inside process_message (A-recon-gate).',
    'technique': TECH,
}
CHECKS['C12'] = {
    'text': 'Direct ingress path: Verus proves on the real text of Replica::insert_entry / insert / delete_prefix / insert_remote_entry, with a ghost event log, that exactly one event carrying the entry is appended iff the put returned Inserted (after the put), marked Local or Remote with the providing peer and content status, no event on any error exit, and the remote download flag equals the policy verdict (policy read once, default on error).',
    'design_ref': 'DESIGN.md section 5, C12',
    'note': 'Trusted: Subscribers::send as ghost log append, store shells. Reconciliation path events and channel bookkeeping are not covered.',
    'technique': TECH,
}
CHECKS['C17'] = {
    'text': 'Verus proves on the real text of Store::register_useful_peer (85 lines, multimap iteration, eviction and refresh logic) that it performs exactly the most-recently-used step: unknown document fails with nothing changed, at most five peers, no duplicates, the registered peer present, re-registration replaces the old row, the oldest row is evicted only when the list is full and the peer is new, every other document and table unchanged; get_sync_peers returns the list most recent first; a lemma over these contracts shows that after any history of registrations with increasing clock the list is the five most recently registered distinct peers.',
    'design_ref': 'DESIGN.md section 5, C17',
    'note': 'Trusted: multimap ordering (A-redb), clock monotonicity as hypothesis, cache size shell. Reopen not covered.',
    'technique': TECH,
}
CHECKS['C18'] = {
    'text': 'Verus proves on the real text of the migrations: migration_004 skips and writes nothing iff the by-key index is non-empty, else the index becomes exactly {(ns,key,author)} of the records with the right count and records unchanged; migration_001 (full rebuild incl. the HashMap entry loop) skips iff heads are present or records empty, else heads are exactly the greatest timestamp per (namespace, author); migrations 002/003 skip iff no v1 table; run_migration commits iff Execute; run_migrations leaves an up-to-date database unchanged.',
    'design_ref': 'DESIGN.md section 5, C18',
    'note': 'Trusted: redb transaction/table shells, HashMap entry shell. Frame of unopened tables inside a transaction cannot be expressed; 002/003 Execute paths unspecified.',
    'technique': TECH,
}
CHECKS['C14'] = {
    'text': 'Per-function half of the statement: Verus proves on the real text of OpenReplicas that every open adds exactly one handle (creating the entry through the callback exactly on the first open, nothing created if it fails), sync is sticky across additional opens (OR-ed, never cleared by an open), close releases exactly one handle and returns true iff the document is not open afterwards, the data-structure invariant handles >= 1 is preserved by every operation (so wrapping_sub never wraps), replica / get_mut / ensure_open succeed iff open and change nothing otherwise, replica_if_syncing additionally requires the sync flag, other documents are never touched; Actor::close closes the replica in the store iff the last handle went away. Twelve action arms of the actor (set_sync, subscribe, unsubscribe, get_state, sync_initial_message, get_sync_peers, get_exact, export_secret_key, drop_replica, insert_local, delete_prefix, insert_remote) are verified as lifted closures: a request on a document that is not open (or, for the sync arms, not syncing) fails and changes nothing, set_sync changes exactly the flag, inserts are counted in the metrics iff they were applied. The actor-loop clauses (ordering, concurrency, shutdown) are outside contracts; a bounded stand-in exercises all single-client request sequences up to length 4 (5 in the thorough tier) and probes every gated request kind after every state prefix.',
    'design_ref': 'DESIGN.md sections 0.4 and 5, C14',
    'note': 'Trusted: HashMap entry API shell, subscribers opaque. Not covered by proof: actor loop ordering, concurrent clients, shutdown, the dispatch match and reply helpers, the SyncProcessMessage and GetMany arms; see coverage.not_covered.',
    'technique': TECH,
}
CHECKS['C01'] = {
    'text': 'Split claim. Proved for all inputs on the real text (Verus): the ingredients a session is built from - put is the newest-wins/prefix-deletion merge step and its fold is an order-independent join (U-store, L-join); get_first, get_range (incl. wrap-around ranges) and get_fingerprint return exactly the ordered-map definition (U-first, U-range); the validate callback accepts exactly the valid entries (U-valid-recon); four pieces of process_message itself, lifted mechanically from its real text (rules R6a/R6c): the loop storing incoming values (only validated values are put, announced iff inserted), the statement splitting a mismatching range (for every split factor the sub-ranges are a chain from x to y or a cycle through pivot 0: nothing of the parent range is left out), the pivot closure (offset within the counted entries, so no panic; pivots repeat every split factor) and the reply filter (an entry is left out of the reply iff the peer covers it). NOT proved: the rest of process_message (fingerprint comparison, recursion anchor, reply assembly) is outside both verifiers; the session-level statement (termination, both sides end with the join, empty second session, mirrored counters) is decided only by bounded stand-ins that run complete sessions between pairs of small replica states through the real Replica API (default config) and through ranger::Store::process_message for split factor 2..=5 x max set size 1..=3 (labelled bounded, not counted in obligations/discharged).',
    'design_ref': 'DESIGN.md sections 0.3, 0.4 (C01)',
    'note': 'process_message as a whole is unverified (four lifted pieces are; bounded executions for the session); redb-backed store only (the in-memory store is the same code over an in-memory redb backend).',
    'technique': TECH + '; bounded stand-in for process_message',
}
CHECKS['C06'] = {
    'text': 'Partial claim (commit placement and flush), proved for all inputs and all clock readings on the real text with Verus: the state a reopened store shows after a crash is the contents of the last commit, carried as ghost state Store.committed. Every store operation under contract - in particular ranger::Store::put with its three store accesses (prefixes_of, remove_prefix_filtered, entry_put), remove_replica, import_namespace, register_useful_peer, set_download_policy and the read paths - satisfies: the durable contents afterwards are either unchanged or exactly the contents the operation started from, for every placement of the age-based commit (the shells of Store::tables/modify allow a commit at every access; modify_continue never commits; these shell contracts are proved on the real Store::{tables, modify, modify_continue, modify_impl, flush, snapshot, snapshot_owned} in U-tx). Hence no commit can expose a half-applied insert, and flush makes everything acknowledged durable. What a contract cannot reach - that redb really persists a commit atomically and recovers the last commit from a file image taken at any instant - is trusted; a bounded stand-in (labelled bounded, not counted) images the database file at every commit placement inside one prefix-deleting insert on a persistent store and reopens it.',
    'design_ref': 'DESIGN.md sections 0.4 (C06) and 6 (D16)',
    'note': 'Trusted: redb commit atomicity and crash recovery (A-redb-commit); the crash instant is represented by ghost state, not enumerated. Not covered: actor idle flush, index agreement after prefix deletion (dangling index rows are tolerated by design), operations spanning several puts.',
    'technique': TECH + '; ghost commit state on the store shell; bounded stand-in for redb reopening',
}
NOT_APPLICABLE = {
    'C04': 'statement over interleavings/histories of 2..5 replicas with lossy gossip, aborted sessions and restarts, with a liveness conclusion ("once sessions are run to completion ..."): no function or data structure whose contract expresses it, Kani has no threads, Verus would need a protocol-level inductive invariant over process_message, which is outside both verifiers. What contracts can contribute is claimed elsewhere and not repeated here: the per-replica merge is an order- and repetition-independent join and only offered, valid entries are ever stored (C02 L-join, C03), a completed session is decided only within a bound (C01 c01_sync)',
}
for _p in ['C02','C03','C05','C07','C08','C09','C10','C12','C13','C15','C16','C17','C18']:
    NOT_APPLICABLE.setdefault(_p, 'not yet claimed: units under construction (see DESIGN.md section 5)')
