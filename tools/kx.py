#!/usr/bin/env python3
"""Engine KX: Kani on the real crate. Harness modules (kani/*.harness.rs) are appended to a scratch copy of the
source file they target (original text above, untouched), so private functions are reachable without hooks.

A unit: {'name', 'harness_file', 'target', 'harnesses': [..], 'function', 'class': 'complete'|'bounded', 'bound', 'labels', 'tier'}
Classification: complete = loop-free over the full domain, or all loops bounded by a fixed type width with unwinding
assertions on; bounded(n) = input length <= n (never counted as proved).
"""
import fcntl
import os
import re
import subprocess
import sys
import time

VERIF = os.path.dirname(os.path.dirname(os.path.abspath(__file__)))
REPO = os.environ.get('VERIF_REPO', '/repo')
WORK = os.path.join(VERIF, '.cache', 'kx-work' + os.environ.get('VERIF_WORK_SUFFIX', ''))
TARGET = os.path.join(VERIF, '.cache', 'kx-target')
LOCK = os.path.join(VERIF, '.cache', 'kx.lock')


def prepare(units):
    os.makedirs(WORK, exist_ok=True)
    subprocess.run(['rsync', '-a', '--delete', '--exclude', 'target', '--exclude', '.git', REPO + '/', WORK + '/'], check=True)
    done = set()
    for u in units:
        key = (u['harness_file'], u['target'])
        if key in done:
            continue
        done.add(key)
        with open(os.path.join(VERIF, 'kani', u['harness_file'])) as f:
            h = f.read()
        tp = os.path.join(WORK, u['target'])
        if not os.path.exists(tp):
            raise RuntimeError('target file missing: ' + u['target'])
        with open(tp, 'a') as f:
            f.write('\n' + h + '\n')


def parse(out):
    """-> dict harness -> {'ok': bool, 'failed': [desc], 'covers': (sat, total), 'time': s, 'raw': text}"""
    res = {}
    blocks = re.split(r'^Checking harness ', out, flags=re.M)
    for b in blocks[1:]:
        name = b.split('...')[0].strip()
        short = name.split('::')[-1]
        ok = 'VERIFICATION:- SUCCESSFUL' in b
        failed = []
        for m in re.finditer(r'Check \d+: (\S+)\n\s*- Status: (FAILURE|UNDETERMINED)\n\s*- Description: "(.*?)"\n\s*- Location: (.*)', b):
            failed.append('%s: %s @ %s [%s]' % (m.group(1), m.group(3), m.group(4).strip(), m.group(2)))
        for m in re.finditer(r'Failed Checks: (.*)', b):
            failed.append(m.group(1).strip())
        cov = re.search(r'\*\* (\d+) of (\d+) cover properties satisfied', b)
        t = re.search(r'Verification Time: ([0-9.]+)s', b)
        unwind_fail = 'unwinding assertion' in b and re.search(r'unwinding assertion.*\n.*\n|Status: FAILURE\n\s*- Description: "unwinding assertion', b) is not None and not ok
        concrete = None
        for cm in re.finditer(r'```\n(.*?)```', b, re.S):
            if 'concrete_playback_run' in cm.group(1) and 'Check for `cover`' not in cm.group(1):
                concrete = cm.group(1)
                break
        res[short] = {'ok': ok, 'failed': failed, 'covers': (int(cov.group(1)), int(cov.group(2))) if cov else None,
                      'time': float(t.group(1)) if t else 0.0, 'raw': b[-6000:], 'concrete': concrete}
    return res


def run_units(units, prop=None, timeout=3000):
    os.makedirs(os.path.dirname(LOCK), exist_ok=True)
    results = []
    with open(LOCK, 'w') as lk:
        fcntl.flock(lk, fcntl.LOCK_EX)
        try:
            prepare(units)
        except Exception as e:
            return [{'name': u['name'], 'status': 'undecided', 'reason': 'kx prepare failed: %r' % e, 'function': u['function'], 'class': u['class'], 'labels': u['labels'], 'bound': u.get('bound')} for u in units]
        hs = []
        for u in units:
            hs += u['harnesses']
        cmd = ['cargo', 'kani', '-Z', 'function-contracts', '-Z', 'stubbing', '-Z', 'concrete-playback', '--concrete-playback=print', '--output-format', 'regular']
        for h in hs:
            cmd += ['--harness', h]
        env = dict(os.environ)
        env['CARGO_NET_OFFLINE'] = 'true'
        env['CARGO_TARGET_DIR'] = TARGET
        t0 = time.time()
        try:
            p = subprocess.run(cmd, cwd=WORK, env=env, capture_output=True, text=True, timeout=timeout)
            out = p.stdout + '\n' + p.stderr
        except subprocess.TimeoutExpired as e:
            out = ''
            return [{'name': u['name'], 'status': 'undecided', 'reason': 'kani timed out', 'function': u['function'], 'class': u['class'], 'labels': u['labels'], 'bound': u.get('bound')} for u in units]
        wall = time.time() - t0
    parsed = parse(out)
    for u in units:
        r = {'name': u['name'], 'function': u['function'], 'class': u['class'], 'bound': u.get('bound'), 'labels': u['labels'],
             'src': u['target'], 'trusted': u.get('trusted', []), 'time_s': 0.0, 'checks': {}}
        bad = []
        undec = None
        traces = []
        concrete = None
        for h in u['harnesses']:
            pr = parsed.get(h)
            if pr is None:
                undec = 'harness %s produced no result (compile error?): %s' % (h, out[-1500:])
                break
            r['time_s'] += pr['time']
            r['checks'][h] = 'ok' if pr['ok'] else 'failed'
            if pr['covers'] and pr['covers'][0] < pr['covers'][1]:
                undec = 'vacuity guard: cover property unsatisfied in harness %s' % h
            if not pr['ok']:
                fl = [f for f in pr['failed']]
                if any('unwinding assertion' in f for f in fl) and all(('unwinding assertion' in f) or ('UNDETERMINED' in f) for f in fl if ':' in f):
                    undec = 'unwinding assertion failed in %s (loop bound no longer sufficient)' % h
                else:
                    bad.append(h)
                    traces.append('harness %s:\n' % h + '\n'.join(fl[:12]))
                    concrete = concrete or pr['concrete']
        if undec and not bad:
            r['status'] = 'undecided'
            r['reason'] = undec
        elif bad:
            r['status'] = 'fail'
            r['failed_labels'] = u['labels']
            r['trace'] = '\n'.join(traces)
            r['concrete'] = concrete
        else:
            r['status'] = 'ok'
        results.append(r)
    return results


if __name__ == '__main__':
    sys.path.insert(0, os.path.dirname(os.path.abspath(__file__)))
    import registry
    import json
    names = sys.argv[1:]
    us = [k for n, k in registry.KX.items() if not names or n in names]
    for r in run_units(us):
        print(json.dumps({k: v for k, v in r.items()}, indent=1)[:3000])
