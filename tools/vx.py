#!/usr/bin/env python3
"""Engine VX: build one Verus file per unit from /repo's current working tree and a unit template,
run Verus, map its diagnostics back to labelled obligations.

Unit template (.vt): ordinary Verus text plus directive lines starting with `//@`:

  //@include <path relative to vx/>
  //@extract <file> :: <seg> :: <seg> ...        (seg = `impl X`, `fn f`, `struct S`, `enum E`, `trait T`, `mod m`, `const C`)
  //@ rules: R4 R5 ...                            (R1, R2 and R9 are on by default, `rules: -R9` disables)
  //@ rename: newname                             (emit the fn under another name; logged)
  //@ ret: r                                      (name the return value: `-> T` becomes `-> (r: T)`)
  //@ sig: <old> => <new>                         (R3: literal replacement inside the signature only)
  //@ letty: <old> => <new>                       (R3: literal replacement inside `let` type annotations only)
  //@ map: <old> => <new> ## <reason>             (R8: logged expression desugaring, max 3 per extract)
  //@ map-each: <old> => <new> ## <reason>        (R8c: every occurrence, possibly none, rewritten alike; max 1 per extract)
  //@ contract:                                   (R7) following `//@| text` lines go between signature and body
  //@ loop <k>:                                   (R7) `//@| text` lines go before the body brace of the k-th loop
  //@ loop <k> iter: <name>                       (R7) `for p in e` -> `for p in name: e`
  //@ before <literal>:                           (R7) ghost/proof text inserted before the first occurrence of literal
  //@ after <literal>:                            (R7) ghost/proof text inserted after the first occurrence of literal
  //@ closure <k>: <new header>                   (R7) k-th closure `|..|` header replaced by an annotated header,
  //@|   ensures ...                              followed by contract lines; body is wrapped in a block
  //@ lift-closure <k> as <name>(<params>) -> <ret> (R6) lambda-lift closure k into a fn; emitted instead of the fn
  //@ novac                                       (no vacuity twin for this item)
  //@end

Contract lines may end with `//# label`; a diagnostic whose span touches that line is attributed to the label.
"""
import hashlib
import json
import os
import re
import subprocess
import sys
import time

sys.path.insert(0, os.path.dirname(os.path.abspath(__file__)))
from rustlex import tokenize, match_close, find_path, norm, TRIVIA, AnchorError, LexError, OPEN, CLOSE  # noqa

VERIF = os.path.dirname(os.path.dirname(os.path.abspath(__file__)))
REPO = os.environ.get('VERIF_REPO', '/repo')
VXDIR = os.path.join(VERIF, 'vx')

TRACE_MACROS = ('trace', 'debug', 'info', 'warn', 'error', 'debug_assert', 'debug_assert_eq')
KEEP_DERIVES = ('Clone', 'Copy', 'PartialEq', 'Eq')


class Undecided(Exception):
    """anchor lost / construct unsupported / tool failure: exit 2, never an alarm"""


def nontrivia(toks, i, step=1):
    i += step
    while 0 <= i < len(toks) and toks[i][0] in TRIVIA:
        i += step
    return i


def join(toks):
    return ''.join(t[1] for t in toks)


# ---------------------------------------------------------------------------------------------
# rewrite rules on item text


def split_item(text):
    """-> (prefix_text, header_text, body_text or None). prefix = attrs/docs; header up to (not incl.) body '{'."""
    toks = tokenize(text)
    i = 0
    n = len(toks)
    while i < n:
        k, t = toks[i][0], toks[i][1]
        if k in TRIVIA:
            i += 1
        elif k == 'p' and t == '#':
            m = nontrivia(toks, i)
            if toks[m][1] == '!':
                m = nontrivia(toks, m)
            i = match_close(toks, m) + 1
        else:
            break
    pre_end = toks[i][2] if i < n else len(text)
    # find body
    j = i
    body_open = None
    while j < n:
        k, t = toks[j][0], toks[j][1]
        if k == 'p' and t in ('(', '['):
            j = match_close(toks, j) + 1
            continue
        if k == 'p' and t == '{':
            body_open = j
            break
        if k == 'p' and t == ';':
            break
        j += 1
    if body_open is None:
        return text[:pre_end], text[pre_end:], None
    bo = toks[body_open][2]
    return text[:pre_end], text[pre_end:bo], text[bo:]


def rule_R2(prefix, log, keep_derive=True, keep_names=None):
    """drop docs and attributes in the item prefix; keep a filtered #[derive] (Clone/Copy/PartialEq/Eq)"""
    toks = tokenize(prefix)
    out = []
    i = 0
    while i < len(toks):
        k, t = toks[i][0], toks[i][1]
        if k == 'doc' or k == 'lc' or k == 'bc':
            log.append({'rule': 'R2', 'dropped': t.strip()[:60]})
            i += 1
        elif k == 'p' and t == '#':
            m = nontrivia(toks, i)
            e = match_close(toks, m)
            attr = norm(join(toks[i:e + 1]))
            m2 = re.match(r'#\[derive\((.*)\)\]$', attr)
            if m2 and keep_derive:
                names = [x.strip() for x in m2.group(1).split(',') if x.strip()]
                kept = [x for x in names if x.split('::')[-1] in (keep_names if keep_names is not None else KEEP_DERIVES)]
                dropped = [x for x in names if x not in kept]
                if dropped:
                    log.append({'rule': 'R2', 'dropped': 'derive(' + ','.join(dropped) + ')'})
                if kept:
                    out.append('#[derive(' + ', '.join(kept) + ')]\n')
            elif attr.startswith('#[verifier::'):
                out.append(attr + '\n')
            else:
                log.append({'rule': 'R2', 'dropped': attr[:80]})
            i = e + 1
        else:
            out.append(t)
            i += 1
    return ''.join(out)


def rule_R2_inner(body, log):
    """inside a struct/enum body: drop docs and attributes on fields/variants"""
    toks = tokenize(body)
    out = []
    i = 0
    while i < len(toks):
        k, t = toks[i][0], toks[i][1]
        if k == 'doc':
            i += 1
        elif k == 'p' and t == '#' and toks[nontrivia(toks, i)][1] == '[':
            m = nontrivia(toks, i)
            e = match_close(toks, m)
            log.append({'rule': 'R2', 'dropped': norm(join(toks[i:e + 1]))[:80]})
            i = e + 1
        else:
            out.append(t)
            i += 1
    return ''.join(out)


def rule_R9(text, log):
    """remove pub / pub(..) tokens"""
    toks = tokenize(text)
    out = []
    i = 0
    cnt = 0
    while i < len(toks):
        k, t = toks[i][0], toks[i][1]
        if k == 'id' and t == 'pub':
            cnt += 1
            j = nontrivia(toks, i)
            if j < len(toks) and toks[j][1] == '(':
                e = match_close(toks, j)
                inner = norm(join(toks[j:e + 1]))
                if inner in ('(crate)', '(super)', '(self)') or inner.startswith('(in '):
                    i = e + 1
                else:
                    i += 1
            else:
                i += 1
            # swallow one following space
            if i < len(toks) and toks[i][0] == 'ws':
                if toks[i][1].startswith(' '):
                    rest = toks[i][1][1:]
                    if rest:
                        out.append(rest)
                    i += 1
            continue
        out.append(t)
        i += 1
    if cnt:
        log.append({'rule': 'R9', 'dropped': 'pub x%d' % cnt})
    return ''.join(out)


def rule_R1(body, log):
    """drop tracing macro statements, debug_assert, Span::current().record(..) statements"""
    toks = tokenize(body)
    out = []
    i = 0
    n = len(toks)
    while i < n:
        k, t = toks[i][0], toks[i][1]
        if k == 'id' and t in TRACE_MACROS:
            j = nontrivia(toks, i)
            if j < n and toks[j][1] == '!':
                g = nontrivia(toks, j)
                if g < n and toks[g][1] in ('(', '{', '['):
                    e = match_close(toks, g)
                    # optional `tracing::` before
                    b = len(out)
                    p = b - 1
                    while p >= 0 and out[p][0] in TRIVIA:
                        p -= 1
                    if p >= 1 and out[p][1] == '::' :
                        q = p - 1
                        while q >= 0 and out[q][0] in TRIVIA:
                            q -= 1
                        if q >= 0 and out[q][1] == 'tracing':
                            del out[q:]
                    e2 = nontrivia(toks, e)
                    if e2 < n and toks[e2][1] == ';':
                        e = e2
                    log.append({'rule': 'R1', 'dropped': norm(join(toks[i:e + 1]))[:100]})
                    # a macro that was the whole expression of a match arm (`pat => warn!(..),`) leaves `{}`
                    p2 = len(out) - 1
                    while p2 >= 0 and out[p2][0] in TRIVIA:
                        p2 -= 1
                    if p2 >= 0 and out[p2][1] == '=>' and toks[e][1] != ';':
                        out.append(('x', '{}'))
                    i = e + 1
                    continue
        out.append(toks[i])
        i += 1
    return ''.join(t[1] for t in out)


def rule_R5(body, log):
    """anyhow::ensure!(c, ..) -> if !(c) { return Err(AnyhowError::msg()); } ; anyhow!(..)/bail!"""
    toks = tokenize(body)
    out = []
    i = 0
    n = len(toks)
    while i < n:
        k, t = toks[i][0], toks[i][1]
        if k == 'id' and t in ('ensure', 'anyhow', 'bail', 'format_err'):
            j = nontrivia(toks, i)
            if j < n and toks[j][1] == '!':
                g = nontrivia(toks, j)
                if g < n and toks[g][1] == '(':
                    e = match_close(toks, g)
                    # strip `anyhow::` prefix
                    p = len(out) - 1
                    while p >= 0 and out[p][0] in TRIVIA:
                        p -= 1
                    if p >= 1 and out[p][1] == '::':
                        q = p - 1
                        while q >= 0 and out[q][0] in TRIVIA:
                            q -= 1
                        if q >= 0 and out[q][1] == 'anyhow':
                            del out[q:]
                    if t == 'ensure':
                        # condition = tokens up to first top-level comma
                        c = g + 1
                        depth = 0
                        while c < e:
                            tt = toks[c][1]
                            if toks[c][0] == 'p' and tt in OPEN:
                                c = match_close(toks, c)
                            elif toks[c][0] == 'p' and tt == ',':
                                break
                            c += 1
                        cond = join(toks[g + 1:c]).strip()
                        e2 = nontrivia(toks, e)
                        if e2 < n and toks[e2][1] == ';':
                            e = e2
                        rep = 'if !(%s) { return Err(AnyhowError::msg()); }' % cond
                    elif t == 'bail':
                        e2 = nontrivia(toks, e)
                        if e2 < n and toks[e2][1] == ';':
                            e = e2
                        rep = 'return Err(AnyhowError::msg());'
                    else:
                        rep = 'AnyhowError::msg()'
                    log.append({'rule': 'R5', 'replaced': norm(join(toks[i:e + 1]))[:100], 'with': rep})
                    out.append(('x', rep))
                    i = e + 1
                    continue
        out.append(toks[i])
        i += 1
    return ''.join(t[1] for t in out)


def rule_R4(body, log):
    """`RECV.modify(|tables| BODY)` in tail position -> `{ RECV.modify_begin()?; let tables = RECV.tables_mut(); BODY }`
    (`modify_continue` -> `modify_continue_begin`: the method name is kept, the two shells differ in whether a commit may happen).
    A non-tail call that is a whole statement `RECV.modify(|tables| BODY)?;` becomes
    `{ RECV.modify_begin()?; let tables = RECV.tables_mut(); let __rK: Result<()> = BODY; __rK?; }`: a `?` inside BODY then leaves the
    function instead of the closure, which is what the trailing `?` of the statement did with the closure's error."""
    done = 0
    for _round in range(8):
        toks = tokenize(body)
        n = len(toks)
        assert toks[0][1] == '{'
        end = match_close(toks, 0)
        calls = []
        for i in range(n):
            if toks[i][0] == 'id' and toks[i][1] in ('modify', 'modify_continue'):
                p = nontrivia(toks, i, -1)
                q = nontrivia(toks, i)
                if toks[p][1] == '.' and toks[q][1] == '(':
                    calls.append(i)
        if not calls:
            if done == 0:
                raise Undecided('R4: no .modify( call found')
            return body
        idx = calls[-1]
        meth = toks[idx][1]
        dot = nontrivia(toks, idx, -1)
        par = nontrivia(toks, idx)
        par_close = match_close(toks, par)
        after = nontrivia(toks, par_close)
        tail = (after == end)
        stmt_end = None
        if not tail:
            # statement form: `)?;`
            if toks[after][1] == '?' and toks[nontrivia(toks, after)][1] == ';':
                stmt_end = nontrivia(toks, after)
            else:
                raise Undecided('R4: .modify(..) is neither in tail position nor a `..?;` statement')
        # receiver: tokens back from dot to statement start (previous ';' or '{' or '}' at depth 0)
        r = dot - 1
        depth = 0
        while r > 0:
            k, t = toks[r][0], toks[r][1]
            if k == 'p' and t == '}' and depth == 0:
                break
            if k == 'p' and t in CLOSE:
                depth += 1
            elif k == 'p' and t in OPEN:
                if depth == 0:
                    break
                depth -= 1
            elif k == 'p' and t == ';' and depth == 0:
                break
            r -= 1
        recv = join(toks[r + 1:dot]).strip()
        c = nontrivia(toks, par)
        if toks[c][1] != '|':
            raise Undecided('R4: modify argument is not a closure')
        c2 = c + 1
        while toks[c2][1] != '|':
            c2 += 1
        param = join(toks[c + 1:c2]).strip()
        if not re.match(r'^[a-z_]+$', param):
            raise Undecided('R4: closure parameter is not a plain identifier: %r' % param)
        bb = nontrivia(toks, c2)
        last = nontrivia(toks, par_close, -1)
        if toks[last][1] == ',':
            last = nontrivia(toks, last, -1)
        inner = join(toks[bb:last + 1])
        head = join(toks[:r + 1])
        lead = head[len(head.rstrip()):] if head.rstrip() != head else '\n        '
        if tail:
            body = head.rstrip() + lead + '{ %s.%s_begin()?;\n        let %s = %s.tables_mut();\n        let __r = %s;\n        __r }\n    }' % (recv, meth, param, recv, inner.strip())
            # note: `let __r = { BODY }; __r` keeps BODY's tail expression a tail expression of a block
        else:
            rest = join(toks[stmt_end + 1:])
            body = head.rstrip() + lead + '{ %s.%s_begin()?;\n        let %s = %s.tables_mut();\n        let __r%d: Result<()> = %s;\n        __r%d?; }' % (recv, meth, param, recv, done, inner.strip(), done) + rest
        log.append({'rule': 'R4', 'replaced': '%s.%s(|%s| ..)%s' % (recv, meth, param, '' if tail else '?;'), 'with': '%s.%s_begin()?; let %s = %s.tables_mut(); ..' % (recv, meth, param, recv), 'position': 'tail' if tail else 'statement'})
        done += 1
        # protect the rewritten call from being found again: the method name no longer appears as `.modify(`
    raise Undecided('R4: too many .modify( calls')


LOOP_KW = ('while', 'for', 'loop')


def rule_R10(body, log, lv_types=None):
    """R10 loop-value: a `loop { .. break <expr> .. }` used as an expression becomes
    `{ let __lvN; loop { .. { __lvN = <expr>; break; } .. } __lvN }` (deferred initialisation; rustc's definite-assignment
    analysis accepts it exactly because every exit of the loop is one of those breaks). Verus has no `break <value>`."""
    n_done = 0
    for _round in range(16):
        toks = tokenize(body)
        target = None
        for i in find_loops(toks):
            if toks[i][1] != 'loop':
                continue
            bo = loop_body_open(toks, i)
            bc = match_close(toks, bo)
            # own-level breaks with a value
            brs = []
            j = bo + 1
            while j < bc:
                k, t = toks[j][0], toks[j][1]
                if k == 'id' and t in LOOP_KW:
                    nj = nontrivia(toks, j)
                    if not (t == 'for' and toks[nj][1] == '<'):
                        j = match_close(toks, loop_body_open(toks, j)) + 1
                        continue
                if k == 'p' and t == '|' :
                    # closures cannot break an outer loop; skip their bodies
                    cl = [c for c in find_closures(toks) if c[0] == j]
                    if cl:
                        s_, e_ = closure_body_span(toks, cl[0][1])
                        j = e_ + 1
                        continue
                if k == 'id' and t == 'break':
                    nj = nontrivia(toks, j)
                    if toks[nj][0] == 'lifetime' or toks[nj][1].startswith("'"):
                        raise Undecided('R10: labelled break')
                    if not (toks[nj][0] == 'p' and toks[nj][1] in (';', '}', ',')):
                        # expression extends to the next top-level ; , or the closing brace of the enclosing block
                        e = nj
                        while e < bc:
                            kk, tt = toks[e][0], toks[e][1]
                            if kk == 'p' and tt in OPEN:
                                e = match_close(toks, e) + 1
                                continue
                            if kk == 'p' and tt in (';', ',', '}', ')', ']'):
                                break
                            e += 1
                        brs.append((j, nj, nontrivia(toks, e, -1)))
                        j = e
                        continue
                j += 1
            if brs:
                target = (i, bo, bc, brs)
                break
        if target is None:
            break
        i, bo, bc, brs = target
        var = '__lv%d' % n_done
        ann = (': ' + lv_types[n_done]) if (lv_types and n_done in lv_types) else ''
        edits = [(toks[i][2], toks[i][2], '{ let %s%s; ' % (var, ann)), (toks[bc][3], toks[bc][3], ' %s }' % var)]
        for (jb, e0, e1) in brs:
            edits.append((toks[jb][2], toks[e1][3], '{ %s = %s; break; }' % (var, body[toks[e0][2]:toks[e1][3]])))
        for s0, e0_, rep in sorted(edits, key=lambda x: x[0], reverse=True):
            body = body[:s0] + rep + body[e0_:]
        log.append({'rule': 'R10', 'loop_with_break_values': len(brs), 'result_variable': var,
                    'note': '`loop { .. break V .. }` -> `{ let %s; loop { .. { %s = V; break; } .. } %s }`' % (var, var, var)})
        n_done += 1
    return body


def rule_R11(body, log):
    """R11 closure-tuple-params: a closure parameter that is a tuple pattern, `|(a, b), v| BODY`, becomes
    `|__cpK, v| { let (a, b) = __cpK; BODY }` (the language definition of an irrefutable parameter pattern)."""
    n_done = 0
    for _round in range(32):
        toks = tokenize(body)
        hit = None
        for (b0, b1) in find_closures(toks):
            if b1 == b0 + 1:
                continue
            ptxt = body[toks[b0][3]:toks[b1][2]]
            params = split_params(ptxt)
            if any(p_.strip().startswith('(') or re.match(r'^_\s*(:|$)', p_.strip()) for p_ in params):
                hit = (b0, b1, params)
                break
        if hit is None:
            break
        b0, b1, params = hit
        lets, newp = [], []
        for k_, p_ in enumerate(params):
            ps = p_.strip()
            if re.match(r'^_\s*(:|$)', ps):
                # wildcard parameter: Verus rejects `_` as a closure parameter; an unused named parameter is the same closure
                newp.append('__cp%d_%d' % (n_done, k_) + ps[1:])
            elif ps.startswith('('):
                # pattern (optionally `: type`)
                ptoks = tokenize(ps)
                c_ = match_close(ptoks, 0)
                pat = ps[:ptoks[c_][3]]
                rest = ps[ptoks[c_][3]:]
                nm = '__cp%d_%d' % (n_done, k_)
                lets.append('let %s = %s;' % (pat, nm))
                newp.append(nm + rest)
            else:
                newp.append(ps)
        s_, e_ = closure_body_span(toks, b1)
        edits = [(toks[b0][3], toks[b1][2], ', '.join(newp))]
        if toks[s_][1] == '{':
            edits.append((toks[s_][3], toks[s_][3], ' ' + ' '.join(lets)))
        else:
            edits.append((toks[s_][2], toks[s_][2], '{ ' + ' '.join(lets) + ' '))
            edits.append((toks[e_][3], toks[e_][3], ' }'))
        for s0, e0_, rep in sorted(edits, key=lambda x: x[0], reverse=True):
            body = body[:s0] + rep + body[e0_:]
        log.append({'rule': 'R11', 'closure_header': ptxt.strip(), 'rewritten_header': ', '.join(newp), 'prepended': ' '.join(lets)})
        n_done += 1
    return body


def find_loops(toks):
    """indexes of loop keyword tokens in source order"""
    res = []
    for i, (k, t, _, _) in enumerate(toks):
        if k == 'id' and t in LOOP_KW:
            j = nontrivia(toks, i)
            if t == 'for' and j < len(toks) and toks[j][1] == '<':
                continue
            res.append(i)
    return res


def loop_body_open(toks, i):
    j = i + 1
    while j < len(toks):
        k, t = toks[j][0], toks[j][1]
        if k == 'p' and t in ('(', '['):
            j = match_close(toks, j) + 1
            continue
        if k == 'p' and t == '{':
            return j
        j += 1
    raise Undecided('loop body not found')


def find_closures(toks, include_async=False):
    """-> list of (start_tok_of_first_bar, tok_of_closing_bar). heuristic on the preceding token.
    `async |..|` closures are only listed with include_async (used by `lift-closure .. as async name(..)`)."""
    res = []
    i = 0
    n = len(toks)
    while i < n:
        k, t = toks[i][0], toks[i][1]
        if k == 'p' and t == '|':
            p = nontrivia(toks, i, -1)
            pt = toks[p][1] if p >= 0 else '{'
            if pt in ('(', ',', '=', '{', ';', 'move', 'return', '=>', '}') or (include_async and pt == 'async'):
                # closure start
                j = i + 1
                if toks[j][1] == '|':
                    res.append((i, j))
                    i = j + 1
                    continue
                depth = 0
                while j < n:
                    kk, tt = toks[j][0], toks[j][1]
                    if kk == 'p' and tt in OPEN:
                        j = match_close(toks, j)
                    elif kk == 'p' and tt == '|':
                        break
                    j += 1
                res.append((i, j))
                i = j + 1
                continue
        i += 1
    return res


def closure_body_span(toks, bar_close):
    """-> (first_tok, last_tok) of the closure body expression"""
    b = nontrivia(toks, bar_close)
    if toks[b][1] == '->':
        raise Undecided('closure already has a return type')
    if toks[b][1] == '{':
        return b, match_close(toks, b)
    j = b
    n = len(toks)
    while j < n:
        k, t = toks[j][0], toks[j][1]
        if k == 'p' and t in OPEN:
            j = match_close(toks, j) + 1
            continue
        if k == 'p' and t in (',', ')', ';', '}', ']'):
            break
        j += 1
    return b, nontrivia(toks, j, -1)


def name_return(header, name, log):
    toks = tokenize(header)
    # find params paren: first '(' after fn name (skip generics)
    i = 0
    n = len(toks)
    while i < n and not (toks[i][0] == 'id' and toks[i][1] == 'fn'):
        i += 1
    j = nontrivia(toks, i)      # fn name
    j = nontrivia(toks, j)
    if j < n and toks[j][1] == '<':
        depth = 0
        while j < n:
            if toks[j][0] == 'p' and toks[j][1] == '<':
                depth += 1
            elif toks[j][0] == 'p' and toks[j][1] == '>':
                depth -= 1
                if depth == 0:
                    break
            j += 1
        j = nontrivia(toks, j)
    while j < n and toks[j][1] != '(':
        j += 1
    pc = match_close(toks, j)
    a = nontrivia(toks, pc)
    if a >= n or toks[a][1] != '->':
        raise Undecided('ret: function has no return type')
    s = nontrivia(toks, a)
    e = s
    depth = 0
    while e < n:
        k, t = toks[e][0], toks[e][1]
        if k == 'p' and t in ('(', '['):
            e = match_close(toks, e) + 1
            continue
        if k == 'id' and t == 'where':
            break
        e += 1
    last = nontrivia(toks, e, -1)
    ty = join(toks[s:last + 1])
    new = join(toks[:s]) + '(%s: %s)' % (name, ty) + join(toks[last + 1:])
    return new


def apply_literal(text, old, new, what, log, rule, count=1):
    if old not in text:
        raise Undecided('%s: literal not found: %r' % (what, old))
    if text.count(old) > 1 and count == 1:
        raise Undecided('%s: literal ambiguous (%d occurrences): %r' % (what, text.count(old), old))
    log.append({'rule': rule, 'replaced': old, 'with': new, 'n': text.count(old)})
    return text.replace(old, new)


def letty_replace(body, old, new, log):
    """replace inside `let PAT: TYPE =` annotations only"""
    toks = tokenize(body)
    out = []
    i = 0
    n = len(toks)
    hit = 0
    while i < n:
        k, t = toks[i][0], toks[i][1]
        out.append(t)
        if k == 'id' and t == 'let':
            # scan to ':' at depth 0 before '=' or ';'
            j = i + 1
            colon = None
            while j < n:
                kk, tt = toks[j][0], toks[j][1]
                if kk == 'p' and tt in OPEN:
                    j = match_close(toks, j) + 1
                    continue
                if kk == 'p' and tt == ':' :
                    colon = j
                    break
                if kk == 'p' and tt in ('=', ';'):
                    break
                j += 1
            if colon is not None:
                e = colon + 1
                while e < n:
                    kk, tt = toks[e][0], toks[e][1]
                    if kk == 'p' and tt in ('(', '['):
                        e = match_close(toks, e) + 1
                        continue
                    if kk == 'p' and tt in ('=', ';'):
                        break
                    e += 1
                ann = join(toks[colon + 1:e])
                if old in ann:
                    hit += 1
                    ann = ann.replace(old, new)
                out.append(join(toks[i + 1:colon + 1]))
                out.append(ann)
                i = e
                continue
        i += 1
    if not hit:
        raise Undecided('letty: literal not found in any let annotation: %r' % old)
    log.append({'rule': 'R3', 'where': 'let-annotation', 'replaced': old, 'with': new, 'n': hit})
    return ''.join(out)


# ---------------------------------------------------------------------------------------------
# template processing


class Extract:
    def __init__(self, file, path):
        self.file = file
        self.path = path
        self.rules = {'R1', 'R2', 'R9'}
        self.ret = None
        self.rename = None
        self.sig = []
        self.letty = []
        self.maps = []
        self.maps_each = []
        self.maps_re = []
        self.lift_anchor = None
        self.lift_anchor_nth = None
        self.contract = []
        self.loops = {}
        self.loop_iter = {}
        self.before = []
        self.after = []
        self.closures = {}
        self.closure_expect = {}
        self.loop_expect = {}
        self.lift = None
        self.lift_async = None
        self.lift_stmt = None
        self.lv_types = {}
        self.lift_block = None
        self.lift_stmt_sig = None
        self.lift_stmt_tail = None
        self.lift_stmt_until = None
        self.lift_stmt_nth = None
        self.lifted_contract = []
        self.novac = False
        self.derive = None
        self.attrs = []


def parse_template(path):
    """-> list of chunks: ('text', str) | ('extract', Extract)"""
    chunks = []
    cur = None
    target = None
    with open(path) as f:
        lines = f.read().split('\n')
    i = 0
    stack = [(path, lines, 0)]
    out_lines = []

    def flush():
        if out_lines:
            chunks.append(('text', '\n'.join(out_lines) + '\n'))
            del out_lines[:]

    def process(lines, origin):
        nonlocal cur, target
        for ln in lines:
            s = ln.strip()
            if not s.startswith('//@'):
                if cur is not None:
                    if s == '' or s.startswith('//'):
                        continue
                    raise Undecided('%s: non-directive line inside extract block: %r' % (origin, ln))
                out_lines.append(ln)
                continue
            d = s[3:]
            if d.startswith('|'):
                if target is None:
                    raise Undecided('%s: continuation line without target: %r' % (origin, ln))
                target.append(d[1:])
                continue
            d = d.strip()
            if d.startswith('include '):
                inc = os.path.join(VXDIR, d[len('include '):].strip())
                with open(inc) as f2:
                    process(f2.read().split('\n'), inc)
                continue
            if d.startswith('shellcheck '):
                # //@shellcheck <file under vx/> :: <item path>   - see render_shellcheck
                if cur is not None:
                    raise Undecided('%s: shellcheck inside extract block' % origin)
                flush()
                parts = [p_.strip() for p_ in d[len('shellcheck '):].split(' :: ')]
                sc_ = {'file': parts[0], 'path': parts[1:], 'proof': []}
                chunks.append(('shellcheck', sc_))
                target = sc_['proof']   # optional `//@|` lines: proof hints placed after the call (lemma invocations only)
                continue
            if d.startswith('extract '):
                flush()
                spec = d[len('extract '):]
                parts = [p.strip() for p in spec.split(' :: ')]
                cur = Extract(parts[0], parts[1:])
                target = None
                continue
            if cur is None:
                raise Undecided('%s: directive outside extract block: %r' % (origin, ln))
            if d == 'end':
                chunks.append(('extract', cur))
                cur = None
                target = None
                continue
            key, _, val = d.partition(':')
            key = key.strip()
            val = val.strip()
            if key == 'rules':
                for r in val.split():
                    if r.startswith('-'):
                        cur.rules.discard(r[1:])
                    else:
                        cur.rules.add(r)
            elif key == 'ret':
                cur.ret = val
            elif key == 'rename':
                cur.rename = val
            elif key == 'sig':
                a, b = val.split(' => ')
                cur.sig.append((a.strip(), b.strip()))
            elif key == 'letty':
                a, b = val.split(' => ')
                cur.letty.append((a.strip(), b.strip()))
            elif key == 'map':
                body, _, why = val.partition(' ## ')
                a, b = body.split(' => ')
                if not why.strip():
                    raise Undecided('%s: map without reason: %r' % (origin, ln))
                cur.maps.append((a.strip(), b.strip(), why.strip()))
            elif key == 'map-each':
                body, _, why = val.partition(' ## ')
                a, b = body.split(' => ')
                if not why.strip():
                    raise Undecided('%s: map-each without reason: %r' % (origin, ln))
                cur.maps_each.append((a.strip(), b.strip(), why.strip()))
            elif key == 'map-re':
                # R8c with a regular expression: every match (possibly none) is rewritten alike
                body, _, why = val.partition(' ## ')
                a, b = body.split(' => ')
                if not why.strip():
                    raise Undecided('%s: map-re without reason: %r' % (origin, ln))
                cur.maps_re.append((a.strip(), b.strip(), why.strip()))
            elif key == 'contract':
                target = cur.contract
            elif key.startswith('loop-expect '):
                cur.loop_expect[int(key[len('loop-expect '):])] = val.strip()
            elif key.startswith('loop '):
                rest = key[len('loop '):].strip()
                if rest.endswith(' iter'):
                    cur.loop_iter[int(rest[:-5])] = val
                else:
                    cur.loops[int(rest)] = []
                    target = cur.loops[int(rest)]
            elif key.startswith('before ') or key.startswith('before['):
                m_ = re.match(r'before(?:\[(\d+)\])? (.*):$', d)
                assert m_, d
                cur.before.append(((m_.group(2).strip(), int(m_.group(1) or 1)), []))
                target = cur.before[-1][1]
            elif key.startswith('after ') or key.startswith('after['):
                m_ = re.match(r'after(?:\[(\d+)\])? (.*):$', d)
                assert m_, d
                cur.after.append(((m_.group(2).strip(), int(m_.group(1) or 1)), []))
                target = cur.after[-1][1]
            elif key.startswith('closure-expect '):
                cur.closure_expect[int(key[len('closure-expect '):])] = norm(val)
            elif key.startswith('closure '):
                kidx = int(key[len('closure '):])
                cur.closures[kidx] = (val, [])
                target = cur.closures[kidx][1]
            elif key.startswith('lift-closure '):
                m = re.match(r'lift-closure (\d+) as (.*)$', d)
                cur.lift = (int(m.group(1)), m.group(2))
            elif re.match(r'lift-anchor\[\d+\]$', key):
                # k-th occurrence of the literal (for literals that are not unique in the function)
                cur.lift_anchor = val
                cur.lift_anchor_nth = int(key[len('lift-anchor['):-1])
            elif key == 'lift-anchor':
                # the lifted closure is the one whose argument position follows this literal (e.g. the match arm it belongs to);
                # overrides the ordinal of lift-closure when closures are inserted or removed before it
                cur.lift_anchor = val
            elif key.startswith('lift-block as '):
                # R6d: the first `async [move] { .. }` block after the lift-anchor literal becomes an `async fn` of its own
                cur.lift_block = d[len('lift-block as '):].strip()
            elif key.startswith('lift-async '):
                m = re.match(r'lift-async (\d+) as (.*)$', d)
                cur.lift_async = (int(m.group(1)), m.group(2))
            elif key.startswith('lv-type '):
                # type annotation for the result variable __lvK introduced by R10 (needed when a loop `ensures` names it before inference)
                cur.lv_types[int(key[len('lv-type '):])] = val
            elif re.match(r'lift-stmt\[\d+\]$', key):
                cur.lift_stmt = val
                cur.lift_stmt_nth = int(key[len('lift-stmt['):-1])
            elif key == 'lift-stmt':
                # R6c: the block statement (for/while/loop/if .. { }) that starts at the unique occurrence of this literal
                cur.lift_stmt = val
            elif key == 'lift-stmt-as':
                cur.lift_stmt_sig = val
            elif key == 'lift-stmt-tail':
                cur.lift_stmt_tail = val
            elif key == 'lift-stmt-until':
                # the lifted text is the statement SEQUENCE from the lift-stmt literal up to (not including) this literal
                cur.lift_stmt_until = val
            elif key == 'lifted-contract':
                cur.lifted_contract = []
                target = cur.lifted_contract
            elif key == 'novac':
                cur.novac = True
            elif key == 'derive':
                cur.derive = val.split()
            elif key == 'attr':
                if not val.startswith('#[verifier::'):
                    raise Undecided('%s: attr must be a #[verifier::..] attribute: %r' % (origin, ln))
                cur.attrs.append(val)
            else:
                raise Undecided('%s: unknown directive %r' % (origin, ln))

    process(lines, path)
    flush()
    if cur is not None:
        raise Undecided('%s: unterminated extract block' % path)
    return chunks


def render_extract(ex, vac=False, strip_proof=False):
    """-> (text, log, meta). strip_proof: emit without loop/before/after splices (used when one of them lost its anchor)"""
    if strip_proof:
        import copy
        ex = copy.copy(ex)
        ex.loops, ex.loop_iter, ex.before, ex.after = {}, {}, [], []
        ex.attrs = list(ex.attrs) + ['#[verifier::exec_allows_no_decreases_clause]']
    log = []
    src_path = os.path.join(REPO, ex.file)
    try:
        with open(src_path) as f:
            src = f.read()
    except OSError as e:
        raise Undecided('cannot read %s: %s' % (src_path, e))
    try:
        item, toks = find_path(src, ex.path)
    except (AnchorError, LexError) as e:
        raise Undecided('%s: %s' % (ex.file, e))
    text = src[item.start:item.end]
    line0 = src.count('\n', 0, item.start) + 1
    sha = hashlib.sha256(text.encode()).hexdigest()
    meta = {'file': ex.file, 'path': ' :: '.join(ex.path), 'line': line0, 'sha256': sha[:16], 'kind': item.kind}
    prefix, header, body = split_item(text)
    if 'R2' in ex.rules:
        prefix = rule_R2(prefix, log, keep_names=ex.derive)
    if item.kind in ('struct', 'enum'):
        whole = header + (body or '')
        if 'R2' in ex.rules:
            whole = rule_R2_inner(whole, log)
        if 'R9' in ex.rules:
            whole = rule_R9(whole, log)
        for a, b in ex.sig:
            whole = apply_literal(whole, a, b, 'sig', log, 'R3', count=0)
        meta['log'] = log
        meta['name'] = item.name
        return prefix + whole + '\n', log, meta
    if item.kind not in ('fn',):
        meta['log'] = log
        meta['name'] = item.name
        whole = header + (body or '')
        if 'R9' in ex.rules:
            whole = rule_R9(whole, log)
        return prefix + whole + '\n', log, meta
    if body is None:
        raise Undecided('%s: function without body' % ex.path)
    if 'R9' in ex.rules:
        header = rule_R9(header, log)
    for a, b in ex.sig:
        header = apply_literal(header, a, b, 'sig', log, 'R3', count=0)
    name = item.name
    if ex.rename or vac:
        newname = (ex.rename or name) + ('__vac' if vac else '')
        header, nsub = re.subn(r'\bfn\s+%s\b' % re.escape(name), 'fn ' + newname, header, count=1)
        assert nsub == 1
        if ex.rename:
            log.append({'rule': 'R7', 'rename': '%s -> %s' % (name, ex.rename)})
    if ex.ret:
        header = name_return(header, ex.ret, log)
    # body rules
    if 'R1' in ex.rules:
        body = rule_R1(body, log)
    if 'R5' in ex.rules:
        body = rule_R5(body, log)
    if 'R4' in ex.rules:
        body = rule_R4(body, log)
    if 'R11' in ex.rules:
        body = rule_R11(body, log)
    if 'R10' in ex.rules:
        body = rule_R10(body, log, getattr(ex, 'lv_types', None))
    if len(ex.maps) > 3:
        raise Undecided('R8: more than three expression maps requested')
    for a, b, why in ex.maps:
        body = apply_literal(body, a, b, 'map', log, 'R8')
    if len(ex.maps_each) > 1:
        raise Undecided('R8c: more than one map-each requested')
    for a, b, why in ex.maps_each:
        # R8c: every occurrence (possibly none) of an effect the verifier cannot express is rewritten the same way
        log.append({'rule': 'R8c', 'replaced': a, 'with': b, 'n': body.count(a), 'why': why})
        body = body.replace(a, b)
        log[-1]['reason'] = why
    if len(ex.maps_re) > 1:
        raise Undecided('R8c: more than one map-re requested')
    for a, b, why in ex.maps_re:
        body, n_ = re.subn(a, b, body)
        log.append({'rule': 'R8c', 'replaced_regex': a, 'with': b, 'n': n_, 'why': why, 'reason': why})
    for a, b in ex.letty:
        body = letty_replace(body, a, b, log)
    lifted_fn_text = ''
    if ex.lift is not None:
        # R6a: lambda-lift closure k: the item emitted is `fn NAME(PARAMS) -> RET { closure body }` instead of the
        # enclosing function (which is out of reach); captured variables become the extra parameters listed
        kidx, sig = ex.lift
        lift_is_async = sig.lstrip().startswith('async ')
        if lift_is_async:
            sig = sig.lstrip()[len('async '):]
        toks = tokenize(body)
        cl = find_closures(toks, include_async=lift_is_async)
        anchor = getattr(ex, 'lift_anchor', None)
        if anchor:
            # first closure that starts after the (unique) anchor literal
            src_ = join(toks)
            nth_ = getattr(ex, 'lift_anchor_nth', None)
            if nth_ is None and src_.count(anchor) != 1:
                raise Undecided('lift-anchor: literal %r occurs %d times' % (anchor, src_.count(anchor)))
            if nth_ is not None and src_.count(anchor) < nth_:
                raise Undecided('lift-anchor[%d]: literal %r occurs %d times' % (nth_, anchor, src_.count(anchor)))
            apos = -1
            for _k in range(nth_ or 1):
                apos = src_.index(anchor, apos + 1)
            off = 0
            starts = []
            for t_ in toks:
                starts.append(off)
                off += len(t_[1])
            cands = [i_ for i_, (b0_, b1_) in enumerate(cl) if starts[b0_] >= apos]
            if not cands:
                raise Undecided('lift-anchor: no closure after %r' % anchor)
            kidx = cands[0] + 1
        if kidx < 1 or kidx > len(cl):
            raise Undecided('lift-closure: closure %d not found (%d closures)' % (kidx, len(cl)))
        b0, b1 = cl[kidx - 1]
        s_, e_ = closure_body_span(toks, b1)
        inner = join(toks[s_:e_ + 1])
        if toks[s_][1] != '{':
            inner = '{ ' + inner + ' }'
        log.append({'rule': 'R6', 'lifted_closure': kidx, 'of': name, 'closure_header': join(toks[b0:b1 + 1]), 'as': sig})
        # the first parameters of the lifted signature stand for the closure's own parameters: if those were renamed in the
        # source (plain identifiers, same number), the signature and the contract are renamed accordingly
        hdr_params = [re.sub(r'^mut\s+', '', x.split(':')[0].strip()) for x in split_params(join(toks[b0 + 1:b1]))]
        po_ = sig.index('(')
        sig_params = split_params(sig[po_ + 1:sig.rindex(')', 0, (sig.index('->') if '->' in sig else len(sig)))])
        sig_names = [re.sub(r'^mut\s+', '', x.split(':')[0].strip()) for x in sig_params][:len(hdr_params)]
        if len(sig_names) == len(hdr_params) and all(re.match(r'^[A-Za-z_][A-Za-z0-9_]*$', x) for x in hdr_params + sig_names):
            ren = [(a_, b_) for a_, b_ in zip(sig_names, hdr_params) if a_ != b_ and b_ != '_' and not b_.startswith('__cp')]
            if ren:
                import copy as _copy
                ex = _copy.copy(ex)
                def _rn(t_):
                    for a_, b_ in ren:
                        t_ = re.sub(r'\b%s\b' % re.escape(a_), b_, t_)
                    return t_
                sig = _rn(sig)
                ex.contract = [_rn(l_) for l_ in ex.contract]
                # (splices inside the body keep their names: they may refer to inner bindings that shadow the parameter)
                log.append({'rule': 'R7', 'note': 'closure parameters renamed in the source; lifted signature and contract renamed accordingly', 'renamed': ren})
        m_ = re.match(r'\s*([A-Za-z_][A-Za-z0-9_]*)', sig)
        name = m_.group(1)
        header = ('async fn ' if lift_is_async else 'fn ') + sig + ('__vac' if False else '')
        if vac:
            header = ('async fn ' if lift_is_async else 'fn ') + sig.replace(name, name + '__vac', 1)
        body = inner
        ex = __import__('copy').copy(ex)
        ex.ret = None
        ex.rename = None
    if ex.lift_block is not None:
        # R6d: an inline `async [move] { .. }` block of an out-of-reach function (located by the lift-anchor literal: the first such
        # block after it) is emitted as an `async fn` whose body is the block; the variables it uses become the listed parameters.
        # A `?` inside an async block leaves the block with that error, hence the lifted fn.
        sig = ex.lift_block
        blk_async = sig.startswith('async ')
        if blk_async:
            sig = sig[len('async '):]
        anchor = getattr(ex, 'lift_anchor', None)
        if not anchor or body.count(anchor) != 1:
            raise Undecided('lift-block: lift-anchor literal %r occurs %d times' % (anchor, body.count(anchor) if anchor else 0))
        apos = body.index(anchor)
        toks = tokenize(body)
        blk = None
        for i_, (k_, t_, s0_, _) in enumerate(toks):
            if blk_async and s0_ >= apos and k_ == 'id' and t_ == 'async':
                j_ = nontrivia(toks, i_)
                if j_ < len(toks) and toks[j_][1] == 'move':
                    j_ = nontrivia(toks, j_)
                if j_ < len(toks) and toks[j_][1] == '{':
                    blk = (j_, match_close(toks, j_))
                    break
            if not blk_async and s0_ >= apos + len(anchor):
                # plain form: the anchor literal ends right in front of the block (e.g. a match arm `PATTERN =>`), which is taken as the body of a plain fn
                if k_ in TRIVIA:
                    continue
                if t_ == '{':
                    blk = (i_, match_close(toks, i_))
                break
        if blk is None:
            raise Undecided('lift-block: no %sblock after %r' % ('async ' if blk_async else '', anchor))
        inner = body[toks[blk[0]][2]:toks[blk[1]][3]]
        m_ = re.match(r'\s*([A-Za-z_][A-Za-z0-9_]*)', sig)
        log.append({'rule': 'R6d', 'lifted_async_block_after': anchor, 'of': name, 'as': ex.lift_block,
                    'block_sha256': hashlib.sha256(inner.encode()).hexdigest()[:16],
                    'note': 'the rest of the enclosing function is not part of the verified text'})
        name = m_.group(1)
        header = ('async fn ' if blk_async else 'fn ') + (sig.replace(name, name + '__vac', 1) if vac else sig)
        body = inner
        ex = __import__('copy').copy(ex)
        ex.ret = None
        ex.rename = None
    if ex.lift_stmt is not None:
        # R6c: lift one block statement of an out-of-reach function into a fn of its own: the statement text is taken
        # verbatim from the unique occurrence of the literal up to the brace closing its (last) block; the variables it
        # uses become the parameters listed in lift-stmt-as; `lift-stmt-tail` is the value the lifted fn returns when the
        # statement completes normally (a `?` / `return` inside it leaves the enclosing function, hence the lifted one)
        if not ex.lift_stmt_sig:
            raise Undecided('lift-stmt without lift-stmt-as')
        lit = ex.lift_stmt
        nth_ = getattr(ex, 'lift_stmt_nth', None)
        if nth_ is None and body.count(lit) != 1:
            raise Undecided('lift-stmt: literal %r occurs %d times' % (lit, body.count(lit)))
        if nth_ is not None and body.count(lit) < nth_:
            raise Undecided('lift-stmt[%d]: literal %r occurs %d times' % (nth_, lit, body.count(lit)))
        p0 = -1
        for _k in range(nth_ or 1):
            p0 = body.index(lit, p0 + 1)
        toks = tokenize(body)
        i0 = None
        for i_, t_ in enumerate(toks):
            if t_[2] == p0:
                i0 = i_
                break
        if i0 is None:
            raise Undecided('lift-stmt: literal does not start at a token')
        kw = toks[i0][1]
        if kw not in ('for', 'while', 'loop', 'if'):
            # `let` statement or expression statement: ends at the first `;` outside brackets
            kw = 'let'
        j_ = i0 + 1
        end = None
        while kw == 'let' and j_ < len(toks):
            # a `let` statement ends at the first `;` outside brackets
            t_ = toks[j_]
            if t_[0] == 'p' and t_[1] in OPEN:
                j_ = match_close(toks, j_) + 1
                continue
            if t_[0] == 'p' and t_[1] == ';':
                end = j_
                break
            j_ += 1
        while kw != 'let' and j_ < len(toks):
            t_ = toks[j_]
            if t_[0] == 'p' and t_[1] in ('(', '['):
                j_ = match_close(toks, j_) + 1
                continue
            if t_[0] == 'p' and t_[1] == '{':
                c_ = match_close(toks, j_)
                end = c_
                # `if .. {} else {}` / `else if`: continue over else branches
                n_ = nontrivia(toks, c_)
                if kw == 'if' and n_ < len(toks) and toks[n_][1] == 'else':
                    j_ = n_ + 1
                    continue
                break
            j_ += 1
        if end is None:
            raise Undecided('lift-stmt: no block found after the literal')
        stmt = body[toks[i0][2]:toks[end][3]]
        if ex.lift_stmt_until == '<end of function>':
            # the statement sequence up to the closing brace of the function body
            stmt = body[toks[i0][2]:body.rindex('}')].rstrip()
        elif ex.lift_stmt_until:
            q0 = body.find(ex.lift_stmt_until, toks[i0][2])
            if q0 < 0 or body.count(ex.lift_stmt_until, toks[i0][2]) != 1:
                raise Undecided('lift-stmt-until: literal %r not found exactly once after the statement' % ex.lift_stmt_until)
            stmt = body[toks[i0][2]:q0].rstrip()
        sig = ex.lift_stmt_sig
        stmt_is_async = sig.lstrip().startswith('async ')
        if stmt_is_async:
            sig = sig.lstrip()[len('async '):]
        m_ = re.match(r'\s*([A-Za-z_][A-Za-z0-9_]*)', sig)
        log.append({'rule': 'R6c', 'lifted_statement': lit, 'of': name, 'as': ex.lift_stmt_sig, 'tail': ex.lift_stmt_tail,
                    'statement_sha256': hashlib.sha256(stmt.encode()).hexdigest()[:16],
                    'note': 'the rest of the enclosing function is not part of the verified text'})
        name = m_.group(1)
        header = ('async fn ' if stmt_is_async else 'fn ') + (sig.replace(name, name + '__vac', 1) if vac else sig)
        body = '{\n        ' + stmt + '\n        ' + (ex.lift_stmt_tail or '') + '\n    }'
        ex = __import__('copy').copy(ex)
        ex.ret = None
        ex.rename = None
    if 'R12' in ex.rules:
        # R12 mut-self: `fn f(mut self, ..) { BODY }` -> `fn f(self, ..) { let mut __self = self; BODY[self := __self] }`
        # (Verus does not support a `mut self` parameter; rebinding a by-value parameter mutably is the same function)
        header, n_ = re.subn(r'\(\s*mut\s+self\b', '(self', header, count=1)
        toks_ = tokenize(body) if n_ == 1 else []
        if n_ == 1:
            body = ''.join(('__self' if (k_ == 'id' and t_ == 'self') else t_) for (k_, t_, _, _) in toks_)
            bo_ = body.index('{')
            body = body[:bo_ + 1] + ' let mut __self = self;' + body[bo_ + 1:]
            log.append({'rule': 'R12', 'note': '`mut self` parameter rebound as `let mut __self = self;`, `self` renamed to `__self` in the body'})
        # (a function that no longer has a `mut self` parameter is taken as it is)
    if ex.lift_async is not None:
        # R6b: lift the k-th `async move { .. }` block into an `async fn NAME(PARAMS) -> RET { .. }`; the block is
        # replaced by a call `NAME(args)` (creating the same future: the captured variables are moved into it)
        kidx, sig = ex.lift_async
        toks = tokenize(body)
        blocks = []
        for i_, (k_, t_, _, _) in enumerate(toks):
            if k_ == 'id' and t_ == 'async':
                j_ = nontrivia(toks, i_)
                if j_ < len(toks) and toks[j_][1] == 'move':
                    j_ = nontrivia(toks, j_)
                if j_ < len(toks) and toks[j_][1] == '{':
                    blocks.append((i_, j_, match_close(toks, j_)))
        if kidx < 1 or kidx > len(blocks):
            raise Undecided('lift-async: async block %d not found (%d blocks)' % (kidx, len(blocks)))
        a0, bo, bc = blocks[kidx - 1]
        stoks = tokenize(sig)
        si = 0
        while stoks[si][0] in TRIVIA:
            si += 1
        lname = stoks[si][1]
        sp = si + 1
        while stoks[sp][1] != '(':
            sp += 1
        spc = match_close(stoks, sp)
        params = join(stoks[sp + 1:spc])
        ret = join(stoks[spc + 1:]).strip()
        args = []
        depth = 0
        cur_ = ''
        for ch in params:
            if ch in '(<[':
                depth += 1
            elif ch in ')>]':
                depth -= 1
            if ch == ',' and depth == 0:
                args.append(cur_)
                cur_ = ''
            else:
                cur_ += ch
        if cur_.strip():
            args.append(cur_)
        argnames = [a.split(':')[0].strip() for a in args]
        is_method = re.search(r'\(\s*&?\s*(mut\s+)?self\b', header) is not None
        call = ('Self::' if is_method else '') + lname + ('__vac' if vac else '') + '(' + ', '.join(argnames) + ')'
        block_text = join(toks[bo:bc + 1])
        lc = ('\n' + '\n'.join(ex.lifted_contract) + '\n    ') if ex.lifted_contract else ' '
        lifted_fn_text = '\n    #[verifier::exec_allows_no_decreases_clause]\n    async fn %s%s(%s) %s%s%s\n' % (lname, '__vac' if vac else '', params, ret, lc, block_text)
        body = body[:toks[a0][2]] + call + body[toks[bc][3]:]
        log.append({'rule': 'R6', 'lifted_async_block': kidx, 'of': name, 'as': sig, 'replaced_by_call': call})
    # all splices are anchored in the same text (the body after the R-rules) and applied back to front
    degraded = []
    edits = []   # (start, end, replacement)
    toks = tokenize(body)
    meta['n_loops'] = len(find_loops(toks))
    meta['n_closures'] = len(find_closures(toks, include_async=True))
    if ex.closures:
        cl = find_closures(toks)
        headers = [norm(join(toks[b0:b1 + 1])) for (b0, b1) in cl]
        # which closure(s) does each directive annotate? By ordinal, unless the directive records the header it
        # expects (closure-expect): then the closure is re-aligned when a change inserted or removed closures.
        assign = {}     # closure index (0-based) -> (hdr, lines, kidx)
        groups = {}
        for kidx, (hdr, lines) in ex.closures.items():
            exp = ex.closure_expect.get(kidx)
            groups.setdefault(exp, []).append(kidx)
        for exp, ks in groups.items():
            if exp is None:
                for kidx in ks:
                    if kidx < 1 or kidx > len(cl):
                        degraded.append('closure %d not found (%d closures)' % (kidx, len(cl)))
                    else:
                        assign[kidx - 1] = ex.closures[kidx] + (kidx,)
                continue
            cands = [i for i, h in enumerate(headers) if h == exp]
            if not cands:
                # the closure parameters may have been renamed: fall back to the ordinal closure if it has the same
                # number of plain-identifier parameters, and rename the parameters in the annotation accordingly
                exp_params = [x.strip() for x in exp.strip('|').split(',') if x.strip()]
                ok_all = True
                renamed = {}
                for kidx in ks:
                    if not (1 <= kidx <= len(cl)):
                        ok_all = False
                        break
                    new_params = [x.strip() for x in headers[kidx - 1].strip('|').split(',') if x.strip()]
                    if len(new_params) != len(exp_params) or not all(re.match(r'^[A-Za-z_][A-Za-z0-9_]*$', x) for x in new_params + exp_params):
                        ok_all = False
                        break
                    hdr, lines = ex.closures[kidx]
                    for a_, b_ in zip(exp_params, new_params):
                        if a_ != b_:
                            hdr = re.sub(r'\b%s\b' % re.escape(a_), b_, hdr)
                            lines = [re.sub(r'\b%s\b' % re.escape(a_), b_, l) for l in lines]
                    renamed[kidx] = (hdr, lines)
                if ok_all:
                    for kidx in ks:
                        assign[kidx - 1] = renamed[kidx] + (kidx,)
                        log.append({'rule': 'R7', 'closure': kidx, 'note': 'parameters renamed in the source; annotation renamed accordingly', 'expected': exp, 'found': headers[kidx - 1]})
                    continue
            same = len(set((ex.closures[k][0], tuple(ex.closures[k][1])) for k in ks)) == 1
            if same:
                # every closure with this header carries the same annotation: annotate all of them
                if not cands:
                    degraded.append('no closure with header %s found' % exp)
                for i in cands:
                    assign[i] = ex.closures[ks[0]] + (ks[0],)
            else:
                used = set()
                for kidx in sorted(ks):
                    free = [i for i in cands if i not in used]
                    if not free:
                        degraded.append('closure %d (%s) not found' % (kidx, exp))
                        continue
                    best = min(free, key=lambda i: abs(i - (kidx - 1)))
                    used.add(best)
                    assign[best] = ex.closures[kidx] + (kidx,)
        for ci, (hdr, lines, kidx) in sorted(assign.items()):
            b0, b1 = cl[ci]
            s_, e_ = closure_body_span(toks, b1)
            contract = '\n'.join(lines)
            edits.append((toks[b0][2], toks[b1][3], '%s\n%s\n' % (hdr, contract)))
            if toks[s_][1] != '{':
                edits.append((toks[s_][2], toks[s_][2], ' { '))
                edits.append((toks[e_][3], toks[e_][3], ' }'))
            log.append({'rule': 'R7', 'closure': ci + 1, 'directive': kidx, 'header': join(toks[b0:b1 + 1]), 'annotated': hdr})
    if ex.loops or ex.loop_iter:
        lp = find_loops(toks)
        for kidx, lines in ex.loops.items():
            if kidx < 1 or kidx > len(lp):
                degraded.append('loop %d not found (%d loops)' % (kidx, len(lp)))
                continue
            if kidx in ex.loop_expect and toks[lp[kidx - 1]][1] != ex.loop_expect[kidx]:
                # the loop was restructured (e.g. `while` -> `loop { if .. break }`): the invariant no longer fits
                degraded.append('loop %d is now a `%s` loop (annotated as `%s`)' % (kidx, toks[lp[kidx - 1]][1], ex.loop_expect[kidx]))
                continue
            bo = loop_body_open(toks, lp[kidx - 1])
            edits.append((toks[bo][2], toks[bo][2], '\n' + '\n'.join(lines) + '\n        '))
            log.append({'rule': 'R7', 'loop': kidx, 'keyword': toks[lp[kidx - 1]][1], 'spliced_lines': len(lines)})
        for kidx, nm in ex.loop_iter.items():
            if kidx < 1 or kidx > len(lp):
                degraded.append('loop %d not found (%d loops)' % (kidx, len(lp)))
                continue
            i = lp[kidx - 1]
            if toks[i][1] != 'for':
                degraded.append('loop %d is not a for loop' % kidx)
                continue
            j = i + 1
            while not (toks[j][0] == 'id' and toks[j][1] == 'in'):
                if toks[j][0] == 'p' and toks[j][1] in OPEN:
                    j = match_close(toks, j)
                j += 1
            edits.append((toks[j][3], toks[j][3], ' %s:' % nm))
            log.append({'rule': 'R7', 'loop': kidx, 'iter_name': nm})

    def nth_index(text, lit, n):
        p = -1
        for _ in range(n):
            p = text.find(lit, p + 1)
            if p < 0:
                return -1
        return p
    for (lit, nth), lines in ex.before:
        p = nth_index(body, lit, nth)
        if p < 0:
            degraded.append('before: literal (occurrence %d) not found: %r' % (nth, lit))
            continue
        edits.append((p, p, '\n'.join(lines) + '\n        '))
        log.append({'rule': 'R7', 'before': lit, 'spliced_lines': len(lines)})
    for (lit, nth), lines in ex.after:
        p = nth_index(body, lit, nth)
        if p < 0:
            degraded.append('after: literal (occurrence %d) not found: %r' % (nth, lit))
            continue
        p = p + len(lit)
        edits.append((p, p, '\n        ' + '\n'.join(lines) + '\n        '))
        log.append({'rule': 'R7', 'after': lit, 'spliced_lines': len(lines)})
    # apply back to front; insertions at the same position keep their listed order
    order = sorted(range(len(edits)), key=lambda i: (edits[i][0], i), reverse=True)
    last_start = None
    for i in order:
        s0, e0, rep = edits[i]
        if last_start is not None and e0 > last_start:
            raise Undecided('overlapping splices in %s' % name)
        body = body[:s0] + rep + body[e0:]
        last_start = s0
    contract = list(ex.contract)
    if vac:
        txt = '\n'.join(contract)
        # insert `false` as an additional ensures clause
        idx = None
        for n_, l in enumerate(contract):
            if re.match(r'\s*ensures\b', l):
                idx = n_
        if idx is None:
            # before a trailing decreases if any
            d = None
            for n_, l in enumerate(contract):
                if re.match(r'\s*decreases\b', l):
                    d = n_
            ins = '        ensures false, //# VACUITY'
            if d is None:
                contract.append(ins)
            else:
                contract.insert(d, ins)
        else:
            l = contract[idx]
            contract[idx] = re.sub(r'ensures\b', 'ensures false, //# VACUITY\n       ', l, count=1)
    ctext = ('\n' + '\n'.join(contract) + '\n    ') if contract else ''
    if ex.contract:
        log.append({'rule': 'R7', 'contract_lines': len(ex.contract)})
    if degraded and not strip_proof:
        text, log2, meta2 = render_extract(ex, vac=vac, strip_proof=True)
        meta2['degraded'] = degraded + meta2.get('degraded', []) + ['all loop/ghost splices of this item dropped']
        return text, log2, meta2
    meta['log'] = log
    meta['degraded'] = degraded
    meta['name'] = (ex.rename or name)
    hdr = header.rstrip()
    if ex.attrs:
        prefix = prefix + ''.join(a + '\n' for a in ex.attrs)
        log.append({'rule': 'R7', 'attrs': ex.attrs})
    return prefix + hdr + ctext + (' ' if not ctext else '') + body + '\n' + lifted_fn_text, log, meta


LABEL_RE = re.compile(r'//#\s*([A-Za-z0-9_.\-]+)')


def split_params(text):
    """split a parameter list at top-level commas"""
    res, depth, cur = [], 0, ''
    for ch in text:
        if ch in '([{<':
            depth += 1
        elif ch in ')]}>':
            depth -= 1
        if ch == ',' and depth == 0:
            res.append(cur)
            cur = ''
        else:
            cur += ch
    if cur.strip():
        res.append(cur)
    return [r.strip() for r in res if r.strip()]


def render_shellcheck(sc):
    """The contract of a trusted shell that stands in (in other units) for a function verified in THIS unit is proved from that
    function's verified contract: emits `fn <name>__shellcheck(<params of the shell>) <requires/ensures of the shell> { <call of the
    verified function> }`. The shell text is read from the file the other units include, so the two cannot drift apart unnoticed."""
    path = os.path.join(VXDIR, sc['file'])
    with open(path) as f:
        src = f.read()
    try:
        item, toks = find_path(src, sc['path'])
    except (AnchorError, LexError) as e:
        raise Undecided('shellcheck: %s in %s' % (e, sc['file']))
    if item.kind != 'fn' or item.body_open is None:
        raise Undecided('shellcheck: %r is not a fn with a body' % (sc['path'],))
    # header: from the `fn`/`async fn` keyword to the body
    i = item.start_tok
    while not (toks[i][0] == 'id' and toks[i][1] in ('fn', 'async')):
        i += 1
    header = src[toks[i][2]:toks[item.body_open][2]]
    is_async = toks[i][1] == 'async'
    name = item.name
    m = re.search(r'\bfn\s+' + re.escape(name) + r'\b', header)
    hdr = header[:m.start()] + 'fn ' + name + '__shellcheck' + header[m.end():]
    # parameter list: first '(' after the name and optional generics
    k = m.end() - m.start() + header[:m.start()].__len__()
    j = header.index(name, m.start()) + len(name)
    depth = 0
    while j < len(header):
        if header[j] == '<':
            depth += 1
        elif header[j] == '>' and header[j - 1] != '-':
            depth -= 1
        elif header[j] == '(' and depth == 0:
            break
        j += 1
    po = j
    depth = 0
    while j < len(header):
        if header[j] in '([{':
            depth += 1
        elif header[j] in ')]}':
            depth -= 1
            if depth == 0:
                break
        j += 1
    params = split_params(header[po + 1:j])
    args, recv = [], None
    for prm in params:
        if re.fullmatch(r"(&\s*('[a-z_]+\s+)?(mut\s+)?)?self", prm):
            recv = 'self'
            continue
        nm = prm.split(':', 1)[0].strip()
        nm = re.sub(r'^mut\s+', '', nm)
        args.append(nm)
    free = not any(seg.strip().startswith('impl ') for seg in sc['path'])
    call = ('self.%s(%s)' % (name, ', '.join(args))) if recv else (('%s(%s)' if free else 'Self::%s(%s)') % (name, ', '.join(args)))
    if is_async:
        call += '.await'
    label = 'shellsync.' + '.'.join(re.sub(r'^[a-z]+\s+', '', seg).replace(' ', '') for seg in sc['path'])
    lines = hdr.rstrip().split('\n')
    seen = False
    out = []
    for ln in lines:
        if re.search(r'\b(requires|ensures)\b', ln):
            seen = seen or bool(re.search(r'\bensures\b', ln))
        if seen and ln.strip() and '//#' not in ln:
            ln = ln + ' //# ' + label
        out.append(ln)
    body = call
    if sc.get('proof'):
        body = 'let __r = %s;\n        proof {\n%s\n        }\n        __r' % (call, '\n'.join(sc['proof']))
    text = '    /// shell contract of vx/%s :: %s, proved from the function verified in this unit\n    %s\n    { %s }\n' % (sc['file'], ' :: '.join(sc['path']), '\n'.join(out).strip(), body)
    meta = {'name': name + '__shellcheck', 'kind': 'shellcheck', 'file': 'vx/' + sc['file'], 'path': ' :: '.join(sc['path']), 'line': src[:toks[item.start_tok][2]].count('\n') + 1,
            'sha256': hashlib.sha256(src[toks[item.start_tok][2]:toks[item.end_tok][3]].encode()).hexdigest()[:16], 'label': label}
    return text, meta


def build_unit(tpl_path, out_path, with_vac=True):
    chunks = parse_template(tpl_path)
    out = []
    regions = []   # dict(name, kind(orig|vac), start_line, end_line, meta)
    extraction_log = []
    missing_items = []
    line = 1

    def emit(text):
        nonlocal line
        out.append(text)
        line += text.count('\n')

    for kind, c in chunks:
        if kind == 'text':
            emit(c)
            continue
        if kind == 'shellcheck':
            text, meta = render_shellcheck(c)
            s = line
            emit('// ---- shell contract check: %s :: %s (line %d, sha256 %s) ----\n' % (meta['file'], meta['path'], meta['line'], meta['sha256']))
            emit(text)
            regions.append({'name': meta['name'], 'kind': 'shellcheck', 'start': s, 'end': line - 1, 'item_kind': 'fn', 'src': '%s:%d' % (meta['file'], meta['line'])})
            extraction_log.append(meta)
            continue
        try:
            text, log, meta = render_extract(c, vac=False)
        except Undecided as e_:
            # a lifted statement / closure / block whose anchor is lost leaves the OTHER items of the unit decidable: the item is left out
            # and the unit can end `fail` (another item's obligation failed) or `undecided` (nothing else failed), never `ok`
            if not (c.lift_stmt is not None or c.lift is not None or c.lift_block is not None):
                raise
            missing_items.append('%s :: %s: %s' % (c.file, ' :: '.join(c.path), e_))
            emit('// ---- item left out (anchor lost): %s ----\n' % str(e_).replace('\n', ' '))
            continue
        s = line
        emit('// ---- extracted: %s :: %s (line %d, sha256 %s) ----\n' % (meta['file'], meta['path'], meta['line'], meta['sha256']))
        emit(text)
        regions.append({'name': meta['name'], 'kind': 'orig', 'start': s, 'end': line - 1, 'item_kind': meta['kind'], 'src': '%s:%d' % (meta['file'], meta['line'])})
        extraction_log.append(meta)
        if with_vac and meta['kind'] == 'fn' and not c.novac:
            text, _, _ = render_extract(c, vac=True)
            s = line
            emit('// ---- vacuity twin of %s ----\n' % meta['name'])
            emit(text)
            regions.append({'name': meta['name'], 'kind': 'vac', 'start': s, 'end': line - 1, 'item_kind': 'fn', 'src': '%s:%d' % (meta['file'], meta['line'])})
    full = ''.join(out)
    os.makedirs(os.path.dirname(out_path), exist_ok=True)
    with open(out_path, 'w') as f:
        f.write(full)
    labels = {}
    for n, l in enumerate(full.split('\n'), 1):
        m = LABEL_RE.search(l)
        if m:
            labels[n] = m.group(1)
    degraded = []
    for m in extraction_log:
        for d in m.get('degraded', []):
            degraded.append('%s: %s' % (m.get('name'), d))
    # soft degradation: the item now contains MORE loops or closures than when its annotations were written (vx/shapecounts.json): the
    # new loop has no invariant / the new closure no contract, so a failed obligation is not evidence of a violation by itself
    soft = []
    unit_name = os.path.splitext(os.path.basename(tpl_path))[0]
    try:
        with open(os.path.join(VXDIR, 'shapecounts.json')) as f_:
            base_counts = json.load(f_).get(unit_name, {})
    except (OSError, ValueError):
        base_counts = {}
    shape = {}
    seen_keys = {}
    for m in extraction_log:
        if 'n_loops' not in m:
            continue
        key0 = '%s :: %s' % (m.get('file'), m.get('path'))
        seen_keys[key0] = seen_keys.get(key0, 0) + 1
        key = key0 + (' #%d' % seen_keys[key0] if seen_keys[key0] > 1 else '')
        shape[key] = [m['n_loops'], m['n_closures']]
        b_ = base_counts.get(key)
        if b_ is not None:
            if m['n_loops'] > b_[0]:
                soft.append('%s: %d loop(s) where the annotations were written for %d' % (m.get('name'), m['n_loops'], b_[0]))
            if m['n_closures'] > b_[1]:
                soft.append('%s: %d closure(s) where the annotations were written for %d' % (m.get('name'), m['n_closures'], b_[1]))
    return {'soft_degraded': soft, 'shape': shape, 'path': out_path, 'regions': regions, 'labels': labels, 'extraction_log': extraction_log, 'text': full, 'degraded': degraded, 'missing_items': missing_items}


VERIF_FAIL_PATTERNS = [
    'postcondition not satisfied', 'precondition not satisfied', 'assertion failed', 'invariant not satisfied',
    'possible arithmetic underflow/overflow', 'possible division by zero', 'decreases not satisfied',
    'loop invariant', 'unable to prove', 'possible bit shift underflow/overflow', 'could not prove termination',
    'assertion failure', 'failed precondition', 'cannot show invariant', 'unreachable',
    'constructed value may fail to meet its declared type invariant', 'call to unwrap', 'index out of bounds',
    'possible', 'termination', 'fails to satisfy',
]
RLIMIT_PATTERNS = ['Resource limit', 'rlimit', 'timed out', 'canceled']

SCAN_WORDS = ['external_body', 'assume_specification', 'assume(', 'admit(', 'uninterp', 'external_type_specification', 'exec_allows_no_decreases_clause', 'external_fn_specification', 'verifier::external']


def scan_trusted(text):
    """mechanical scan of the generated file for trusted constructs -> list of strings 'kind: item'"""
    res = []
    lines = text.split('\n')
    for n, l in enumerate(lines):
        s = l.strip()
        if s.startswith('//'):
            continue
        for w in SCAN_WORDS:
            if w in s:
                # describe with the next line that names an item
                desc = s
                if s.startswith('#[') :
                    for m in range(n + 1, min(n + 6, len(lines))):
                        t = lines[m].strip()
                        if t and not t.startswith('#[') and not t.startswith('//'):
                            desc = s + ' ' + t
                            break
                res.append(re.sub(r'\s+', ' ', desc)[:160])
                break
    return res


def run_verus(gen, rlimit=None, seed=None, extra=None):
    cmd = ['verus', gen['path'], '--output-json', '--time', '--multiple-errors', '20']
    if rlimit:
        cmd += ['--rlimit', str(rlimit)]
    if seed is not None:
        cmd += ['--smt-option', 'smt.random_seed=%d' % seed]
    cmd += ['--', '--error-format=json']
    t0 = time.time()
    try:
        p = subprocess.run(cmd, cwd=os.path.dirname(gen['path']), capture_output=True, text=True, timeout=900)
    except subprocess.TimeoutExpired:
        raise Undecided('verus timed out on %s' % gen['path'])
    wall = time.time() - t0
    try:
        js = json.loads(p.stdout)
    except Exception:
        js = None
    diags = []
    for l in p.stderr.split('\n'):
        l = l.strip()
        if l.startswith('{'):
            try:
                d = json.loads(l)
            except Exception:
                continue
            if d.get('$message_type') == 'diagnostic':
                diags.append(d)
    return {'cmd': ' '.join(cmd), 'json': js, 'diags': diags, 'stderr': p.stderr, 'rc': p.returncode, 'wall': wall}


def classify(gen, res):
    """-> dict(status, functions, failures, vac_ok, notes)
    status: 'ok' | 'fail' | 'undecided'"""
    js = res['json']
    errors = [d for d in res['diags'] if d.get('level') == 'error']
    if js is None or 'verification-results' not in js:
        msg = '; '.join(d['message'] for d in errors[:5]) or res['stderr'][-800:]
        return {'status': 'undecided', 'reason': 'verus produced no verification results: ' + msg, 'rendered': ''.join(d.get('rendered') or '' for d in errors[:8])}
    vr = js['verification-results']
    if vr.get('encountered-vir-error'):
        # name the construct Verus rejected, not the verification failures that happen to come first (vacuity twins etc.)
        nonverif = [d for d in errors if not any(p_ in d['message'] for p_ in VERIF_FAIL_PATTERNS) and not d['message'].startswith('aborting due to')] or errors
        msg = '; '.join(d['message'] for d in nonverif[:5])
        return {'status': 'undecided', 'reason': 'verus rejected the text (unsupported construct / type error): ' + msg, 'rendered': ''.join(d.get('rendered') or '' for d in nonverif[:8])}
    regions = gen['regions']
    labels = gen['labels']

    def region_of(line):
        for r in regions:
            if r['start'] <= line <= r['end']:
                return r
        return None

    failures = []   # dict(function, kind, label, message, rendered)
    vac_hit = set()
    other = []
    for d in errors:
        msg = d['message']
        if msg.startswith('aborting due to'):
            continue
        spans = d.get('spans', [])
        prim = [s for s in spans if s.get('is_primary')]
        lines = []
        for s in spans:
            for ln in range(s['line_start'], s['line_end'] + 1):
                lines.append((ln, s.get('label'), s.get('is_primary')))
        labs = []
        for s in spans:
            lab_txt = s.get('label') or ''
            if 'at the end of the function body' in lab_txt or 'at this exit' in lab_txt:
                continue   # body / exit spans cover many clauses
            # a clause may span several lines; its label may sit on any of them
            if s['line_end'] - s['line_start'] > 40:
                continue
            for ln in range(s['line_start'], s['line_end'] + 1):
                if ln in labels and labels[ln] not in labs:
                    labs.append(labels[ln])
        reg = None
        for s in prim + spans:
            reg = region_of(s['line_start'])
            if reg:
                break
        # a failing precondition at a call site: primary span = call site (inside region), secondary = callee requires
        is_rlimit = any(p in msg for p in RLIMIT_PATTERNS)
        is_verif = any(p in msg for p in VERIF_FAIL_PATTERNS)
        if is_rlimit:
            other.append({'kind': 'rlimit', 'message': msg, 'function': reg['name'] if reg else None, 'rendered': d.get('rendered')})
            continue
        if not is_verif:
            other.append({'kind': 'compile', 'message': msg, 'function': reg['name'] if reg else None, 'rendered': d.get('rendered')})
            continue
        if reg is None:
            other.append({'kind': 'spec-failure', 'message': msg, 'function': None, 'rendered': d.get('rendered')})
            continue
        if reg['kind'] == 'shellcheck':
            # the verified contract no longer implies the contract of the shell other units rely on: machinery inconsistency, never an alarm
            other.append({'kind': 'spec-failure', 'message': 'shell contract %s is not implied by the verified contract: %s' % (reg['name'], msg), 'function': reg['name'], 'rendered': d.get('rendered')})
            continue
        if reg['kind'] == 'vac':
            if 'VACUITY' in labs:
                vac_hit.add(reg['name'])
            continue   # other failures in the twin mirror the original
        where = None
        for s in spans:
            if s.get('label') and ('at this exit' in s['label'] or 'at the end of the function body' in s['label']):
                where = '%s (generated line %d)' % (s['label'], s['line_start'])
        failures.append({'function': reg['name'], 'src': reg['src'], 'labels': [l for l in labs if l != 'VACUITY'], 'message': msg,
                         'where': where, 'rendered': d.get('rendered')})
    # function level results
    funcs = {}
    try:
        for m in js['func-details'].values() if isinstance(js['func-details'], dict) else []:
            pass
    except Exception:
        pass
    status = 'ok'
    if any(o['kind'] == 'compile' for o in other):
        return {'status': 'undecided', 'reason': 'compile error: ' + '; '.join(o['message'] for o in other if o['kind'] == 'compile')[:600],
                'rendered': ''.join(o.get('rendered') or '' for o in other[:6])}
    if any(o['kind'] == 'spec-failure' for o in other):
        return {'status': 'undecided', 'reason': 'a hand-written lemma/spec outside extracted code failed: ' + '; '.join(o['message'] for o in other if o['kind'] == 'spec-failure')[:600],
                'rendered': ''.join(o.get('rendered') or '' for o in other[:6])}
    vac_expected = set(r['name'] for r in regions if r['kind'] == 'vac')
    vac_missing = sorted(vac_expected - vac_hit)
    return {'status': 'fail' if failures else ('rlimit' if other else 'ok'), 'failures': failures, 'rlimit': [o for o in other if o['kind'] == 'rlimit'],
            'vac_expected': sorted(vac_expected), 'vac_missing': vac_missing, 'verified': vr.get('verified'), 'errors': vr.get('errors')}


def count_obligations(gen):
    """per orig fn region: labelled clauses + 1 body-safety obligation. -> list of (function, label)"""
    obs = []
    for r in gen['regions']:
        if r['kind'] != 'orig' or r['item_kind'] != 'fn':
            continue
        n = 0
        for ln, lab in gen['labels'].items():
            if r['start'] <= ln <= r['end'] and lab != 'VACUITY':
                obs.append((r['name'], lab))
                n += 1
        obs.append((r['name'], r['name'] + '.body-safety'))
    for r in gen['regions']:
        if r['kind'] == 'shellcheck':
            labs = sorted(set(lab for ln, lab in gen['labels'].items() if r['start'] <= ln <= r['end']))
            for lab in labs:
                obs.append((r['name'], lab))
    if not obs:
        # lemma-only unit: every verified (non external_body) proof fn is an obligation
        lines = gen['text'].split('\n')
        for n, l in enumerate(lines):
            m = re.match(r'\s*(?:pub\s+)?(?:broadcast\s+)?proof fn ([A-Za-z0-9_]+)', l)
            if m:
                prev = ' '.join(x.strip() for x in lines[max(0, n - 3):n])
                if 'external_body' in prev:
                    continue
                obs.append((m.group(1), 'lemma.' + m.group(1)))
    return obs


def smt_time(js):
    try:
        t = js['times-ms']
        return {'total_ms': t.get('total'), 'smt_ms': t.get('smt', {}).get('total') if isinstance(t.get('smt'), dict) else None,
                'verify_ms': t.get('total-verify')}
    except Exception:
        return {}


def run_unit(tpl, workdir, seed=None, known_labels=()):
    """Full unit run. -> result dict with status in ok|fail|undecided"""
    name = os.path.splitext(os.path.basename(tpl))[0]
    out = os.path.join(workdir, name.replace('-', '_') + '.rs')
    t0 = time.time()
    try:
        gen = build_unit(tpl, out)
    except Undecided as e:
        return {'unit': name, 'status': 'undecided', 'reason': str(e), 'wall': time.time() - t0}
    res = run_verus(gen, seed=seed)
    cl = classify(gen, res)
    retried = False
    only_known = cl['status'] == 'fail' and all(f['labels'] and all(l in known_labels for l in f['labels']) for f in cl.get('failures', []))
    if cl['status'] in ('fail', 'rlimit') and not only_known:
        # retry once with doubled rlimit and another seed
        res2 = run_verus(gen, rlimit=20, seed=(seed or 0) + 7)
        cl2 = classify(gen, res2)
        retried = True
        if cl2['status'] == 'ok' or cl['status'] == 'rlimit':
            res, cl = res2, cl2
    obs = count_obligations(gen)
    r = {'unit': name, 'status': cl['status'], 'generated': out, 'cmd': res['cmd'], 'retried': retried,
         'wall': time.time() - t0, 'times': smt_time(res['json']) if res['json'] else {},
         'obligations': obs, 'regions': [dict(r) for r in gen['regions']], 'extraction_log': gen['extraction_log'],
         'trusted': scan_trusted(gen['text']), 'degraded': gen['degraded']}
    r.update({k: v for k, v in cl.items() if k != 'status'})
    if cl['status'] == 'rlimit':
        r['status'] = 'undecided'
        r['reason'] = 'resource limit exceeded: ' + '; '.join(o['message'] for o in cl.get('rlimit', []))[:300]
    if cl['status'] == 'ok' and cl.get('vac_missing'):
        r['status'] = 'undecided'
        r['reason'] = 'vacuity guard: `ensures false` twin verified for ' + ', '.join(cl['vac_missing'])
    if r['status'] == 'ok' and not obs:
        r['status'] = 'undecided'
        r['reason'] = 'no obligations generated'
    r['soft_degraded'] = gen.get('soft_degraded', [])
    r['shape'] = gen.get('shape', {})
    if gen.get('missing_items'):
        r['missing_items'] = gen['missing_items']
        if r['status'] == 'ok' or (r['status'] == 'undecided' and r.get('reason') == 'no obligations generated'):
            r['status'] = 'undecided'
            r['reason'] = 'item(s) left out, anchor lost: ' + '; '.join(gen['missing_items'])[:400]
    return r


if __name__ == '__main__':
    import argparse
    ap = argparse.ArgumentParser()
    ap.add_argument('tpl')
    ap.add_argument('--out', default=os.path.join(VERIF, '.cache', 'vx-work'))
    ap.add_argument('--gen-only', action='store_true')
    ap.add_argument('--write-shapecounts', action='store_true', help='tpl = directory of units: record loops/closures per extracted item (run on the tree the annotations were written for)')
    a = ap.parse_args()
    if a.write_shapecounts:
        import glob
        allc = {}
        for t_ in sorted(glob.glob(os.path.join(a.tpl, '*.vt'))):
            n_ = os.path.splitext(os.path.basename(t_))[0]
            try:
                g_ = build_unit(t_, os.path.join(a.out, 'shape', n_.replace('-', '_') + '.rs'))
                allc[n_] = g_['shape']
            except Undecided as e_:
                print('skip', n_, e_)
        json.dump(allc, open(os.path.join(VXDIR, 'shapecounts.json'), 'w'), indent=0, sort_keys=True)
        print('wrote', os.path.join(VXDIR, 'shapecounts.json'), len(allc), 'units')
        sys.exit(0)
    if a.gen_only:
        g = build_unit(a.tpl, os.path.join(a.out, os.path.splitext(os.path.basename(a.tpl))[0].replace('-', '_') + '.rs'))
        print(g['path'])
        sys.exit(0)
    r = run_unit(a.tpl, a.out)
    slim = {k: v for k, v in r.items() if k not in ('extraction_log', 'regions', 'trusted')}
    print(json.dumps(slim, indent=1, default=str)[:6000])
    if r['status'] != 'ok':
        for f in r.get('failures', []):
            print(f.get('rendered'))
        print(r.get('rendered', ''))
    sys.exit({'ok': 0, 'fail': 1}.get(r['status'], 2))
