"""property -> units registry (which units decide which property, what is assumed, what is not covered)"""

COMMON_ASSUMPTIONS = [
    'tools: Verus 0.2026.09.13 / Z3, Kani 0.68 / CBMC, rustc, and the extractor tools/vx.py (its rewrites are listed per item in coverage.extraction_log)',
    'A-async: .await points are treated as sequential calls (state is owned by the single task running the function)',
    'machine arithmetic: Verus checks every +,-,cast of the extracted code for overflow (obligation <fn>.body-safety); spec-side integers are mathematical',
]

KX = {
    'U-incr32': {'name': 'U-incr32', 'harness_file': 'bounds.harness.rs', 'target': 'src/store/fs/bounds.rs', 'harnesses': ['incr32'],
                 'function': 'increment_by_one (src/store/fs/bounds.rs)', 'class': 'complete', 'bound': 'fixed width: every 32-byte id (loop unwound 32 times, unwinding assertion on)',
                 'labels': ['bounds.increment_by_one.incr-32'], 'tier': 'quick'},
    'U-incr-var': {'name': 'U-incr-var', 'harness_file': 'bounds.harness.rs', 'target': 'src/store/fs/bounds.rs', 'harnesses': ['incr_var'],
                   'function': 'increment_by_one (src/store/fs/bounds.rs)', 'class': 'bounded', 'bound': 'slice length <= 6',
                   'labels': ['bounds.increment_by_one.incr-var'], 'tier': 'quick'},
}

A_REDB = 'A-redb: a redb table is a finite map ordered by the tuple order of its key type (component-wise, byte-wise lexicographic for &[u8] and [u8; N]); get/insert/remove are map operations; range(b) yields exactly the rows within b in ascending order; retain_in / extract_from_if remove exactly the rows in b for which the predicate holds; transactions, commit and durability are not modelled'
A_INCR = 'increment_by_one is used in Verus units through the assumed contract incr_rel (same-length big-endian +1, false iff all 0xFF); that contract is proved on the real function by Kani for 32-byte ids (complete) and for slices up to 6 bytes (bounded, not counted)'

PROPS = {
    'C05': {
        'vx': ['U-bounds'],
        'kx': [KX['U-incr32'], KX['U-incr-var']],
        'assumptions': [A_REDB, A_INCR, 'bytes::Bytes is an abstract byte string (view Seq<u8>): new/to_vec/clone/From<Vec<u8>>/== assumed to preserve the bytes'],
        'not_covered': ['QueryIterator::next (offset/limit window, empty skipping after grouping, order of author filter and grouping): Verus rejects its closure parameter patterns and `break <value>`; Kani cannot run redb/Bytes'],
        'explanation': 'Exactness of every range bound used by queries (author/key/prefix on both indexes), index choice, the latest-per-key grouping step and point lookups.',
    },
    'C11': {
        'vx': ['U-peer'],
        'kx': [],
        'assumptions': [
            'SystemTime::now / Instant::now: arbitrary values (assume_specification without postcondition)',
            'expected_sync_direction is used through the uninterpreted predicate dir_is_accept in U-peer',
        ],
        'not_covered': ['liveness / real network timing', 'the two-node interleaving theorem (L-slot) is not proved; only per-function transition and handler contracts'],
        'explanation': 'Per-function contracts for the per-peer sync slot transition functions and the live actor completion handlers.',
    },
}
