"""property -> units registry (which units decide which property, what is assumed, what is not covered)"""

COMMON_ASSUMPTIONS = [
    'tools: Verus 0.2026.09.13 / Z3, Kani 0.68 / CBMC, rustc, and the extractor tools/vx.py (its rewrites are listed per item in coverage.extraction_log)',
    'A-async: .await points are treated as sequential calls (state is owned by the single task running the function)',
    'machine arithmetic: Verus checks every +,-,cast of the extracted code for overflow (obligation <fn>.body-safety); spec-side integers are mathematical',
]

KX = {
    'U-incr32': {'name': 'U-incr32', 'harness_file': 'bounds.harness.rs', 'target': 'src/store/fs/bounds.rs', 'harnesses': ['incr32'],
                 'function': 'increment_by_one (src/store/fs/bounds.rs)', 'class': 'complete', 'bound': 'fixed width: every 32-byte id (loop unwound 32 times, unwinding assertion on)',
                 'labels': ['bounds.increment_by_one.incr-32'], 'tier': 'quick'},
    'U-incr-var': {'name': 'U-incr-var', 'harness_file': 'bounds.harness.rs', 'target': 'src/store/fs/bounds.rs', 'harnesses': ['incr_var'],
                   'function': 'increment_by_one (src/store/fs/bounds.rs)', 'class': 'bounded', 'bound': 'slice length <= 6',
                   'labels': ['bounds.increment_by_one.incr-var'], 'tier': 'quick'},
    'U-dir': {'name': 'U-dir', 'harness_file': 'state.harness.rs', 'target': 'src/engine/state.rs', 'harnesses': ['dir_antisymmetric'],
              'function': 'expected_sync_direction (src/engine/state.rs)', 'class': 'complete', 'bound': 'fixed width: all pairs of distinct 32-byte ids (memcmp unwound 32 times)',
              'labels': ['C11.dir.antisymmetric'], 'tier': 'quick', 'trusted': ['EndpointId is built from arbitrary 32 bytes by transmute (layout of the newtype chain PublicKey -> CompressedEdwardsY -> [u8;32])']},
    'U-xor': {'name': 'U-xor', 'harness_file': 'ranger.harness.rs', 'target': 'src/ranger.rs', 'harnesses': ['fingerprint_xor_bytewise'],
              'function': 'impl BitXorAssign for Fingerprint (src/ranger.rs)', 'class': 'complete', 'bound': 'fixed width: all pairs of 32-byte fingerprints',
              'labels': ['ranger.fingerprint.xor-bytewise'], 'tier': 'quick'},
    'U-ord': {'name': 'U-ord', 'harness_file': 'valid.harness.rs', 'target': 'src/sync.rs', 'harnesses': ['record_cmp_is_ts_then_hash'],
              'function': 'impl Ord / PartialOrd for Record (src/sync.rs)', 'class': 'complete', 'bound': 'all timestamps, lengths and 32-byte hashes (loop-free apart from the fixed-width byte compare)',
              'labels': ['sync.record.cmp-is-timestamp-then-hash'], 'tier': 'quick'},
    'U-shift': {'name': 'U-shift', 'harness_file': 'valid.harness.rs', 'target': 'src/sync.rs', 'harnesses': ['valid_max_shift_value'],
                'function': 'const MAX_TIMESTAMP_FUTURE_SHIFT (src/sync.rs)', 'class': 'complete', 'bound': 'no input',
                'labels': ['valid.const.max-shift-value'], 'tier': 'quick'},
}

A_REDB = 'A-redb: a redb table is a finite map ordered by the tuple order of its key type (component-wise, byte-wise lexicographic for &[u8] and [u8; N]); get/insert/remove are map operations; range(b) yields exactly the rows within b in ascending order; retain_in / extract_from_if remove exactly the rows in b for which the predicate holds; transactions, commit and durability are not modelled'
A_INCR = 'increment_by_one is used in Verus units through the assumed contract incr_rel (same-length big-endian +1, false iff all 0xFF); that contract is proved on the real function by Kani for 32-byte ids (complete) and for slices up to 6 bytes (bounded, not counted)'

A_BYTES = 'bytes::Bytes is an abstract byte string (view Seq<u8>): new/to_vec/clone/From<Vec<u8>>/== assumed to preserve the bytes'
A_ENTRY = 'entries are abstract values in store-level units: the getters of SignedEntry/RecordIdentifier/EntrySignature/Hash and into_entry are assumed to return the components they name (prelude/entry.rs); impl Ord for Record = (timestamp, hash bytes) is assumed there and proved on the real function by Kani unit U-ord'
A_MODIFY = 'Store::modify(f) runs f exactly once on the tables of the current write transaction and returns its result, or fails before running it (rule R4); the age-based auto-commit inside modify/tables is not modelled'
A_EXTRACT = 'redb extract_from_if followed by Iterator::count is modelled by a prophecy on the table view resolved by count(); storage errors in the middle of that iteration are not modelled'

PROPS = {
    'C17': {
        'vx': ['U-peers', 'U-peers-get'],
        'kx': [],
        'assumptions': [A_REDB, A_MODIFY, 'A-redb multimap: values of one key are listed in ascending (nanos, peer) order, each exactly once',
                        'A-clock: the clock reading is an arbitrary u64; the most-recently-used characterisation is proved under the hypothesis that it is greater than every stored stamp (strictly increasing clock)',
                        'PEERS_PER_DOC_CACHE_SIZE is a shell returning 5 (the const cannot be extracted)'],
        'not_covered': ['survives reopening (redb durability)', 'non-atomic remove/insert on a storage error in between'],
        'explanation': 'register_useful_peer performs exactly the MRU step (size <= 5, no duplicates, re-registration moves to front, oldest evicted), fails unchanged for unknown documents, frames all other tables; get_sync_peers lists most recent first; lemma: after any history with increasing clock the list is the five most recently registered distinct peers.',
    },
    'C18': {
        'vx': ['U-mig'],
        'kx': [],
        'assumptions': [A_REDB, 'write transactions: tables opened from a transaction are prophecy-resolved views; commit installs them, dropping the transaction changes nothing; each table is opened at most once per transaction',
                        'HashMap entry API (entry/and_modify/or_insert_with) is a shell over an abstract map'],
        'not_covered': ['frame of tables a migration never opens (cannot be expressed in the transaction model), hence the end-to-end statement for a database lacking both derived tables is verified only up to the first transaction',
                        'Execute paths of migrations 002/003 (v1 -> v2 namespaces) are accepted but not specified', 'redb v2 tuple migration'],
        'explanation': 'migration_004 rebuilds the by-key index exactly iff it is empty; migration_001 rebuilds the heads exactly (greatest timestamp per author) iff heads are missing and records exist; run_migration commits iff Execute; an up-to-date database is left unchanged.',
    },
    'C03': {
        'vx': ['U-valid-sig', 'U-valid-empty', 'U-valid-insert', 'U-valid-recon'],
        'kx': [KX['U-shift']],
        'assumptions': ['A-crypto: ed25519 verify_strict is an uninterpreted predicate sig_valid(pk bytes, message, signature); public-key parsing is an uninterpreted partial function of the 32 id bytes',
                        'A-clock: system_time_now() <= u64::MAX - MAX_TIMESTAMP_FUTURE_SHIFT',
                        'A-recon-gate: ranger::Store::process_message stores an incoming entry only after the validate callback returned true, continues with the remaining entries, and calls on_insert only for Inserted (src/ranger.rs "Store incoming values" loop: out of reach, not verified)',
                        'the store put used by Replica::insert_entry is a shell over a ghost state that changes only on Inserted (its full contract is proved in U-store)',
                        'transcribed From impls (thiserror / derive_more expansions) for the error enums'],
        'not_covered': ['process_message itself (generic async routine, see C01) and its on_insert closure'],
        'explanation': 'validate_entry / verify / validate_empty on the real text, the direct remote-insert path, and the validate closure of sync_process_message (lambda-lifted, rule R6) accept exactly the same predicate.',
    },
    'C12': {
        'vx': ['U-valid-insert', 'U-policy-match'],
        'kx': [],
        'assumptions': ['Subscribers::send appends the event to a ghost event log (async channel internals, pointer identity via transmute_copy: not examined)',
                        'the store put / get_download_policy used by Replica::insert_entry are shells with ghost logs',
                        A_BYTES],
        'not_covered': ['event emission inside sync_process_message on_insert closure (behind process_message)', 'Subscribers::{subscribe, unsubscribe, send}: channels, unsafe pointer comparison, concurrency', 'order across subscribers'],
        'explanation': 'Direct ingress path: exactly one event, after the put, iff the put returned Inserted; none on any Err exit; Local / Remote marking with provider and content status; download flag equals the policy verdict.',
    },
    'C07': {
        'vx': ['U-cap-merge', 'U-cap-import', 'U-valid-insert', 'U-actor-close'],
        'kx': [],
        'assumptions': [A_REDB, A_MODIFY, 'A-crypto-2: NamespaceSecret is opaque; id(), to_bytes/from_bytes are uninterpreted with to_bytes/from_bytes mutually inverse',
                        'num_enum conversions of CapabilityKind: 1 = Write, 2 = Read, anything else an error (derive output not examined)',
                        'the error value produced by `?` conversions is unspecified in Verus, so "Err(NotFound) only if no row" for load_replica_info is not decided (the other direction is)'],
        'not_covered': ['Action::ImportNamespace arm of Actor::on_action (spawn_local, iterator chains, async closures)'],
        'explanation': 'Capability::merge only upgrades and never replaces a write capability; raw/from_raw are inverse; import_namespace stores exactly the merge and touches no other row or table; load/close maintain the open set.',
    },
    'C09': {
        'vx': ['U-codec-frame', 'U-cap-merge', 'U-rid', 'U-rid-order', 'U-heads-merge'],
        'kx': [],
        'bx': ['heads_encode'],
        'assumptions': ['A-postcard: postcard::from_bytes / to_slice / serialized size are uninterpreted total functions; serde-derive code is not examined',
                        'BytesMut is an abstract growable byte buffer (len, advance, put_u32, resize, range indexing) with len <= isize::MAX'],
        'not_covered': ['round trip of Message/SignedEntry/tickets/heads through serde-derive and postcard, pinned hex snapshots, FilterKind Display/FromStr (macro generated / string code)'],
        'explanation': 'Framing: decode never panics, reports short input as need-more-data and oversized frames as errors, consumes exactly one frame; encode appends exactly one frame; chunking lemmas; capability raw round trip.',
    },
    'C10': {
        'vx': ['U-codec-bob', 'U-codec-alice', 'U-codec-conn', 'U-codec-frame'],
        'kx': [],
        'assumptions': ['streams are arbitrary frame sequences (FramedRead::next returns any frame or error, FramedWrite::send any result); SyncHandle::sync_process_message returns arbitrary Ok/Err and logs its calls in a ghost log',
                        'tracing spans / Instrument are identity shells; termination of stream-driven loops is not claimed (exec_allows_no_decreases_clause)',
                        'iroh Connection / SendStream / RecvStream / Metrics are opaque shells'],
        'not_covered': ['"never wait forever" (liveness over real streams)', 'actor stopping mid-session (channel semantics)', 'mirrored sent/received counters (C01)'],
        'explanation': 'Acceptor state machine (BobState::run/into_outcome), initiator loop (run_alice) and handle_connection on the real text: no unwrap on an empty slot on any path, decline changes nothing, protocol violations are errors, the outcome can always be reported.',
    },
    'C15': {
        'vx': ['U-policy-store', 'U-policy-match'],
        'kx': [],
        'assumptions': [A_REDB, A_MODIFY, A_BYTES, 'A-postcard: pc_dec(pc_enc(p)) == Some(p) for download policies',
                        'Iterator::any / all on slice::Iter are assumed to be exists / forall over the remaining elements via the closure ensures'],
        'not_covered': ['filters survive their textual form (Display/FromStr: string code)', 'persistence across reopen (redb durability)'],
        'explanation': 'set_download_policy only for existing documents and writes exactly one row; get returns the decoded row or the default; get-after-set round trip; DownloadPolicy::matches / FilterKind::matches equal the stated rule.',
    },
    'C02': {
        'vx': ['U-store', 'U-bounds', 'U-valid-insert', 'L-join'],
        'kx': [KX['U-incr32'], KX['U-incr-var'], KX['U-ord']],
        'bx': ['c02_order'],
        'assumptions': [A_REDB, A_INCR, A_BYTES, A_ENTRY, A_MODIFY, A_EXTRACT,
                        'the constructors of RecordsBounds used by the store units carry, as assumed contracts, exactly the postconditions proved on the real text in unit U-bounds',
                        'two entries with identical (author, key, timestamp, hash) but different len compare equal under Record::cmp; the contracts speak about the (timestamp, hash) order'],
        'not_covered': ['the link between spec/putspec.rs (used by the L-join lemmas) and the postcondition of put in U-store is by construction of the text (same predicates), not machine-checked'],
        'explanation': 'ranger::Store::put on the real text equals its specification (admission test against every prefix entry incl. the empty key and deletion markers, exact pruning set, exact count, frame), proved modularly over the verified contracts of parents / remove_prefix_filtered / entry_put / range bounds.',
    },
    'C08': {
        'vx': ['U-store', 'U-bounds', 'U-first', 'U-range', 'U-rid-order'],
        'kx': [KX['U-incr32'], KX['U-incr-var'], KX['U-ord'], KX['U-xor']],
        'bx': ['c08_range'],
        'assumptions': [A_REDB, A_INCR, A_BYTES, A_ENTRY, A_MODIFY, A_EXTRACT],
        'not_covered': ['transcript equality of whole sessions across backends (relational over process_message, see C01)',
                        'RecordsRange::{with_bounds,next} and the Chain/Flatten adaptors are shells: Verus cannot attach specifications to the provided trait methods Iterator::chain/flatten (one logged R8 map in get_range)',
                        'RangeEntry::as_fingerprint and Fingerprint ^= are used through uninterpreted functions'],
        'explanation': 'Each storage primitive of the redb-backed reconciliation store returns what the ordered-map definition prescribes: prefix lookup, filtered prefix removal, single put, range bounds.',
    },
    'C13': {
        'vx': ['U-store', 'U-rmrep', 'U-heads', 'U-heads-merge', 'U-heads-store', 'U-heads-latest', 'L-join'],
        'kx': [],
        'bx': ['heads_encode', 'c13_heads'],
        'assumptions': [A_REDB, A_ENTRY, A_MODIFY],
        'not_covered': ['AuthorHeads::insert (BTreeMap::entry().and_modify().or_insert(): rejected by Verus; assumed max-merge contract, checked only by the bounded stand-in heads_encode)',
                        'AuthorHeads::encode (BTreeSet::into_iter().rev() + postcard: orphan rule prevents an iterator spec, CBMC does not terminate on BTreeMap): bounded stand-in heads_encode only'],
        'explanation': 'entry_put keeps the per-author head at the maximum timestamp; remove_replica deletes the heads of the removed document.',
    },
    'C16': {
        'vx': ['U-rmrep', 'U-bounds', 'U-hashes', 'U-cap-import', 'U-peers', 'U-policy-store', 'U-actor-close'],
        'kx': [KX['U-incr32']],
        'bx': ['c16_remove'],
        'assumptions': [A_REDB, A_INCR, A_MODIFY, 'HashSet<NamespaceId> open_replicas is an abstract set with the std contains/insert/remove contracts'],
        'not_covered': ['engine.rs gc_protect_task (consumer of the content-hash iterator)', 'RecordsRange / snapshot_owned are shells (A-redb)'],
        'explanation': 'remove_replica refuses open documents and otherwise removes exactly the rows of the named document from all six per-document tables, leaving every other row unchanged.',
    },
    'C05': {
        'vx': ['U-bounds', 'U-policy-filters', 'U-policy-index', 'U-policy-selector', 'U-policy-bykey', 'U-store'],
        'kx': [KX['U-incr32'], KX['U-incr-var']],
        'bx': ['c05_query'],
        'assumptions': [A_REDB, A_INCR, A_BYTES, A_ENTRY,
                        'RangeExt::next_filter_map / next_try_filter_map (loop with `break <value>`) are modelled in the range shell of U-policy-bykey, not verified'],
        'not_covered': ['QueryIterator::new/next (offset/limit window, empty skipping after grouping, order of author filter and grouping): Verus rejects its closure parameter patterns and `break <value>`; Kani cannot run redb/Bytes. Covered only by the bounded stand-in c05_query (5508 queries over one 9-row state)'],
        'explanation': 'Exactness of every range bound used by queries (author/key/prefix on both indexes), index choice, the latest-per-key grouping step and point lookups.',
    },
    'C11': {
        'vx': ['U-peer', 'U-live-nss', 'U-live-handlers', 'U-live-dial', 'U-codec-bob', 'U-codec-conn'],
        'kx': [KX['U-dir']],
        'assumptions': [
            'SystemTime::now / Instant::now: arbitrary values (assume_specification without postcondition)',
            'expected_sync_direction is used through the uninterpreted predicate dir_is_accept in U-peer',
        ],
        'not_covered': ['liveness / real network timing', 'the full two-node interleaving theorem over message histories is not proved; per-function transition and handler contracts plus lemmas over them (simultaneous dial, busy slot refuses, ready after finished, one follow-up) are',
                        'BTreeMap::entry / Entry::or_default are assumed (lookup-or-default)'],
        'explanation': 'Exact transition contracts of the per-peer sync slot (PeerState, NamespaceStates) and slot postconditions of the live actor completion handlers, the dial and the accept path, on the real text.',
    },
}
