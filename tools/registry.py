"""property -> units registry (which units decide which property, what is assumed, what is not covered)"""

COMMON_ASSUMPTIONS = [
    'tools: Verus 0.2026.09.13 / Z3, Kani 0.68 / CBMC, rustc, and the extractor tools/vx.py (its rewrites are listed per item in coverage.extraction_log)',
    'A-async: .await points are treated as sequential calls (state is owned by the single task running the function)',
    'machine arithmetic: Verus checks every +,-,cast of the extracted code for overflow (obligation <fn>.body-safety); spec-side integers are mathematical',
]

PROPS = {
    'C11': {
        'vx': ['U-peer'],
        'kx': [],
        'assumptions': [
            'SystemTime::now / Instant::now: arbitrary values (assume_specification without postcondition)',
            'expected_sync_direction is used through the uninterpreted predicate dir_is_accept in U-peer',
        ],
        'not_covered': ['liveness / real network timing', 'the two-node interleaving theorem (L-slot) is not proved; only per-function transition and handler contracts'],
        'explanation': 'Per-function contracts for the per-peer sync slot transition functions and the live actor completion handlers.',
    },
}
