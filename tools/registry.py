"""property -> units registry (which units decide which property, what is assumed, what is not covered)"""

COMMON_ASSUMPTIONS = [
    'tools: Verus 0.2026.09.13 / Z3, Kani 0.68 / CBMC, rustc, and the extractor tools/vx.py (its rewrites are listed per item in coverage.extraction_log)',
    'A-async: .await points are treated as sequential calls (state is owned by the single task running the function)',
    'machine arithmetic: Verus checks every +,-,cast of the extracted code for overflow (obligation <fn>.body-safety); spec-side integers are mathematical',
]

KX = {
    'U-incr32': {'name': 'U-incr32', 'harness_file': 'bounds.harness.rs', 'target': 'src/store/fs/bounds.rs', 'harnesses': ['incr32'],
                 'function': 'increment_by_one (src/store/fs/bounds.rs)', 'class': 'complete', 'bound': 'fixed width: every 32-byte id (loop unwound 32 times, unwinding assertion on)',
                 'labels': ['bounds.increment_by_one.incr-32'], 'tier': 'quick'},
    'U-incr-var': {'name': 'U-incr-var', 'harness_file': 'bounds.harness.rs', 'target': 'src/store/fs/bounds.rs', 'harnesses': ['incr_var'],
                   'function': 'increment_by_one (src/store/fs/bounds.rs)', 'class': 'bounded', 'bound': 'slice length <= 6',
                   'labels': ['bounds.increment_by_one.incr-var'], 'tier': 'quick'},
}

A_REDB = 'A-redb: a redb table is a finite map ordered by the tuple order of its key type (component-wise, byte-wise lexicographic for &[u8] and [u8; N]); get/insert/remove are map operations; range(b) yields exactly the rows within b in ascending order; retain_in / extract_from_if remove exactly the rows in b for which the predicate holds; transactions, commit and durability are not modelled'
A_INCR = 'increment_by_one is used in Verus units through the assumed contract incr_rel (same-length big-endian +1, false iff all 0xFF); that contract is proved on the real function by Kani for 32-byte ids (complete) and for slices up to 6 bytes (bounded, not counted)'

A_BYTES = 'bytes::Bytes is an abstract byte string (view Seq<u8>): new/to_vec/clone/From<Vec<u8>>/== assumed to preserve the bytes'
A_ENTRY = 'entries are abstract values in store-level units: the getters of SignedEntry/RecordIdentifier/EntrySignature/Hash and into_entry are assumed to return the components they name (prelude/entry.rs); impl Ord for Record = (timestamp, hash bytes) is assumed there and proved on the real function by Kani unit U-ord'
A_MODIFY = 'Store::modify(f) runs f exactly once on the tables of the current write transaction and returns its result, or fails before running it (rule R4); the age-based auto-commit inside modify/tables is not modelled'
A_EXTRACT = 'redb extract_from_if followed by Iterator::count is modelled by a prophecy on the table view resolved by count(); storage errors in the middle of that iteration are not modelled'

PROPS = {
    'C02': {
        'vx': ['U-store', 'U-bounds'],
        'kx': [KX['U-incr32'], KX['U-incr-var']],
        'assumptions': [A_REDB, A_INCR, A_BYTES, A_ENTRY, A_MODIFY, A_EXTRACT,
                        'the constructors of RecordsBounds used by the store units carry, as assumed contracts, exactly the postconditions proved on the real text in unit U-bounds',
                        'two entries with identical (author, key, timestamp, hash) but different len compare equal under Record::cmp; the contracts speak about the (timestamp, hash) order'],
        'not_covered': ['the fold of put over arbitrary sequences (lemma L-join: held set is order independent) is not yet mechanised; the per-call contract put == put_spec is'],
        'explanation': 'ranger::Store::put on the real text equals its specification (admission test against every prefix entry incl. the empty key and deletion markers, exact pruning set, exact count, frame), proved modularly over the verified contracts of parents / remove_prefix_filtered / entry_put / range bounds.',
    },
    'C08': {
        'vx': ['U-store', 'U-bounds'],
        'kx': [KX['U-incr32'], KX['U-incr-var']],
        'assumptions': [A_REDB, A_INCR, A_BYTES, A_ENTRY, A_MODIFY, A_EXTRACT],
        'not_covered': ['transcript equality of whole sessions across backends (relational over process_message, see C01)', 'get_first / get_range / get_fingerprint (pending)'],
        'explanation': 'Each storage primitive of the redb-backed reconciliation store returns what the ordered-map definition prescribes: prefix lookup, filtered prefix removal, single put, range bounds.',
    },
    'C13': {
        'vx': ['U-store', 'U-rmrep'],
        'kx': [],
        'assumptions': [A_REDB, A_ENTRY, A_MODIFY],
        'not_covered': ['AuthorHeads::insert/merge (BTreeMap::entry API)', 'induction over put sequences (L-heads) not mechanised'],
        'explanation': 'entry_put keeps the per-author head at the maximum timestamp; remove_replica deletes the heads of the removed document.',
    },
    'C16': {
        'vx': ['U-rmrep', 'U-bounds'],
        'kx': [KX['U-incr32']],
        'assumptions': [A_REDB, A_INCR, A_MODIFY, 'HashSet<NamespaceId> open_replicas is an abstract set with the std contains/insert/remove contracts'],
        'not_covered': ['ContentHashesIterator (pending)'],
        'explanation': 'remove_replica refuses open documents and otherwise removes exactly the rows of the named document from all six per-document tables, leaving every other row unchanged.',
    },
    'C05': {
        'vx': ['U-bounds'],
        'kx': [KX['U-incr32'], KX['U-incr-var']],
        'assumptions': [A_REDB, A_INCR, 'bytes::Bytes is an abstract byte string (view Seq<u8>): new/to_vec/clone/From<Vec<u8>>/== assumed to preserve the bytes'],
        'not_covered': ['QueryIterator::next (offset/limit window, empty skipping after grouping, order of author filter and grouping): Verus rejects its closure parameter patterns and `break <value>`; Kani cannot run redb/Bytes'],
        'explanation': 'Exactness of every range bound used by queries (author/key/prefix on both indexes), index choice, the latest-per-key grouping step and point lookups.',
    },
    'C11': {
        'vx': ['U-peer'],
        'kx': [],
        'assumptions': [
            'SystemTime::now / Instant::now: arbitrary values (assume_specification without postcondition)',
            'expected_sync_direction is used through the uninterpreted predicate dir_is_accept in U-peer',
        ],
        'not_covered': ['liveness / real network timing', 'the two-node interleaving theorem (L-slot) is not proved; only per-function transition and handler contracts'],
        'explanation': 'Per-function contracts for the per-peer sync slot transition functions and the live actor completion handlers.',
    },
}
