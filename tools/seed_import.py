#!/usr/bin/env python3
"""import confirmed seeded changes from /tmp/seed/<ID>/out into /verif/seeded/<ID>-m<i>/"""
import glob, json, os, shutil, sys
SEEDDIR = os.environ.get('SEEDDIR', '/tmp/seed')
TAG = os.environ.get('SEEDTAG', '')
VERIF = os.path.dirname(os.path.dirname(os.path.abspath(__file__)))
for cf in sorted(glob.glob(SEEDDIR + '/confirm/*.json')):
    c = json.load(open(cf))
    pid, m = c['id'], c['mutant']
    ok = c['applies'] and ('92 passed' in c['suite']) and 'FAILED' in c['demo_with_change'] and c['demo_without_change'].startswith('test result: ok')
    src = SEEDDIR + '/%s/out' % pid
    dst = os.path.join(VERIF, 'seeded', '%s-%s%s' % (pid, TAG, m))
    if not os.path.exists(os.path.join(src, m + '.patch')):
        continue   # already imported earlier, scratch output removed
    if not ok:
        print('NOT CONFIRMED', pid, m, c)
        continue
    os.makedirs(dst, exist_ok=True)
    shutil.copy(os.path.join(src, m + '.patch'), os.path.join(dst, 'patch.diff'))
    shutil.copy(os.path.join(src, m + '_demo.rs'), os.path.join(dst, 'demo.rs'))
    meta = json.load(open(os.path.join(src, m + '_meta.json')))
    meta_out = {
        'property': pid,
        'summary': meta.get('summary'),
        'why_it_breaks': meta.get('why_it_breaks'),
        'needs_to_manifest': meta.get('needs_to_manifest'),
        'demo_target_file': c['demo_target'], 'demo_test_filter': c['filter'],
        'author': 'independent sub-agent given only the property text and a scratch worktree of /repo',
        'confirmed_by_main_session': {
            'how': 'tools/confirm_seed.sh: patch applied to a scratch worktree of /repo HEAD; cargo nextest full suite; demo appended and run with and without the change',
            'suite_with_change': c['suite'], 'demo_with_change': c['demo_with_change'], 'demo_without_change': c['demo_without_change'],
        },
    }
    old = os.path.join(dst, 'meta.json')
    if os.path.exists(old):
        try:
            prev = json.load(open(old))
            if 'checks' in prev:
                meta_out['checks'] = prev['checks']
        except Exception:
            pass
    json.dump(meta_out, open(old, 'w'), indent=1)
    print('imported', dst)
