#!/usr/bin/env python3
"""run the registered checks against every seeded change: apply to /repo, ./check <prop> --no-evidence, undo.
Records the outcome in seeded/<id>/meta.json under "checks". Usage: seed_run.py [dir ...]"""
import glob, json, os, re, subprocess, sys, time
VERIF = os.path.dirname(os.path.dirname(os.path.abspath(__file__)))
SCRATCH = None
if '--scratch' in sys.argv:
    # run against a scratch copy of /repo (VERIF_REPO) instead of patching /repo itself: lets other work go on in /repo meanwhile
    sys.argv.remove('--scratch')
    SCRATCH = os.environ.get('SEEDRUN_DIR', '/tmp/seedrun-repo')
dirs = [os.path.abspath(x) for x in sys.argv[1:]] or sorted(glob.glob(os.path.join(VERIF, 'seeded', '*')))
assert subprocess.run(['git', '-C', '/repo', 'status', '--porcelain'], capture_output=True, text=True).stdout.strip() == '', '/repo not clean'
for d in dirs:
    if SCRATCH:
        d = d.rstrip('/')
        meta_p = os.path.join(d, 'meta.json')
        meta = json.load(open(meta_p))
        prop = meta['property']
        subprocess.run(['rsync', '-a', '--delete', '--exclude', 'target', '--exclude', '.git', '/repo/', SCRATCH + '/'], check=True)
        ap = subprocess.run(['patch', '-p1', '-s', '-d', SCRATCH, '-i', os.path.join(d, 'patch.diff')], capture_output=True, text=True)
        if ap.returncode != 0:
            print(os.path.basename(d), 'PATCH DOES NOT APPLY', (ap.stdout + ap.stderr)[:200]); continue
        env = dict(os.environ); env['VERIF_REPO'] = SCRATCH; env['VERIF_WORK_SUFFIX'] = os.environ.get('SEEDRUN_SUFFIX', '-seedrun')
        t0 = time.time()
        p = subprocess.run([os.path.join(VERIF, 'check'), prop, '--tier', 'quick', '--no-evidence'], capture_output=True, text=True, cwd=VERIF, env=env)
        viol = [l for l in p.stdout.split('\n') if l.startswith('VIOLATION')]
        und = [l for l in p.stdout.split('\n') if l.startswith('UNDECIDED')]
        obs = sorted(set(re.findall(r'obligation=(\S+)', '\n'.join(viol))))
        meta['checks'] = {'cmd': './check %s --tier quick (VERIF_REPO = scratch copy of /repo with the patch applied)' % prop, 'exit': p.returncode, 'detected': p.returncode == 1,
                          'failed_obligations': obs, 'witness_found': [not l.endswith('no-failing-input-found') for l in viol],
                          'undecided': [u[:200] for u in und], 'wall_s': round(time.time() - t0, 1)}
        json.dump(meta, open(meta_p, 'w'), indent=1)
        print(os.path.basename(d), 'exit', p.returncode, obs[:4], ('UNDECIDED: ' + und[0][:120]) if und else '', flush=True)
        continue
    d = d.rstrip('/')
    meta_p = os.path.join(d, 'meta.json')
    meta = json.load(open(meta_p))
    prop = meta['property']
    patch = os.path.join(d, 'patch.diff')
    ap = subprocess.run(['git', '-C', '/repo', 'apply', patch], capture_output=True, text=True)
    if ap.returncode != 0:
        print(os.path.basename(d), 'PATCH DOES NOT APPLY', ap.stderr[:200]); continue
    try:
        t0 = time.time()
        p = subprocess.run([os.path.join(VERIF, 'check'), prop, '--tier', 'quick', '--no-evidence'], capture_output=True, text=True, cwd=VERIF)
        viol = [l for l in p.stdout.split('\n') if l.startswith('VIOLATION')]
        und = [l for l in p.stdout.split('\n') if l.startswith('UNDECIDED')]
        obs = sorted(set(re.findall(r'obligation=(\S+)', '\n'.join(viol))))
        meta['checks'] = {'cmd': './check %s --tier quick' % prop, 'exit': p.returncode, 'detected': p.returncode == 1,
                          'failed_obligations': obs, 'witness_found': [not l.endswith('no-failing-input-found') for l in viol],
                          'undecided': [u[:200] for u in und], 'wall_s': round(time.time() - t0, 1)}
        json.dump(meta, open(meta_p, 'w'), indent=1)
        print(os.path.basename(d), 'exit', p.returncode, obs[:4], ('UNDECIDED: ' + und[0][:120]) if und else '')
    finally:
        subprocess.run(['git', '-C', '/repo', 'checkout', '--', '.'], check=True)
