#!/bin/sh
# run every registered check (quick tier) on the current /repo and validate manifest + evidence
cd "$(dirname "$0")/.."
rc=0
for p in $(python3 -c "import sys; sys.path.insert(0,'tools'); import registry; print(' '.join(sorted(registry.PROPS)))"); do
  ./check $p --tier ${1:-quick} | tail -3 | grep -v "^$" || true
done
python3-vt tools/validate.py | tail -1
