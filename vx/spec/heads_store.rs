// ================= spec: the replica's own heads as read from the latest-per-author table (verified) =================

pub open spec fn latest_key_of(ns: Seq<u8>, a: AuthorId) -> LatestKey { LatestKey { ns: ns, author: a.0@ } }

/// `m` maps author -> timestamp for exactly the latest-per-author rows of namespace `ns`
pub open spec fn is_our_heads(m: Map<AuthorId, u64>, t: Map<LatestKey, LatestVal>, ns: Seq<u8>) -> bool {
    &&& (forall|a: AuthorId| #[trigger] m.contains_key(a) <==> t.contains_key(latest_key_of(ns, a)))
    &&& (forall|a: AuthorId| #[trigger] m.contains_key(a) ==> m[a] == t[latest_key_of(ns, a)].ts)
}

/// the authors for which the report `theirs` names a timestamp strictly newer than the table's row, or for which
/// the table has no row in namespace `ns`
pub open spec fn news_vs_table(theirs: Map<AuthorId, u64>, t: Map<LatestKey, LatestVal>, ns: Seq<u8>) -> Set<AuthorId> {
    theirs.dom().filter(|a: AuthorId| !t.contains_key(latest_key_of(ns, a)) || theirs[a] > t[latest_key_of(ns, a)].ts)
}

pub proof fn lemma_news_vs_table(theirs: Map<AuthorId, u64>, ours: Map<AuthorId, u64>, t: Map<LatestKey, LatestVal>, ns: Seq<u8>)
    requires is_our_heads(ours, t, ns)
    ensures
        news_authors(theirs, ours) =~= news_vs_table(theirs, t, ns),
        (forall|a: AuthorId| theirs.contains_key(a) ==> ours.contains_key(a) && theirs[a] <= ours[a])
            <==> (forall|a: AuthorId| theirs.contains_key(a) ==> t.contains_key(latest_key_of(ns, a)) && theirs[a] <= t[latest_key_of(ns, a)].ts),
{
    assert forall|a: AuthorId| news_authors(theirs, ours).contains(a) <==> news_vs_table(theirs, t, ns).contains(a) by {
        if theirs.contains_key(a) { assert(ours.contains_key(a) <==> t.contains_key(latest_key_of(ns, a))); }
    }
    if forall|a: AuthorId| theirs.contains_key(a) ==> ours.contains_key(a) && theirs[a] <= ours[a] {
        assert forall|a: AuthorId| theirs.contains_key(a) implies t.contains_key(latest_key_of(ns, a)) && theirs[a] <= t[latest_key_of(ns, a)].ts by {
            assert(ours.contains_key(a));
        }
    }
    if forall|a: AuthorId| theirs.contains_key(a) ==> t.contains_key(latest_key_of(ns, a)) && theirs[a] <= t[latest_key_of(ns, a)].ts {
        assert forall|a: AuthorId| theirs.contains_key(a) implies ours.contains_key(a) && theirs[a] <= ours[a] by {
            assert(ours.contains_key(a) <==> t.contains_key(latest_key_of(ns, a)));
        }
    }
}

/// the heads collected from the first `n` rows
pub open spec fn heads_upto(h: Map<AuthorId, u64>, keys: Seq<LatestKey>, t: Map<LatestKey, LatestVal>, ns: Seq<u8>, n: int) -> bool {
    &&& (forall|a: AuthorId| #[trigger] h.contains_key(a) <==> exists|i: int| 0 <= i < n && #[trigger] keys[i] == latest_key_of(ns, a))
    &&& (forall|a: AuthorId| #[trigger] h.contains_key(a) ==> h[a] == t[latest_key_of(ns, a)].ts)
}

pub proof fn lemma_heads_step(h: Map<AuthorId, u64>, keys: Seq<LatestKey>, rest: Seq<LatestItem>, t: Map<LatestKey, LatestVal>, ns: Seq<u8>, n: int)
    requires
        latest_iter_over(keys, rest, t, ns),
        0 <= n < keys.len(),
        rest[n] is Ok,
        heads_upto(h, keys, t, ns, n),
    ensures
        heads_upto(heads_put(h, rest[n]->Ok_0.0, rest[n]->Ok_0.1), keys, t, ns, n + 1)
{
    let a0 = rest[n]->Ok_0.0;
    let ts = rest[n]->Ok_0.1;
    let h2 = heads_put(h, a0, ts);
    assert(keys.contains(keys[n]));
    assert(keys[n].ns =~= ns);
    assert(keys[n] == latest_key_of(ns, a0));
    assert forall|a: AuthorId| #[trigger] h2.contains_key(a) <==> exists|i: int| 0 <= i < n + 1 && #[trigger] keys[i] == latest_key_of(ns, a) by {
        if h.contains_key(a) {
            let i = choose|i: int| 0 <= i < n && #[trigger] keys[i] == latest_key_of(ns, a);
            assert(0 <= i < n + 1 && keys[i] == latest_key_of(ns, a));
        }
        if exists|i: int| 0 <= i < n + 1 && #[trigger] keys[i] == latest_key_of(ns, a) {
            let i = choose|i: int| 0 <= i < n + 1 && #[trigger] keys[i] == latest_key_of(ns, a);
            if i == n {
                assert(a.0@ =~= a0.0@);
                assert(a.0 =~= a0.0);
            }
        }
    }
}

pub proof fn lemma_heads_complete(h: Map<AuthorId, u64>, keys: Seq<LatestKey>, rest: Seq<LatestItem>, t: Map<LatestKey, LatestVal>, ns: Seq<u8>)
    requires
        latest_iter_over(keys, rest, t, ns),
        heads_upto(h, keys, t, ns, keys.len() as int),
    ensures
        is_our_heads(h, t, ns)
{
    assert forall|a: AuthorId| #[trigger] h.contains_key(a) <==> t.contains_key(latest_key_of(ns, a)) by {
        let k = latest_key_of(ns, a);
        if h.contains_key(a) {
            let i = choose|i: int| 0 <= i < keys.len() && #[trigger] keys[i] == latest_key_of(ns, a);
            assert(keys.contains(k));
        }
        if t.contains_key(k) {
            assert(keys.contains(k));
            let i = choose|i: int| 0 <= i < keys.len() && keys[i] == k;
            assert(keys[i] == latest_key_of(ns, a));
        }
    }
}
