// ================= spec: byte strings, lexicographic order, prefix ranges (verified, not trusted) =================

pub open spec fn is_prefix(p: Seq<u8>, k: Seq<u8>) -> bool {
    p.len() <= k.len() && (forall|t: int| 0 <= t < p.len() ==> p[t] == k[t])
}

/// `i` is the position of the first difference deciding a < b (standard lexicographic order on byte strings,
/// which is the order of `<[u8] as Ord>` and of redb's `&[u8]` / `[u8; N]` keys)
pub open spec fn diff_at(a: Seq<u8>, b: Seq<u8>, i: int) -> bool {
    &&& 0 <= i <= a.len()
    &&& i <= b.len()
    &&& (forall|t: int| 0 <= t < i ==> a[t] == b[t])
    &&& ((i == a.len() && i < b.len()) || (i < a.len() && i < b.len() && a[i] < b[i]))
}

pub open spec fn lex_lt(a: Seq<u8>, b: Seq<u8>) -> bool {
    exists|i: int| diff_at(a, b, i)
}

pub open spec fn lex_le(a: Seq<u8>, b: Seq<u8>) -> bool {
    a =~= b || lex_lt(a, b)
}

pub open spec fn all_ff(a: Seq<u8>) -> bool {
    forall|t: int| 0 <= t < a.len() ==> a[t] == 255u8
}

pub open spec fn all_zero(a: Seq<u8>) -> bool {
    forall|t: int| 0 <= t < a.len() ==> a[t] == 0u8
}

/// what `increment_by_one` must compute: same-length big-endian +1; `r == false` iff every byte was 0xFF
/// (and then the result is all zero)
pub open spec fn incr_rel(old: Seq<u8>, new: Seq<u8>, r: bool) -> bool {
    &&& new.len() == old.len()
    &&& (r <==> !all_ff(old))
    &&& (!r ==> all_zero(new))
    &&& (r ==> exists|j: int| incr_at(old, new, j))
}

pub open spec fn incr_at(old: Seq<u8>, new: Seq<u8>, j: int) -> bool {
    &&& 0 <= j < old.len()
    &&& old[j] != 255u8
    &&& new[j] == old[j] + 1
    &&& (forall|t: int| 0 <= t < j ==> new[t] == old[t])
    &&& (forall|t: int| j < t < old.len() ==> old[t] == 255u8 && new[t] == 0u8)
}

pub proof fn lemma_lex_irrefl(a: Seq<u8>)
    ensures !lex_lt(a, a)
{
}

pub proof fn lemma_lex_asym(a: Seq<u8>, b: Seq<u8>)
    ensures !(lex_lt(a, b) && lex_lt(b, a))
{
    if lex_lt(a, b) && lex_lt(b, a) {
        let i = choose|i: int| diff_at(a, b, i);
        let j = choose|j: int| diff_at(b, a, j);
        if i < j {
            assert(b[i] == a[i]);
        } else if j < i {
            assert(a[j] == b[j]);
        }
    }
}

pub proof fn lemma_lex_le_antisym(a: Seq<u8>, b: Seq<u8>)
    requires lex_le(a, b), lex_le(b, a)
    ensures a =~= b
{
    lemma_lex_asym(a, b);
}

pub proof fn lemma_lex_trans(a: Seq<u8>, b: Seq<u8>, c: Seq<u8>)
    requires lex_lt(a, b), lex_lt(b, c)
    ensures lex_lt(a, c)
{
    let i = choose|i: int| diff_at(a, b, i);
    let j = choose|j: int| diff_at(b, c, j);
    if i <= j {
        assert(diff_at(a, c, i)) by {
            if i < j { assert(b[i] == c[i]); }
        }
    } else {
        assert(a[j] == b[j]);
        assert(diff_at(a, c, j));
    }
}

/// a prefix is <= every extension
pub proof fn lemma_prefix_le(p: Seq<u8>, k: Seq<u8>)
    requires is_prefix(p, k)
    ensures lex_le(p, k)
{
    if p.len() == k.len() {
        assert(p =~= k);
    } else {
        assert(diff_at(p, k, p.len() as int));
    }
}

/// nothing sorts below the empty string; the empty string is a prefix of everything
pub proof fn lemma_empty_min(k: Seq<u8>)
    ensures !lex_lt(k, Seq::<u8>::empty()), lex_le(Seq::<u8>::empty(), k), is_prefix(Seq::<u8>::empty(), k)
{
    if k.len() > 0 {
        assert(diff_at(Seq::<u8>::empty(), k, 0));
    } else {
        assert(k =~= Seq::<u8>::empty());
    }
}

/// an all-0xFF string p: p <= k  ==>  p is a prefix of k
pub proof fn lemma_allff_le_is_prefix(p: Seq<u8>, k: Seq<u8>)
    requires all_ff(p), lex_le(p, k)
    ensures is_prefix(p, k)
{
    if !(p =~= k) {
        let i = choose|i: int| diff_at(p, k, i);
        // p[i] < k[i] impossible since p[i] == 255
        assert(i == p.len());
    }
}

/// equal-length strings: a all-0xFF and a <= x  ==>  x == a
pub proof fn lemma_allff_max(a: Seq<u8>, x: Seq<u8>)
    requires all_ff(a), a.len() == x.len(), lex_le(a, x)
    ensures a =~= x
{
    lemma_allff_le_is_prefix(a, x);
}

/// equal-length strings: nothing lies strictly between a and a+1
pub proof fn lemma_incr_gap(a: Seq<u8>, a1: Seq<u8>, x: Seq<u8>)
    requires incr_rel(a, a1, true), x.len() == a.len(), lex_le(a, x), lex_lt(x, a1)
    ensures a =~= x
{
    let j = choose|j: int| incr_at(a, a1, j);
    if !(a =~= x) {
        let i = choose|i: int| diff_at(a, x, i);   // a[i] < x[i], i < len
        let m = choose|m: int| diff_at(x, a1, m);  // x[m] < a1[m], m < len
        assert(i < a.len());
        assert(m < a.len());
        if i < j {
            // a1[i] == a[i] < x[i]; x < a1 first differs at m
            if m < i { assert(a[m] == x[m]); assert(a1[m] == a[m]); }
            else if m == i { assert(a1[i] == a[i]); }
            else { assert(x[i] == a1[i]); assert(a1[i] == a[i]); }
        } else if i == j {
            // x[j] > a[j] so x[j] >= a[j]+1 == a1[j]
            if m < j { assert(a[m] == x[m]); assert(a1[m] == a[m]); }
            else if m == j { }
            else { assert(x[j] == a1[j]); assert(a1[m] == 0u8); }
        } else {
            // i > j: a[i] == 255, cannot be < x[i]
            assert(a[i] == 255u8);
        }
    }
}

/// and a < a+1
pub proof fn lemma_incr_lt(a: Seq<u8>, a1: Seq<u8>)
    requires incr_rel(a, a1, true)
    ensures lex_lt(a, a1)
{
    let j = choose|j: int| incr_at(a, a1, j);
    assert(diff_at(a, a1, j));
}

/// equal-length: nothing sorts below all-zero
pub proof fn lemma_allzero_min(z: Seq<u8>, x: Seq<u8>)
    requires all_zero(z), z.len() == x.len()
    ensures !lex_lt(x, z)
{
    if lex_lt(x, z) {
        let i = choose|i: int| diff_at(x, z, i);
        assert(z[i] == 0u8);
    }
}

/// The successor of a key prefix: `s` is `p` with its trailing 0xFF bytes removed and the last remaining byte
/// incremented. (`p` has a successor iff it is not all-0xFF.)
pub open spec fn is_succ(p: Seq<u8>, s: Seq<u8>) -> bool {
    &&& 1 <= s.len() <= p.len()
    &&& (forall|t: int| 0 <= t < s.len() - 1 ==> s[t] == p[t])
    &&& p[s.len() - 1] != 255u8
    &&& s[s.len() - 1] == p[s.len() - 1] + 1
    &&& (forall|t: int| s.len() <= t < p.len() ==> p[t] == 255u8)
}

/// L-prefix-range: p <= k < succ(p)  <==>  p is a prefix of k
pub proof fn lemma_prefix_range(p: Seq<u8>, s: Seq<u8>, k: Seq<u8>)
    requires is_succ(p, s)
    ensures (lex_le(p, k) && lex_lt(k, s)) <==> is_prefix(p, k)
{
    let q = s.len() - 1;
    if is_prefix(p, k) {
        lemma_prefix_le(p, k);
        assert(k[q] == p[q]);
        assert(diff_at(k, s, q));
    }
    if lex_le(p, k) && lex_lt(k, s) {
        let m = choose|m: int| diff_at(k, s, m);
        if p =~= k {
        } else {
            let i = choose|i: int| diff_at(p, k, i);
            // i is where p < k first differ
            if m < q {
                // k[m] < s[m] == p[m] or k ends at m
                if i < m { assert(k[i] == s[i]); }
                else if i == m { }
                else { assert(p[m] == k[m]); }
                assert(false);
            } else if m == q {
                // k[..q] == p[..q]; k[q] < p[q]+1 or k.len()==q
                if i < q { assert(k[i] == s[i]); assert(false); }
                if k.len() == q { assert(false); }
                // k[q] <= p[q]
                if i == q { assert(false); }
                // i > q: p[i] == 255 cannot be < k[i], so i == p.len(): prefix
                assert(k[q] == p[q]) by { assert(p[q] == k[q]); }
                if i < p.len() { assert(p[i] == 255u8); assert(false); }
            } else {
                assert(false);
            }
        }
    }
}

/// first index at which two strings differ (or the shorter length)
pub open spec fn first_diff(a: Seq<u8>, b: Seq<u8>, i: int) -> int
    decreases a.len() - i
{
    if i < 0 || i >= a.len() || i >= b.len() { i } else if a[i] != b[i] { i } else { first_diff(a, b, i + 1) }
}

pub proof fn lemma_first_diff(a: Seq<u8>, b: Seq<u8>, i: int)
    requires 0 <= i <= a.len(), i <= b.len(), forall|t: int| 0 <= t < i ==> a[t] == b[t]
    ensures ({ let d = first_diff(a, b, i);
        i <= d <= a.len() && d <= b.len() && (forall|t: int| 0 <= t < d ==> a[t] == b[t])
        && (d == a.len() || d == b.len() || a[d] != b[d]) })
    decreases a.len() - i
{
    if i >= a.len() || i >= b.len() { } else if a[i] != b[i] { } else { lemma_first_diff(a, b, i + 1); }
}

/// trichotomy
pub proof fn lemma_lex_total(a: Seq<u8>, b: Seq<u8>)
    ensures lex_lt(a, b) || a =~= b || lex_lt(b, a)
{
    lemma_first_diff(a, b, 0);
    let d = first_diff(a, b, 0);
    if d == a.len() && d == b.len() {
        assert(a =~= b);
    } else if d == a.len() {
        assert(diff_at(a, b, d));
    } else if d == b.len() {
        assert(diff_at(b, a, d));
    } else if a[d] < b[d] {
        assert(diff_at(a, b, d));
    } else {
        assert(diff_at(b, a, d));
    }
}
