// ================= spec: the namespace range of the latest-per-author table (verified) =================

/// for 32-byte components: (ns, 00..00) <= (n, a) <= (ns, ff..ff)  <==>  n == ns
pub proof fn lemma_latest_namespace_range(ns: Seq<u8>, lo: Seq<u8>, hi: Seq<u8>, k: LatestKey)
    requires ns.len() == 32, lo.len() == 32, hi.len() == 32, all_zero(lo), all_ff(hi), k.ns.len() == 32, k.author.len() == 32
    ensures latest_in_range(LatestKey { ns: ns, author: lo }, LatestKey { ns: ns, author: hi }, k) <==> k.ns =~= ns
{
    lemma_lex_asym(ns, k.ns);
    lemma_allzero_min(lo, k.author);
    lemma_lex_total(lo, k.author);
    lemma_lex_total(k.author, hi);
    if lex_lt(hi, k.author) { lemma_allff_max(hi, k.author); }
}

pub open spec fn latest_tbl_wf(t: Map<LatestKey, LatestVal>) -> bool {
    forall|k: LatestKey| #[trigger] t.contains_key(k) ==> k.ns.len() == 32 && k.author.len() == 32
}

/// the cursor stands on exactly the rows of namespace `ns` (ascending by author)
pub open spec fn latest_ns_keys(keys: Seq<LatestKey>, t: Map<LatestKey, LatestVal>, ns: Seq<u8>) -> bool {
    &&& (forall|k: LatestKey| #[trigger] keys.contains(k) <==> (t.contains_key(k) && k.ns =~= ns))
    &&& (forall|i: int, j: int| 0 <= i < j < keys.len() ==> latest_lt(#[trigger] keys[i], #[trigger] keys[j]))
}
