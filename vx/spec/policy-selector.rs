// ================= policy spec: the latest-per-key selector as a state machine, and what a whole run emits (verified) =================
// State: the pending entry (Option<EntryV>). One step = one `push`. `feed(p, s)` is the concatenation of everything
// emitted when the entries of `s` are pushed in order, followed by the final `push(None)`.

pub enum ResV { Finished, Continue, Some(EntryV) }

/// one `push(input)` with pending entry `p`: (new pending, result).
/// Ties: of two entries with the same key and the same timestamp the one pushed FIRST is kept (`>` in the code).
pub open spec fn sel_step(p: Option<EntryV>, input: Option<EntryV>) -> (Option<EntryV>, ResV) {
    match input {
        None => (None, match p { Some(x) => ResV::Some(x), None => ResV::Finished }),
        Some(e) => match p {
            None => (Some(e), ResV::Continue),
            Some(x) => if x.id.key =~= e.id.key {
                (Some(if e.val.ts > x.val.ts { e } else { x }), ResV::Continue)
            } else {
                (Some(e), ResV::Some(x))
            },
        },
    }
}

pub open spec fn emitted(r: ResV) -> Seq<EntryV> {
    match r { ResV::Some(x) => seq![x], _ => Seq::<EntryV>::empty() }
}

pub open spec fn feed(p: Option<EntryV>, s: Seq<EntryV>) -> Seq<EntryV>
    decreases s.len()
{
    if s.len() == 0 {
        emitted(sel_step(p, None).1)
    } else {
        let st = sel_step(p, Some(s[0]));
        emitted(st.1) + feed(st.0, s.drop_first())
    }
}

pub open spec fn pre(p: Option<EntryV>) -> Seq<EntryV> {
    match p { Some(x) => seq![x], None => Seq::<EntryV>::empty() }
}

/// equal keys are contiguous (what "pushed in key-sorted order" is needed for; holds for ascending and descending)
pub open spec fn grouped(t: Seq<EntryV>) -> bool {
    forall|i: int, j: int, k: int| #![trigger t[i], t[j], t[k]] 0 <= i < j < k < t.len() && t[i].id.key == t[k].id.key ==> t[j].id.key == t[i].id.key
}
pub open spec fn sorted_by_key(t: Seq<EntryV>) -> bool {
    forall|i: int, j: int| #![trigger t[i], t[j]] 0 <= i < j < t.len() ==> lex_le(t[i].id.key, t[j].id.key)
}
/// every emitted entry is one of the pushed entries
pub open spec fn is_from(x: EntryV, t: Seq<EntryV>) -> bool {
    exists|i: int| 0 <= i < t.len() && #[trigger] t[i] == x
}
pub open spec fn from_input(out: Seq<EntryV>, t: Seq<EntryV>) -> bool {
    forall|m: int| 0 <= m < out.len() ==> is_from(#[trigger] out[m], t)
}
/// no key is emitted twice
pub open spec fn keys_distinct(out: Seq<EntryV>) -> bool {
    forall|m: int, n: int| #![trigger out[m], out[n]] 0 <= m < n < out.len() ==> out[m].id.key != out[n].id.key
}
/// `o` has the key of `x` and a timestamp at least as great
pub open spec fn dominates(o: EntryV, x: EntryV) -> bool { o.id.key == x.id.key && o.val.ts >= x.val.ts }
pub open spec fn covered(x: EntryV, out: Seq<EntryV>) -> bool {
    exists|m: int| 0 <= m < out.len() && dominates(#[trigger] out[m], x)
}
/// for every pushed entry, an entry with its key and a timestamp at least as great is emitted
pub open spec fn covers_max(out: Seq<EntryV>, t: Seq<EntryV>) -> bool {
    forall|i: int| 0 <= i < t.len() ==> covered(#[trigger] t[i], out)
}

pub proof fn lemma_sorted_grouped(t: Seq<EntryV>)
    requires sorted_by_key(t)
    ensures grouped(t)
{
    assert forall|i: int, j: int, k: int| #![trigger t[i], t[j], t[k]] 0 <= i < j < k < t.len() && t[i].id.key == t[k].id.key implies t[j].id.key == t[i].id.key by {
        assert(lex_le(t[i].id.key, t[j].id.key));
        assert(lex_le(t[j].id.key, t[k].id.key));
        lemma_lex_le_antisym(t[i].id.key, t[j].id.key);
    }
}

/// removing one of the first two elements, or the first element, keeps equal keys contiguous
pub proof fn lemma_grouped_sub(t: Seq<EntryV>, t2: Seq<EntryV>, w_at: int)
    requires
        grouped(t), t.len() >= 1, t2.len() == t.len() - 1, 0 <= w_at <= 1,
        t2.len() > 0 ==> t2[0] == t[w_at],
        forall|i: int| 1 <= i < t2.len() ==> #[trigger] t2[i] == t[i + 1],
    ensures grouped(t2)
{
    assert forall|i: int, j: int, k: int| #![trigger t2[i], t2[j], t2[k]] 0 <= i < j < k < t2.len() && t2[i].id.key == t2[k].id.key implies t2[j].id.key == t2[i].id.key by {
        let fi = if i == 0 { w_at } else { i + 1 };
        assert(t2[i] == t[fi] && t2[j] == t[j + 1] && t2[k] == t[k + 1]);
        assert(fi < j + 1 < k + 1);
        assert(t[fi].id.key == t[k + 1].id.key ==> t[j + 1].id.key == t[fi].id.key);
    }
}

/// step "same key": t = [x, e] + rest with x.key == e.key; t2 = [w] + rest where w = t[w_at] is the one kept
pub proof fn lemma_case_same(t: Seq<EntryV>, t2: Seq<EntryV>, out: Seq<EntryV>, w_at: int)
    requires
        t.len() >= 2, t2.len() == t.len() - 1, 0 <= w_at <= 1,
        t2[0] == t[w_at],
        forall|i: int| 1 <= i < t2.len() ==> #[trigger] t2[i] == t[i + 1],
        t[0].id.key == t[1].id.key, t[w_at].val.ts >= t[0].val.ts, t[w_at].val.ts >= t[1].val.ts,
        from_input(out, t2), covers_max(out, t2),
    ensures from_input(out, t), covers_max(out, t)
{
    assert forall|m: int| 0 <= m < out.len() implies is_from(#[trigger] out[m], t) by {
        assert(is_from(out[m], t2));
        let i2 = choose|i2: int| 0 <= i2 < t2.len() && #[trigger] t2[i2] == out[m];
        let fi = if i2 == 0 { w_at } else { i2 + 1 };
        assert(t[fi] == out[m]);
    }
    assert forall|i: int| 0 <= i < t.len() implies covered(#[trigger] t[i], out) by {
        let i2 = if i <= 1 { 0 } else { i - 1 };
        assert(dominates(t2[i2], t[i]));
        assert(covered(t2[i2], out));
        let m = choose|m: int| 0 <= m < out.len() && dominates(#[trigger] out[m], t2[i2]);
        assert(dominates(out[m], t[i]));
    }
}

/// in a grouped sequence whose first two keys differ, the first key does not occur again
pub proof fn lemma_grouped_head(t: Seq<EntryV>)
    requires grouped(t), t.len() >= 2, t[0].id.key != t[1].id.key
    ensures forall|k: int| 1 <= k < t.len() ==> (#[trigger] t[k]).id.key != t[0].id.key
{
    assert forall|k: int| 1 <= k < t.len() implies (#[trigger] t[k]).id.key != t[0].id.key by {
        if k > 1 {
            assert(t[0].id.key == t[k].id.key ==> t[1].id.key == t[0].id.key);
        }
    }
}

/// step "new key": t = [x, e] + rest with x.key != e.key; x is emitted, then the outputs `out2` for t.drop_first()
pub proof fn lemma_case_new_from(t: Seq<EntryV>, out2: Seq<EntryV>, out: Seq<EntryV>)
    requires t.len() >= 2, out == seq![t[0]] + out2, from_input(out2, t.drop_first()),
    ensures from_input(out, t)
{
    let t2 = t.drop_first();
    assert forall|m: int| 0 <= m < out.len() implies is_from(#[trigger] out[m], t) by {
        if m == 0 {
            assert(t[0] == out[0]);
        } else {
            assert(out[m] == out2[m - 1]);
            assert(is_from(out2[m - 1], t2));
            let i2 = choose|i2: int| 0 <= i2 < t2.len() && #[trigger] t2[i2] == out2[m - 1];
            assert(t2[i2] == t[i2 + 1]);
        }
    }
}

pub proof fn lemma_case_new_distinct(t: Seq<EntryV>, out2: Seq<EntryV>, out: Seq<EntryV>)
    requires
        t.len() >= 2,
        forall|k: int| 1 <= k < t.len() ==> (#[trigger] t[k]).id.key != t[0].id.key,
        out == seq![t[0]] + out2,
        from_input(out2, t.drop_first()), keys_distinct(out2),
    ensures keys_distinct(out)
{
    let t2 = t.drop_first();
    assert forall|m: int, n: int| #![trigger out[m], out[n]] 0 <= m < n < out.len() implies out[m].id.key != out[n].id.key by {
        assert(out[n] == out2[n - 1]);
        if m == 0 {
            assert(out[0] == t[0]);
            assert(is_from(out2[n - 1], t2));
            let i2 = choose|i2: int| 0 <= i2 < t2.len() && #[trigger] t2[i2] == out2[n - 1];
            assert(t2[i2] == t[i2 + 1]);
            assert(t[i2 + 1].id.key != t[0].id.key);
        } else {
            assert(out[m] == out2[m - 1]);
        }
    }
}

pub proof fn lemma_case_new_covers(t: Seq<EntryV>, out2: Seq<EntryV>, out: Seq<EntryV>)
    requires t.len() >= 2, out == seq![t[0]] + out2, covers_max(out2, t.drop_first()),
    ensures covers_max(out, t)
{
    let t2 = t.drop_first();
    assert forall|i: int| 0 <= i < t.len() implies covered(#[trigger] t[i], out) by {
        if i == 0 {
            assert(out[0] == t[0]);
            assert(dominates(out[0], t[0]));
        } else {
            assert(t[i] == t2[i - 1]);
            assert(covered(t2[i - 1], out2));
            let m2 = choose|m2: int| 0 <= m2 < out2.len() && dominates(#[trigger] out2[m2], t2[i - 1]);
            assert(out[m2 + 1] == out2[m2]);
            assert(dominates(out[m2 + 1], t[i]));
        }
    }
}

/// generalised over the pending entry: T = pre(p) + s is what has been / will be pushed
pub proof fn lemma_feed(p: Option<EntryV>, s: Seq<EntryV>)
    requires grouped(pre(p) + s)
    ensures
        from_input(feed(p, s), pre(p) + s),
        keys_distinct(feed(p, s)),
        covers_max(feed(p, s), pre(p) + s),
    decreases s.len()
{
    let t = pre(p) + s;
    let out = feed(p, s);
    if s.len() == 0 {
        match p {
            Some(x) => {
                assert(out =~= seq![x]);
                assert(t =~= seq![x]);
                assert(t[0] == out[0]);
                assert(dominates(out[0], t[0]));
            }
            None => {
                assert(out =~= Seq::<EntryV>::empty());
                assert(t =~= Seq::<EntryV>::empty());
            }
        }
    } else {
        let e = s[0];
        let rest = s.drop_first();
        match p {
            None => {
                // pending := e, nothing emitted; T unchanged
                assert(pre(Some(e)) + rest =~= t);
                lemma_feed(Some(e), rest);
                assert(out =~= feed(Some(e), rest));
            }
            Some(x) => {
                assert(t[0] == x && t[1] == e);
                if x.id.key =~= e.id.key {
                    let w = if e.val.ts > x.val.ts { e } else { x };
                    let w_at: int = if e.val.ts > x.val.ts { 1 } else { 0 };
                    let t2 = pre(Some(w)) + rest;
                    assert(out =~= feed(Some(w), rest));
                    assert(t2[0] == t[w_at]);
                    assert forall|i: int| 1 <= i < t2.len() implies #[trigger] t2[i] == t[i + 1] by {}
                    lemma_grouped_sub(t, t2, w_at);
                    lemma_feed(Some(w), rest);
                    lemma_case_same(t, t2, out, w_at);
                } else {
                    // x is emitted, pending := e
                    let t2 = pre(Some(e)) + rest;
                    let out2 = feed(Some(e), rest);
                    assert(t2 =~= t.drop_first());
                    assert(out =~= seq![x] + out2);
                    assert forall|i: int| 1 <= i < t2.len() implies #[trigger] t2[i] == t[i + 1] by {}
                    lemma_grouped_sub(t, t2, 1);
                    lemma_feed(Some(e), rest);
                    lemma_grouped_head(t);
                    lemma_case_new_from(t, out2, out);
                    lemma_case_new_distinct(t, out2, out);
                    lemma_case_new_covers(t, out2, out);
                }
            }
        }
    }
}

/// The whole run: pushing a key-grouped (e.g. key-sorted) sequence and then `None`, starting from an empty selector,
/// emits only pushed entries, no key twice, and for every pushed entry one with the same key and a timestamp at
/// least as great - i.e. exactly one entry per distinct key, carrying that key's maximal timestamp.
pub proof fn lemma_selector_run(s: Seq<EntryV>)
    requires grouped(s)
    ensures
        from_input(feed(None, s), s),
        keys_distinct(feed(None, s)),
        covers_max(feed(None, s), s),
{
    assert(pre(None) + s =~= s);
    lemma_feed(None, s);
}
