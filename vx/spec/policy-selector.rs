// ================= policy spec: the latest-per-key selector as a state machine, and what a whole run emits (verified) =================
// State: the pending entry (Option<EntryV>). One step = one `push`. `feed(p, s)` is the concatenation of everything
// emitted when the entries of `s` are pushed in order, followed by the final `push(None)`.

pub enum ResV { Finished, Continue, Some(EntryV) }

/// one `push(input)` with pending entry `p`: (new pending, result).
/// Ties: of two entries with the same key and the same timestamp the one pushed FIRST is kept (`>` in the code).
pub open spec fn sel_step(p: Option<EntryV>, input: Option<EntryV>) -> (Option<EntryV>, ResV) {
    match input {
        None => (None, match p { Some(x) => ResV::Some(x), None => ResV::Finished }),
        Some(e) => match p {
            None => (Some(e), ResV::Continue),
            Some(x) => if x.id.key =~= e.id.key {
                (Some(if e.val.ts > x.val.ts { e } else { x }), ResV::Continue)
            } else {
                (Some(e), ResV::Some(x))
            },
        },
    }
}

pub open spec fn emitted(r: ResV) -> Seq<EntryV> {
    match r { ResV::Some(x) => seq![x], _ => Seq::<EntryV>::empty() }
}

pub open spec fn feed(p: Option<EntryV>, s: Seq<EntryV>) -> Seq<EntryV>
    decreases s.len()
{
    if s.len() == 0 {
        emitted(sel_step(p, None).1)
    } else {
        let st = sel_step(p, Some(s[0]));
        emitted(st.1) + feed(st.0, s.drop_first())
    }
}

pub open spec fn pre(p: Option<EntryV>) -> Seq<EntryV> {
    match p { Some(x) => seq![x], None => Seq::<EntryV>::empty() }
}

/// equal keys are contiguous (what "pushed in key-sorted order" is needed for; holds for ascending and descending)
pub open spec fn grouped(t: Seq<EntryV>) -> bool {
    forall|i: int, j: int, k: int| #![trigger t[i], t[j], t[k]] 0 <= i < j < k < t.len() && t[i].id.key == t[k].id.key ==> t[j].id.key == t[i].id.key
}
pub open spec fn sorted_by_key(t: Seq<EntryV>) -> bool {
    forall|i: int, j: int| #![trigger t[i], t[j]] 0 <= i < j < t.len() ==> lex_le(t[i].id.key, t[j].id.key)
}
/// every emitted entry is one of the pushed entries
pub open spec fn from_input(out: Seq<EntryV>, t: Seq<EntryV>) -> bool {
    forall|m: int| 0 <= m < out.len() ==> exists|i: int| 0 <= i < t.len() && #[trigger] out[m] == #[trigger] t[i]
}
/// no key is emitted twice
pub open spec fn keys_distinct(out: Seq<EntryV>) -> bool {
    forall|m: int, n: int| #![trigger out[m], out[n]] 0 <= m < n < out.len() ==> out[m].id.key != out[n].id.key
}
/// for every pushed entry, an entry with its key and a timestamp at least as great is emitted
pub open spec fn covers_max(out: Seq<EntryV>, t: Seq<EntryV>) -> bool {
    forall|i: int| 0 <= i < t.len() ==> exists|m: int| 0 <= m < out.len() && (#[trigger] out[m]).id.key == (#[trigger] t[i]).id.key && out[m].val.ts >= t[i].val.ts
}

pub proof fn lemma_sorted_grouped(t: Seq<EntryV>)
    requires sorted_by_key(t)
    ensures grouped(t)
{
    assert forall|i: int, j: int, k: int| #![trigger t[i], t[j], t[k]] 0 <= i < j < k < t.len() && t[i].id.key == t[k].id.key implies t[j].id.key == t[i].id.key by {
        assert(lex_le(t[i].id.key, t[j].id.key));
        assert(lex_le(t[j].id.key, t[k].id.key));
        lemma_lex_le_antisym(t[i].id.key, t[j].id.key);
    }
}

/// generalised over the pending entry: T = pre(p) + s is what has been / will be pushed
pub proof fn lemma_feed(p: Option<EntryV>, s: Seq<EntryV>)
    requires grouped(pre(p) + s)
    ensures
        from_input(feed(p, s), pre(p) + s),
        keys_distinct(feed(p, s)),
        covers_max(feed(p, s), pre(p) + s),
    decreases s.len()
{
    let t = pre(p) + s;
    let out = feed(p, s);
    if s.len() == 0 {
        match p {
            Some(x) => {
                assert(out =~= seq![x]);
                assert(t =~= seq![x]);
                assert(out[0] == t[0]);
            }
            None => {
                assert(out =~= Seq::<EntryV>::empty());
                assert(t =~= Seq::<EntryV>::empty());
            }
        }
    } else {
        let e = s[0];
        let rest = s.drop_first();
        match p {
            None => {
                // pending := e, nothing emitted; T unchanged
                let t2 = pre(Some(e)) + rest;
                assert(t2 =~= t);
                lemma_feed(Some(e), rest);
                assert(out =~= feed(Some(e), rest));
            }
            Some(x) => {
                assert(t[0] == x && t[1] == e);
                assert forall|i: int| 2 <= i < t.len() implies t[i] == rest[i - 2] by {}
                if x.id.key == e.id.key {
                    let w = if e.val.ts > x.val.ts { e } else { x };
                    let t2 = pre(Some(w)) + rest;
                    let out2 = feed(Some(w), rest);
                    assert(out =~= out2);
                    assert(t2[0] == w);
                    assert forall|i: int| 1 <= i < t2.len() implies t2[i] == t[i + 1] by {}
                    let w_at: int = if e.val.ts > x.val.ts { 1 } else { 0 };
                    assert(t2[0] == t[w_at]);
                    // grouped(t2): t2 is t without one of its first two elements
                    assert forall|i: int, j: int, k: int| #![trigger t2[i], t2[j], t2[k]] 0 <= i < j < k < t2.len() && t2[i].id.key == t2[k].id.key implies t2[j].id.key == t2[i].id.key by {
                        let fi = if i == 0 { w_at } else { i + 1 };
                        assert(t2[i] == t[fi] && t2[j] == t[j + 1] && t2[k] == t[k + 1]);
                        assert(fi < j + 1 < k + 1);
                    }
                    lemma_feed(Some(w), rest);
                    assert forall|m: int| 0 <= m < out.len() implies exists|i: int| 0 <= i < t.len() && #[trigger] out[m] == #[trigger] t[i] by {
                        let i2 = choose|i2: int| 0 <= i2 < t2.len() && out2[m] == t2[i2];
                        let fi = if i2 == 0 { w_at } else { i2 + 1 };
                        assert(out[m] == t[fi]);
                    }
                    assert forall|i: int| 0 <= i < t.len() implies exists|m: int| 0 <= m < out.len() && (#[trigger] out[m]).id.key == (#[trigger] t[i]).id.key && out[m].val.ts >= t[i].val.ts by {
                        let i2 = if i <= 1 { 0 } else { i - 1 };
                        assert(t2[i2].id.key == t[i].id.key && t2[i2].val.ts >= t[i].val.ts);
                        let m = choose|m: int| 0 <= m < out2.len() && out2[m].id.key == t2[i2].id.key && out2[m].val.ts >= t2[i2].val.ts;
                        assert(out[m].id.key == t[i].id.key && out[m].val.ts >= t[i].val.ts);
                    }
                } else {
                    // x is emitted, pending := e
                    let t2 = pre(Some(e)) + rest;
                    let out2 = feed(Some(e), rest);
                    assert(out =~= seq![x] + out2);
                    assert(out[0] == x);
                    assert forall|m: int| 1 <= m < out.len() implies out[m] == out2[m - 1] by {}
                    assert forall|i: int| 0 <= i < t2.len() implies t2[i] == t[i + 1] by {}
                    assert forall|i: int, j: int, k: int| #![trigger t2[i], t2[j], t2[k]] 0 <= i < j < k < t2.len() && t2[i].id.key == t2[k].id.key implies t2[j].id.key == t2[i].id.key by {
                        assert(t2[i] == t[i + 1] && t2[j] == t[j + 1] && t2[k] == t[k + 1]);
                    }
                    lemma_feed(Some(e), rest);
                    assert forall|m: int| 0 <= m < out.len() implies exists|i: int| 0 <= i < t.len() && #[trigger] out[m] == #[trigger] t[i] by {
                        if m == 0 {
                            assert(out[0] == t[0]);
                        } else {
                            let i2 = choose|i2: int| 0 <= i2 < t2.len() && out2[m - 1] == t2[i2];
                            assert(out[m] == t[i2 + 1]);
                        }
                    }
                    assert forall|m: int, n: int| #![trigger out[m], out[n]] 0 <= m < n < out.len() implies out[m].id.key != out[n].id.key by {
                        if m == 0 {
                            let i2 = choose|i2: int| 0 <= i2 < t2.len() && out2[n - 1] == t2[i2];
                            assert(out[n] == t[i2 + 1]);
                            if out[n].id.key == x.id.key {
                                if i2 + 1 > 1 {
                                    // grouped(t) at (0, 1, i2+1) forces e.key == x.key
                                    assert(t[0].id.key == t[i2 + 1].id.key);
                                    assert(t[1].id.key == t[0].id.key);
                                }
                                assert(false);
                            }
                        } else {
                            assert(out[m] == out2[m - 1] && out[n] == out2[n - 1]);
                        }
                    }
                    assert forall|i: int| 0 <= i < t.len() implies exists|m: int| 0 <= m < out.len() && (#[trigger] out[m]).id.key == (#[trigger] t[i]).id.key && out[m].val.ts >= t[i].val.ts by {
                        if i == 0 {
                            assert(out[0].id.key == t[0].id.key && out[0].val.ts >= t[0].val.ts);
                        } else {
                            assert(t[i] == t2[i - 1]);
                            let m2 = choose|m2: int| 0 <= m2 < out2.len() && out2[m2].id.key == t2[i - 1].id.key && out2[m2].val.ts >= t2[i - 1].val.ts;
                            assert(out[m2 + 1] == out2[m2]);
                            assert(out[m2 + 1].id.key == t[i].id.key && out[m2 + 1].val.ts >= t[i].val.ts);
                        }
                    }
                }
            }
        }
    }
}

/// The whole run: pushing a key-grouped (e.g. key-sorted) sequence and then `None`, starting from an empty selector,
/// emits only pushed entries, no key twice, and for every pushed entry one with the same key and a timestamp at
/// least as great - i.e. exactly one entry per distinct key, carrying that key's maximal timestamp.
pub proof fn lemma_selector_run(s: Seq<EntryV>)
    requires grouped(s)
    ensures
        from_input(feed(None, s), s),
        keys_distinct(feed(None, s)),
        covers_max(feed(None, s), s),
{
    assert(pre(None) + s =~= s);
    lemma_feed(None, s);
}
