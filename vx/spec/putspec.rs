// ================= spec: the per-call specification of an insert, as proved for the real `put` in unit U-store =================
// These definitions restate, as pure functions, exactly the postcondition clauses of `ranger::Store::put` in
// vx/units/U-store.vt (labels put.*): `dominated`, `pruned` are the same predicates; `put_spec` is the new records
// table; `head_spec` the new per-author head (label store.entry_put.head-is-max).

/// abstract entry value compared by the newest-wins rule: (timestamp, hash bytes)
pub struct Val { pub ts: u64, pub hash: Seq<u8> }

pub open spec fn val_lt(a: Val, b: Val) -> bool { a.ts < b.ts || (a.ts == b.ts && lex_lt(a.hash, b.hash)) }
/// a <= b  (not b < a); the order is total on values whose hashes are byte strings
pub open spec fn val_le(a: Val, b: Val) -> bool { !val_lt(b, a) }

/// an entry of one namespace: (author, key) -> value
pub struct Ent { pub author: Seq<u8>, pub key: Seq<u8>, pub val: Val }
pub struct Slot { pub author: Seq<u8>, pub key: Seq<u8> }
pub open spec fn slot_of(e: Ent) -> Slot { Slot { author: e.author, key: e.key } }

/// replica state of one namespace: slot -> value
pub type Rep = Map<Slot, Val>;

/// some entry of the same author at the key or at a prefix of it is not older than `e`
pub open spec fn dominated_in(r: Rep, e: Ent) -> bool {
    exists|p: Seq<u8>| #![trigger is_prefix(p, e.key)] is_prefix(p, e.key)
        && r.contains_key(Slot { author: e.author, key: p })
        && val_le(e.val, r[Slot { author: e.author, key: p }])
}
/// the rows an insert of `e` prunes: same author, key starts with e's key, not newer than e
pub open spec fn pruned_by(r: Rep, e: Ent, k: Slot) -> bool {
    r.contains_key(k) && k.author == e.author && is_prefix(e.key, k.key) && val_le(r[k], e.val)
}
/// the replica after offering `e` (what `put` does to the records of the namespace)
pub open spec fn put_spec(r: Rep, e: Ent) -> Rep {
    if dominated_in(r, e) { r }
    else { Map::new(r.dom().filter(|k: Slot| !pruned_by(r, e, k)).insert(slot_of(e)), |k: Slot| if k == slot_of(e) { e.val } else { r[k] }) }
}
/// offering a sequence of entries one after the other
pub open spec fn put_all(r: Rep, s: Seq<Ent>) -> Rep
    decreases s.len()
{
    if s.len() == 0 { r } else { put_spec(put_all(r, s.drop_last()), s.last()) }
}

/// per-author heads: author -> greatest timestamp written so far; updated on every *stored* entry
pub type Heads = Map<Seq<u8>, u64>;
pub open spec fn head_spec(h: Heads, r: Rep, e: Ent) -> Heads {
    if dominated_in(r, e) { h }
    else if h.contains_key(e.author) && h[e.author] > e.val.ts { h }
    else { h.insert(e.author, e.val.ts) }
}
