// ================= spec: the contract of the real `put` (unit U-store) refines the abstract `put_spec` / `head_spec` of spec/putspec.rs =================
// Included by U-store only (uses its `dominated`, `pruned`, RecId, RecVal, LatestKey, LatestVal). The lemmas are called from the derived-contract
// check `put__shellcheck` (//@shellcheck prelude/put_shell.rs), whose hypotheses are the verified postcondition of `put`, copied by the tool.
// (projections: spec/put_proj.rs)
proof fn lemma_put_dominated_agrees(r0: Map<RecId, RecVal>, e: EntryV)
    ensures dominated(r0, e) <==> dominated_in(proj(r0, e.id.ns), ent_of_entry(e))
{
    let ns = e.id.ns;
    let a0 = proj(r0, ns);
    let ee = ent_of_entry(e);
    assert forall|s: Slot| #[trigger] a0.contains_key(s) <==> r0.contains_key(RecId { ns: ns, author: s.author, key: s.key }) by { lemma_proj_dom(r0, ns, s); }
    // dominated <==> dominated_in
    if dominated(r0, e) {
        let p = choose|p: Seq<u8>| #![trigger is_prefix(p, e.id.key)] is_prefix(p, e.id.key)
            && r0.contains_key(RecId { ns: e.id.ns, author: e.id.author, key: p })
            && vle(rec_of(e.val), rec_of(r0[RecId { ns: e.id.ns, author: e.id.author, key: p }]));
        assert(is_prefix(p, ee.key) && a0.contains_key(Slot { author: ee.author, key: p }) && val_le(ee.val, a0[Slot { author: ee.author, key: p }]));
        assert(dominated_in(a0, ee));
    }
    if dominated_in(a0, ee) {
        let p = choose|p: Seq<u8>| #![trigger is_prefix(p, ee.key)] is_prefix(p, ee.key)
            && a0.contains_key(Slot { author: ee.author, key: p }) && val_le(ee.val, a0[Slot { author: ee.author, key: p }]);
        assert(is_prefix(p, e.id.key) && r0.contains_key(RecId { ns: e.id.ns, author: e.id.author, key: p })
            && vle(rec_of(e.val), rec_of(r0[RecId { ns: e.id.ns, author: e.id.author, key: p }])));
        assert(dominated(r0, e));
    }
}
/// the postcondition clauses of `put` over the records table say exactly `put_spec` on the namespace of the entry, and nothing on any other
proof fn lemma_put_is_put_spec(r0: Map<RecId, RecVal>, r1: Map<RecId, RecVal>, e: EntryV, inserted: bool)
    requires
        !inserted ==> dominated(r0, e) && r1 == r0,
        inserted ==> !dominated(r0, e),
        inserted ==> (forall|k: RecId| #[trigger] r1.contains_key(k) <==> (k == e.id || (r0.contains_key(k) && !pruned(r0, e, k)))),
        inserted ==> r1[e.id] == e.val && (forall|k: RecId| k != e.id && #[trigger] r1.contains_key(k) ==> r1[k] == r0[k]),
    ensures
        proj(r1, e.id.ns) =~= put_spec(proj(r0, e.id.ns), ent_of_entry(e)),
        forall|ns2: Seq<u8>| ns2 != e.id.ns ==> #[trigger] proj(r1, ns2) =~= proj(r0, ns2),
{
    let ns = e.id.ns;
    let a0 = proj(r0, ns);
    let ee = ent_of_entry(e);
    assert forall|n: Seq<u8>, s: Slot| #[trigger] proj(r0, n).contains_key(s) <==> r0.contains_key(RecId { ns: n, author: s.author, key: s.key }) by { lemma_proj_dom(r0, n, s); }
    assert forall|n: Seq<u8>, s: Slot| #[trigger] proj(r1, n).contains_key(s) <==> r1.contains_key(RecId { ns: n, author: s.author, key: s.key }) by { lemma_proj_dom(r1, n, s); }
    lemma_put_dominated_agrees(r0, e);
    if inserted {
        let a1 = proj(r1, ns);
        let want = put_spec(a0, ee);
        assert forall|s: Slot| a1.contains_key(s) <==> want.contains_key(s) by {
            let k = RecId { ns: ns, author: s.author, key: s.key };
            assert(pruned(r0, e, k) <==> pruned_by(a0, ee, s));
            assert(k == e.id <==> s == slot_of(ee));
        }
        assert forall|s: Slot| a1.contains_key(s) implies a1[s] == want[s] by {
            let k = RecId { ns: ns, author: s.author, key: s.key };
            assert(k == e.id <==> s == slot_of(ee));
        }
        assert(a1 =~= want);
        assert forall|ns2: Seq<u8>| ns2 != e.id.ns implies #[trigger] proj(r1, ns2) =~= proj(r0, ns2) by {
            assert forall|s: Slot| proj(r1, ns2).contains_key(s) <==> proj(r0, ns2).contains_key(s) by {
                let k = RecId { ns: ns2, author: s.author, key: s.key };
                assert(k != e.id);
                assert(!pruned(r0, e, k));
            }
        }
    }
}

/// the head clause of `entry_put` (store.entry_put.head-is-max) says exactly `head_spec` on the namespace of the entry
proof fn lemma_heads_is_head_spec(l0: Map<LatestKey, LatestVal>, l2: Map<LatestKey, LatestVal>, r0: Map<RecId, RecVal>, e: EntryV, inserted: bool)
    requires
        !inserted ==> dominated(r0, e) && l2 == l0,
        inserted ==> !dominated(r0, e),
        inserted ==> ({
            let k = LatestKey { ns: e.id.ns, author: e.id.author };
            &&& l2.contains_key(k)
            &&& l2[k].ts == (if l0.contains_key(k) && l0[k].ts > e.val.ts { l0[k].ts } else { e.val.ts })
            &&& (forall|k2: LatestKey| #![trigger l2.contains_key(k2)] k2 != k ==> (l2.contains_key(k2) == l0.contains_key(k2) && (l0.contains_key(k2) ==> l2[k2] == l0[k2])))
        }),
    ensures
        hproj(l2, e.id.ns) =~= head_spec(hproj(l0, e.id.ns), proj(r0, e.id.ns), ent_of_entry(e)),
{
    let ns = e.id.ns;
    let ee = ent_of_entry(e);
    lemma_put_dominated_agrees(r0, e);
    assert forall|a: Seq<u8>| #[trigger] hproj(l0, ns).contains_key(a) <==> l0.contains_key(LatestKey { ns: ns, author: a }) by { lemma_hproj_dom(l0, ns, a); }
    assert forall|a: Seq<u8>| #[trigger] hproj(l2, ns).contains_key(a) <==> l2.contains_key(LatestKey { ns: ns, author: a }) by { lemma_hproj_dom(l2, ns, a); }
    if inserted {
        let h0 = hproj(l0, ns);
        let h2 = hproj(l2, ns);
        let want = head_spec(h0, proj(r0, ns), ee);
        let k = LatestKey { ns: ns, author: e.id.author };
        assert(!dominated_in(proj(r0, ns), ee));
        assert(want == (if h0.contains_key(ee.author) && h0[ee.author] > ee.val.ts { h0 } else { h0.insert(ee.author, ee.val.ts) }));
        assert forall|a: Seq<u8>| h2.contains_key(a) <==> want.contains_key(a) by {
            let ka = LatestKey { ns: ns, author: a };
            assert(ka == k <==> a == e.id.author);
            assert(h2.contains_key(a) <==> l2.contains_key(ka));
            assert(h0.contains_key(a) <==> l0.contains_key(ka));
            if a == e.id.author { assert(want.contains_key(a)); assert(h2.contains_key(a)); }
            else { assert(want.contains_key(a) <==> h0.contains_key(a)); assert(ka != k); assert(l2.contains_key(ka) == l0.contains_key(ka)); }
        }
        assert forall|a: Seq<u8>| h2.contains_key(a) implies h2[a] == want[a] by {
            let ka = LatestKey { ns: ns, author: a };
            assert(ka == k <==> a == e.id.author);
        }
        assert(h2 =~= want);
    }
}

