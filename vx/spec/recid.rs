// ================= spec: record ids and table key order (verified) =================
/// key of the records table: (namespace, author, key); redb orders tuples component-wise (A-redb-1)
pub struct RecId { pub ns: Seq<u8>, pub author: Seq<u8>, pub key: Seq<u8> }

impl RecId {
    pub open spec fn wf(self) -> bool { self.ns.len() == 32 && self.author.len() == 32 }
}

pub open spec fn rec_lt(a: RecId, b: RecId) -> bool {
    lex_lt(a.ns, b.ns) || (a.ns =~= b.ns && (lex_lt(a.author, b.author) || (a.author =~= b.author && lex_lt(a.key, b.key))))
}
pub open spec fn rec_eq(a: RecId, b: RecId) -> bool { a.ns =~= b.ns && a.author =~= b.author && a.key =~= b.key }
pub open spec fn rec_le(a: RecId, b: RecId) -> bool { rec_eq(a, b) || rec_lt(a, b) }

/// key of the by-key index table: (namespace, key, author)
pub struct ByKeyId { pub ns: Seq<u8>, pub key: Seq<u8>, pub author: Seq<u8> }
impl ByKeyId {
    pub open spec fn wf(self) -> bool { self.ns.len() == 32 && self.author.len() == 32 }
}
pub open spec fn bk_lt(a: ByKeyId, b: ByKeyId) -> bool {
    lex_lt(a.ns, b.ns) || (a.ns =~= b.ns && (lex_lt(a.key, b.key) || (a.key =~= b.key && lex_lt(a.author, b.author))))
}
pub open spec fn bk_eq(a: ByKeyId, b: ByKeyId) -> bool { a.ns =~= b.ns && a.author =~= b.author && a.key =~= b.key }
pub open spec fn bk_le(a: ByKeyId, b: ByKeyId) -> bool { bk_eq(a, b) || bk_lt(a, b) }

pub open spec fn owned_rec(t: ([u8; 32], [u8; 32], Bytes)) -> RecId { RecId { ns: t.0@, author: t.1@, key: t.2@ } }
pub open spec fn owned_bk(t: ([u8; 32], Bytes, [u8; 32])) -> ByKeyId { ByKeyId { ns: t.0@, key: t.1@, author: t.2@ } }

pub open spec fn rec_lower_ok(b: std::ops::Bound<([u8; 32], [u8; 32], Bytes)>, id: RecId) -> bool {
    match b {
        std::ops::Bound::Included(s) => rec_le(owned_rec(s), id),
        std::ops::Bound::Excluded(s) => rec_lt(owned_rec(s), id),
        std::ops::Bound::Unbounded => true,
    }
}
pub open spec fn rec_upper_ok(b: std::ops::Bound<([u8; 32], [u8; 32], Bytes)>, id: RecId) -> bool {
    match b {
        std::ops::Bound::Included(s) => rec_le(id, owned_rec(s)),
        std::ops::Bound::Excluded(s) => rec_lt(id, owned_rec(s)),
        std::ops::Bound::Unbounded => true,
    }
}
pub open spec fn bk_lower_ok(b: std::ops::Bound<([u8; 32], Bytes, [u8; 32])>, id: ByKeyId) -> bool {
    match b {
        std::ops::Bound::Included(s) => bk_le(owned_bk(s), id),
        std::ops::Bound::Excluded(s) => bk_lt(owned_bk(s), id),
        std::ops::Bound::Unbounded => true,
    }
}
pub open spec fn bk_upper_ok(b: std::ops::Bound<([u8; 32], Bytes, [u8; 32])>, id: ByKeyId) -> bool {
    match b {
        std::ops::Bound::Included(s) => bk_le(id, owned_bk(s)),
        std::ops::Bound::Excluded(s) => bk_lt(id, owned_bk(s)),
        std::ops::Bound::Unbounded => true,
    }
}

pub proof fn lemma_rec_lt_asym(a: RecId, b: RecId)
    ensures !(rec_lt(a, b) && rec_lt(b, a)), !(rec_lt(a, b) && rec_eq(a, b)), !(rec_lt(a, b) && rec_eq(b, a))
{
    lemma_lex_asym(a.ns, b.ns); lemma_lex_asym(a.author, b.author); lemma_lex_asym(a.key, b.key);
    lemma_lex_irrefl(a.ns); lemma_lex_irrefl(a.author); lemma_lex_irrefl(a.key);
}

pub proof fn lemma_rec_lt_trans(a: RecId, b: RecId, c: RecId)
    requires rec_lt(a, b), rec_lt(b, c)
    ensures rec_lt(a, c)
{
    if lex_lt(a.ns, b.ns) && lex_lt(b.ns, c.ns) { lemma_lex_trans(a.ns, b.ns, c.ns); }
    if lex_lt(a.author, b.author) && lex_lt(b.author, c.author) { lemma_lex_trans(a.author, b.author, c.author); }
    if lex_lt(a.key, b.key) && lex_lt(b.key, c.key) { lemma_lex_trans(a.key, b.key, c.key); }
}
