// ================= spec (peers, part 3): L-mru - a history of registrations with increasing clock readings =================
// `regs[i] = (nanos_i, p_i)` is the i-th successful registration for one document, `states[i]` the document's peer set
// before it; `states[0]` is empty (a new document has no peers) and consecutive states are related by `reg_step`
// (the contract `peers.register.exact-step` of register_useful_peer). A-clock: the readings strictly increase.

pub open spec fn regs_increasing(regs: Seq<PeerRow>) -> bool {
    forall|i: int, j: int| 0 <= i < j < regs.len() ==> (#[trigger] regs[i]).0 < (#[trigger] regs[j]).0
}

pub open spec fn history_ok(regs: Seq<PeerRow>, states: Seq<Set<PeerRow>>) -> bool {
    &&& states.len() == regs.len() + 1
    &&& states[0] =~= Set::<PeerRow>::empty()
    &&& (forall|i: int| 0 <= i < regs.len() ==> reg_step(#[trigger] states[i], states[i + 1], regs[i].0, regs[i].1))
}

/// registration `i` is the last one of its peer among the first `k` registrations
pub open spec fn is_last_upto(regs: Seq<PeerRow>, k: int, i: int) -> bool {
    0 <= i < k && (forall|m: int| i < m < k ==> (#[trigger] regs[m]).1 != regs[i].1)
}

/// the set after `k` registrations holds exactly the (up to) five latest last-registrations
pub open spec fn mru_inv(regs: Seq<PeerRow>, k: int, set: Set<PeerRow>) -> bool {
    &&& peers_inv(set)
    &&& (forall|e: PeerRow| #[trigger] set.contains(e) ==> exists|i: int| #[trigger] is_last_upto(regs, k, i) && regs[i] == e)
    &&& (forall|i: int| #[trigger] is_last_upto(regs, k, i) && !set.contains(regs[i]) ==> set.len() >= 5 && (forall|e: PeerRow| #[trigger] set.contains(e) ==> regs[i].0 < e.0))
}

/// `l` is the list of the five most recently registered distinct peers, most recent first:
/// `idx[a]` is the registration that put `l[a]` there - the last registration of that peer; later positions are
/// earlier registrations; any peer whose last registration is missing was registered before all listed ones and the list is full.
pub open spec fn is_mru_list(l: Seq<Seq<u8>>, regs: Seq<PeerRow>, idx: Seq<int>) -> bool {
    &&& l.len() <= 5
    &&& idx.len() == l.len()
    &&& (forall|a: int| 0 <= a < l.len() ==> is_last_upto(regs, regs.len() as int, #[trigger] idx[a]) && regs[idx[a]].1 == l[a])
    &&& (forall|a: int, b: int| 0 <= a < b < l.len() ==> (#[trigger] idx[a]) > (#[trigger] idx[b]))
    &&& (forall|i: int| #[trigger] is_last_upto(regs, regs.len() as int, i) && (forall|a: int| 0 <= a < l.len() ==> (#[trigger] idx[a]) != i)
            ==> l.len() == 5 && (forall|a: int| 0 <= a < l.len() ==> i < #[trigger] idx[a]))
}

pub proof fn lemma_mru_step(regs: Seq<PeerRow>, k: int, old: Set<PeerRow>, new: Set<PeerRow>)
    requires
        0 <= k < regs.len(), regs_increasing(regs),
        mru_inv(regs, k, old),
        reg_step(old, new, regs[k].0, regs[k].1),
    ensures
        clock_fresh(old, regs[k].0), //# peers.mru.increasing-clock-is-fresh
        mru_inv(regs, k + 1, new), //# peers.mru.step-keeps-characterization
{
    let row = regs[k];
    let p = row.1;
    assert(row == (row.0, row.1));
    assert forall|e: PeerRow| #[trigger] old.contains(e) implies e.0 < row.0 by {
        let i = choose|i: int| #[trigger] is_last_upto(regs, k, i) && regs[i] == e;
        assert(regs[i].0 < regs[k].0);
    }
    lemma_step_facts(old, new, row.0, p);
    assert forall|e: PeerRow| #[trigger] new.contains(e) implies exists|i: int| #[trigger] is_last_upto(regs, k + 1, i) && regs[i] == e by {
        if e == row {
            assert(is_last_upto(regs, k + 1, k));
        } else {
            assert(old.contains(e) && e.1 != p);
            let i = choose|i: int| #[trigger] is_last_upto(regs, k, i) && regs[i] == e;
            assert(is_last_upto(regs, k + 1, i));
        }
    }
    assert forall|i: int| #[trigger] is_last_upto(regs, k + 1, i) && !new.contains(regs[i]) implies new.len() >= 5 && (forall|e: PeerRow| #[trigger] new.contains(e) ==> regs[i].0 < e.0) by {
        assert(i != k);
        assert(regs[k].1 != regs[i].1);
        assert(is_last_upto(regs, k, i));
        let x = regs[i];
        if !old.contains(x) {
            assert(old.len() >= 5);
            assert forall|e: PeerRow| #[trigger] new.contains(e) implies x.0 < e.0 by {
                if e == row { assert(regs[i].0 < regs[k].0); } else { assert(old.contains(e)); }
            }
        } else {
            // x was evicted: it was the oldest row of a full set and p is new
            assert(is_oldest(old, x) && old.len() >= 5 && !has_peer(old, p));
            assert forall|e: PeerRow| #[trigger] new.contains(e) implies x.0 < e.0 by {
                if e == row { assert(regs[i].0 < regs[k].0); }
                else {
                    assert(old.contains(e));
                    assert(peer_row_le(x, e));
                    let m = choose|m: int| #[trigger] is_last_upto(regs, k, m) && regs[m] == e;
                    if m < i { assert(regs[m].0 < regs[i].0); }
                    if i < m { assert(regs[i].0 < regs[m].0); }
                    lemma_lex_irrefl(x.1);
                }
            }
        }
    }
}

/// L-mru, set level: after any history with increasing clock readings the invariant and the characterization hold
pub proof fn lemma_mru_history(regs: Seq<PeerRow>, states: Seq<Set<PeerRow>>, k: int)
    requires regs_increasing(regs), history_ok(regs, states), 0 <= k <= regs.len()
    ensures mru_inv(regs, k, states[k]) //# peers.mru.history-characterization
    decreases k
{
    if k == 0 {
        assert(states[0].len() == 0);
    } else {
        lemma_mru_history(regs, states, k - 1);
        lemma_mru_step(regs, k - 1, states[k - 1], states[k]);
    }
}

/// L-mru, list level: the list read by get_sync_peers after the history is the five most recently registered
/// distinct peers, most recent first
pub proof fn lemma_mru_list(regs: Seq<PeerRow>, states: Seq<Set<PeerRow>>)
    requires regs_increasing(regs), history_ok(regs, states)
    ensures exists|idx: Seq<int>| is_mru_list(peer_list(states[regs.len() as int]), regs, idx) //# peers.mru.list-is-five-most-recent-distinct
{
    let k = regs.len() as int;
    let set = states[k];
    lemma_mru_history(regs, states, k);
    lemma_listing_exists(set);
    let s = choose|s: Seq<PeerRow>| peers_listing(s, set);
    lemma_peer_list_of(s, set);
    lemma_listing_no_dup(s, set);
    let n = s.len() as int;
    let l = mrf(s);
    let idx = Seq::new(n as nat, |a: int| choose|i: int| #[trigger] is_last_upto(regs, k, i) && regs[i] == s[n - 1 - a]);
    assert forall|a: int| 0 <= a < n implies is_last_upto(regs, k, #[trigger] idx[a]) && regs[idx[a]] == s[n - 1 - a] by {
        assert(set.contains(s[n - 1 - a]));
    }
    assert forall|a: int, b: int| 0 <= a < b < n implies (#[trigger] idx[a]) > (#[trigger] idx[b]) by {
        let ia = idx[a]; let ib = idx[b];
        assert(peer_row_lt(s[n - 1 - b], s[n - 1 - a]));
        lemma_lex_irrefl(regs[ia].1);
        if ia < ib { assert(regs[ia].0 < regs[ib].0); }
    }
    assert forall|i: int| #[trigger] is_last_upto(regs, k, i) && (forall|a: int| 0 <= a < n ==> (#[trigger] idx[a]) != i)
        implies n == 5 && (forall|a: int| 0 <= a < n ==> i < #[trigger] idx[a]) by {
        if set.contains(regs[i]) {
            let j = choose|j: int| 0 <= j < n && s[j] == regs[i];
            let a = n - 1 - j;
            assert(regs[idx[a]] == regs[i]);
            if idx[a] < i { assert(regs[idx[a]].0 < regs[i].0); }
            if i < idx[a] { assert(regs[i].0 < regs[idx[a]].0); }
            assert(idx[a] == i);
        }
        assert(!set.contains(regs[i]));
        assert forall|a: int| 0 <= a < n implies i < #[trigger] idx[a] by {
            assert(set.contains(s[n - 1 - a]));
            assert(regs[i].0 < regs[idx[a]].0);
            if idx[a] < i { assert(regs[idx[a]].0 < regs[i].0); }
        }
    }
    assert(is_mru_list(l, regs, idx));
}
