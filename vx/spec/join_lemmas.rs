// ================= lemmas: the replica state is an order-independent function of the entries offered (C02),
// ================= and the per-author head is the greatest stored timestamp (C13). Pure Verus, verified, not trusted.
// Everything here is about the definitions of spec/putspec.rs (Val, Ent, Slot, Rep, dominated_in, pruned_by,
// put_spec, put_all, Heads, head_spec), which are not changed.

// ---------------------------------------------------------------------------------------------------------------
// the value order (timestamp, hash) is a strict total order on ALL values (lex_lt is total on all byte strings,
// so no length-32 side condition on the hashes is needed)
// ---------------------------------------------------------------------------------------------------------------

pub proof fn lemma_val_lt_irrefl(a: Val)
    ensures !val_lt(a, a), val_le(a, a)
{
    lemma_lex_irrefl(a.hash);
}

pub proof fn lemma_val_lt_asym(a: Val, b: Val)
    ensures !(val_lt(a, b) && val_lt(b, a))
{
    lemma_lex_asym(a.hash, b.hash);
}

pub proof fn lemma_val_lt_trans(a: Val, b: Val, c: Val)
    requires val_lt(a, b), val_lt(b, c)
    ensures val_lt(a, c)
{
    if a.ts == b.ts && b.ts == c.ts {
        lemma_lex_trans(a.hash, b.hash, c.hash);
    }
}

pub proof fn lemma_val_total(a: Val, b: Val)
    ensures val_lt(a, b) || a == b || val_lt(b, a)
{
    lemma_lex_total(a.hash, b.hash);
    if a.ts == b.ts && a.hash =~= b.hash {
        assert(a == b);
    }
}

/// a < b ==> a <= b
pub proof fn lemma_val_lt_le(a: Val, b: Val)
    requires val_lt(a, b)
    ensures val_le(a, b)
{
    lemma_val_lt_asym(a, b);
}

pub proof fn lemma_val_le_trans(a: Val, b: Val, c: Val)
    requires val_le(a, b), val_le(b, c)
    ensures val_le(a, c)
{
    if val_lt(c, a) {
        lemma_val_total(a, b);
        if a == b {
        } else {
            // a < b (since !(b < a)), c < a  ==> c < b, contradiction with b <= c
            lemma_val_lt_trans(c, a, b);
        }
    }
}

pub proof fn lemma_val_le_antisym(a: Val, b: Val)
    requires val_le(a, b), val_le(b, a)
    ensures a == b
{
    lemma_val_total(a, b);
}

// ---------------------------------------------------------------------------------------------------------------
// prefixes
// ---------------------------------------------------------------------------------------------------------------

pub proof fn lemma_prefix_refl(a: Seq<u8>)
    ensures is_prefix(a, a)
{
}

pub proof fn lemma_prefix_trans(a: Seq<u8>, b: Seq<u8>, c: Seq<u8>)
    requires is_prefix(a, b), is_prefix(b, c)
    ensures is_prefix(a, c)
{
    assert forall|t: int| 0 <= t < a.len() implies a[t] == c[t] by {
        assert(a[t] == b[t]);
        assert(b[t] == c[t]);
    }
}

pub proof fn lemma_prefix_antisym(a: Seq<u8>, b: Seq<u8>)
    requires is_prefix(a, b), is_prefix(b, a)
    ensures a == b
{
    assert(a =~= b);
}

// ---------------------------------------------------------------------------------------------------------------
// domination between entries: `p` dominates `e` = same author, p's key is a prefix of e's key (or equal), and
// e is not newer than p. This is the relation behind `dominated_in` and `pruned_by`. It is a partial order.
// ---------------------------------------------------------------------------------------------------------------

pub open spec fn dom(p: Ent, e: Ent) -> bool {
    p.author == e.author && is_prefix(p.key, e.key) && val_le(e.val, p.val)
}

pub open spec fn ent_of(k: Slot, v: Val) -> Ent {
    Ent { author: k.author, key: k.key, val: v }
}

pub proof fn lemma_dom_refl(e: Ent)
    ensures dom(e, e)
{
    lemma_val_lt_irrefl(e.val);
}

pub proof fn lemma_dom_trans(a: Ent, b: Ent, c: Ent)
    requires dom(a, b), dom(b, c)
    ensures dom(a, c)
{
    lemma_prefix_trans(a.key, b.key, c.key);
    lemma_val_le_trans(c.val, b.val, a.val);
}

pub proof fn lemma_dom_antisym(a: Ent, b: Ent)
    requires dom(a, b), dom(b, a)
    ensures a == b
{
    lemma_prefix_antisym(a.key, b.key);
    lemma_val_le_antisym(a.val, b.val);
}

/// `dominated_in` in terms of `dom`: introduction
pub proof fn lemma_dominated_intro(r: Rep, e: Ent, k: Slot)
    requires r.contains_key(k), dom(ent_of(k, r[k]), e)
    ensures dominated_in(r, e)
{
    assert(is_prefix(k.key, e.key));
    assert(Slot { author: e.author, key: k.key } == k);
}

/// the slot witnessing `dominated_in`
pub open spec fn dominator(r: Rep, e: Ent) -> Slot {
    Slot { author: e.author, key: choose|p: Seq<u8>| #![trigger is_prefix(p, e.key)] is_prefix(p, e.key)
        && r.contains_key(Slot { author: e.author, key: p })
        && val_le(e.val, r[Slot { author: e.author, key: p }]) }
}

/// `dominated_in` in terms of `dom`: elimination
pub proof fn lemma_dominated_elim(r: Rep, e: Ent)
    requires dominated_in(r, e)
    ensures r.contains_key(dominator(r, e)), dom(ent_of(dominator(r, e), r[dominator(r, e)]), e)
{
}

/// `pruned_by` in terms of `dom`
pub proof fn lemma_pruned_is_dom(r: Rep, e: Ent, k: Slot)
    ensures pruned_by(r, e, k) <==> (r.contains_key(k) && dom(e, ent_of(k, r[k])))
{
}

/// The only place where the body of `put_spec` is unfolded: what `put_spec` does, key by key (these are exactly the
/// clauses put.rejected-entry-changes-nothing, put.prunes-exactly-the-older-entries-below-the-key and
/// put.writes-the-entry-keeps-other-rows of unit U-store). Every lemma below uses put_spec only through this.
pub proof fn lemma_put_spec_def(r: Rep, e: Ent)
    ensures
        dominated_in(r, e) ==> put_spec(r, e) == r,
        !dominated_in(r, e) ==> (forall|k: Slot| #![trigger put_spec(r, e).contains_key(k)]
            put_spec(r, e).contains_key(k) <==> (k == slot_of(e) || (r.contains_key(k) && !pruned_by(r, e, k)))),
        !dominated_in(r, e) ==> put_spec(r, e).contains_key(slot_of(e)) && put_spec(r, e)[slot_of(e)] == e.val,
        !dominated_in(r, e) ==> (forall|k: Slot| #![trigger put_spec(r, e).contains_key(k)]
            put_spec(r, e).contains_key(k) && k != slot_of(e) ==> put_spec(r, e)[k] == r[k]),
{
}

// ---------------------------------------------------------------------------------------------------------------
// (L-join-1) the antichain invariant: no stored entry is dominated by another stored entry, i.e. an entry stored
// at a proper prefix key of the same author is strictly OLDER than every entry stored below it.
// ---------------------------------------------------------------------------------------------------------------

pub open spec fn antichain(r: Rep) -> bool {
    forall|a: Slot, b: Slot| #![trigger r.contains_key(a), r.contains_key(b)]
        r.contains_key(a) && r.contains_key(b) && a != b && a.author == b.author && is_prefix(a.key, b.key)
        ==> !val_le(r[b], r[a])
}

pub proof fn lemma_antichain_empty()
    ensures antichain(Map::<Slot, Val>::empty())
{
}

pub proof fn lemma_put_preserves_antichain(r: Rep, e: Ent)
    requires antichain(r)
    ensures antichain(put_spec(r, e))
{
    let r2 = put_spec(r, e);
    lemma_put_spec_def(r, e);
    if !dominated_in(r, e) {
        let se = slot_of(e);
        assert forall|a: Slot, b: Slot| #![trigger r2.contains_key(a), r2.contains_key(b)] r2.contains_key(a) && r2.contains_key(b) && a != b && a.author == b.author
            && is_prefix(a.key, b.key) implies !val_le(r2[b], r2[a]) by {
            if a == se {
                // b survived the pruning although it lies below e: it is strictly newer than e
                assert(r.contains_key(b) && !pruned_by(r, e, b));
            } else if b == se {
                // a is stored at a prefix of e's key and did not dominate e
                assert(r.contains_key(a));
                if val_le(e.val, r[a]) {
                    lemma_dominated_intro(r, e, a);
                }
            } else {
                assert(r.contains_key(a) && r.contains_key(b));
            }
        }
    }
}

pub proof fn lemma_put_all_preserves_antichain(r: Rep, s: Seq<Ent>)
    requires antichain(r)
    ensures antichain(put_all(r, s))
    decreases s.len()
{
    if s.len() > 0 {
        lemma_put_all_preserves_antichain(r, s.drop_last());
        lemma_put_preserves_antichain(put_all(r, s.drop_last()), s.last());
    }
}

/// L-join-1: every state reachable from the empty replica is an antichain
pub proof fn theorem_reachable_antichain(s: Seq<Ent>)
    ensures antichain(put_all(Map::<Slot, Val>::empty(), s))
{
    lemma_antichain_empty();
    lemma_put_all_preserves_antichain(Map::<Slot, Val>::empty(), s);
}

// ---------------------------------------------------------------------------------------------------------------
// (a) idempotence (for every r, no invariant needed)
// ---------------------------------------------------------------------------------------------------------------

pub proof fn lemma_put_idempotent(r: Rep, e: Ent)
    ensures put_spec(put_spec(r, e), e) == put_spec(r, e)
{
    if !dominated_in(r, e) {
        let r2 = put_spec(r, e);
        lemma_put_spec_def(r, e);
        lemma_dom_refl(e);
        assert(r2.contains_key(slot_of(e)) && r2[slot_of(e)] == e.val);
        assert(ent_of(slot_of(e), e.val) == e);
        lemma_dominated_intro(r2, e, slot_of(e));
    }
}

// ---------------------------------------------------------------------------------------------------------------
// (L-join-2) held-set characterisation.
// `wins(x, e)`: e was offered and no OTHER offered entry dominates it. Entries are identified by
// (author, key, val); for p.author == e.author, `p != e` is `(p.key, p.val) != (e.key, e.val)`.
// ---------------------------------------------------------------------------------------------------------------

pub open spec fn wins(x: Set<Ent>, e: Ent) -> bool {
    x.contains(e) && (forall|p: Ent| #![trigger x.contains(p)] x.contains(p) && dom(p, e) ==> p == e)
}

/// `wins` is the definition given in the property statement, literally: e was offered and there is no offered p
/// with the same author, at a prefix key, with (p.key, p.val) != (e.key, e.val), that is not older than e
pub open spec fn wins_literal(x: Set<Ent>, e: Ent) -> bool {
    x.contains(e) && !(exists|p: Ent| #![trigger x.contains(p)] x.contains(p) && p.author == e.author
        && is_prefix(p.key, e.key) && !(p.key == e.key && p.val == e.val) && val_le(e.val, p.val))
}

pub proof fn lemma_wins_is_literal(x: Set<Ent>, e: Ent)
    ensures wins(x, e) <==> wins_literal(x, e)
{
    if wins(x, e) && !wins_literal(x, e) {
        let p = choose|p: Ent| #![trigger x.contains(p)] x.contains(p) && p.author == e.author
            && is_prefix(p.key, e.key) && !(p.key == e.key && p.val == e.val) && val_le(e.val, p.val);
        assert(x.contains(p) && dom(p, e));
    }
    if wins_literal(x, e) && !wins(x, e) {
        let p = choose|p: Ent| #![trigger x.contains(p)] x.contains(p) && dom(p, e) && p != e;
        assert(x.contains(p) && p.author == e.author && is_prefix(p.key, e.key) && val_le(e.val, p.val));
    }
}

/// every stored row is a winner of x
pub open spec fn rep_sound(r: Rep, x: Set<Ent>) -> bool {
    forall|k: Slot| #![trigger r.contains_key(k)] r.contains_key(k) ==> wins(x, ent_of(k, r[k]))
}
/// every winner of x is stored
pub open spec fn rep_complete(r: Rep, x: Set<Ent>) -> bool {
    forall|e: Ent| #![trigger wins(x, e)] wins(x, e) ==> r.contains_key(slot_of(e)) && r[slot_of(e)] == e.val
}
/// every offered entry is dominated by a stored row (auxiliary inductive invariant; with rep_sound it says that
/// every offered entry is dominated by a winner - this replaces a well-foundedness argument over finite sets)
pub open spec fn rep_covers(r: Rep, x: Set<Ent>) -> bool {
    forall|e: Ent| #![trigger x.contains(e)] x.contains(e) ==> dominated_in(r, e)
}
/// r is exactly the set of winners of x
pub open spec fn represents(r: Rep, x: Set<Ent>) -> bool {
    rep_sound(r, x) && rep_complete(r, x) && rep_covers(r, x)
}

/// two winners at the same slot are the same entry (so "slot -> val of the winner" is well defined)
pub proof fn lemma_winner_unique(x: Set<Ent>, e1: Ent, e2: Ent)
    requires wins(x, e1), wins(x, e2), slot_of(e1) == slot_of(e2)
    ensures e1 == e2
{
    lemma_prefix_refl(e1.key);
    lemma_val_total(e1.val, e2.val);
    if val_lt(e1.val, e2.val) {
        lemma_val_lt_le(e1.val, e2.val);
        assert(dom(e2, e1));
    } else if val_lt(e2.val, e1.val) {
        lemma_val_lt_le(e2.val, e1.val);
        assert(dom(e1, e2));
    }
}

// ---- step, case 1: e is dominated by a stored row; the state does not change ----

proof fn lemma_step_dominated(r: Rep, x: Set<Ent>, e: Ent)
    requires represents(r, x), dominated_in(r, e)
    ensures represents(r, x.insert(e))
{
    let x2 = x.insert(e);
    lemma_dominated_elim(r, e);
    let q = dominator(r, e);
    let w = ent_of(q, r[q]);
    assert(wins(x, w));
    assert(x2.contains(w));
    assert forall|k: Slot| #[trigger] r.contains_key(k) implies wins(x2, ent_of(k, r[k])) by {
        let f = ent_of(k, r[k]);
        assert(wins(x, f));
        assert forall|p: Ent| #[trigger] x2.contains(p) && dom(p, f) implies p == f by {
            if p == e && !x.contains(p) {
                lemma_dom_trans(w, e, f);
                assert(x.contains(w));
                assert(w == f);
                lemma_dom_antisym(e, f);
            } else {
                assert(x.contains(p));
            }
        }
    }
    assert forall|g: Ent| #[trigger] wins(x2, g) implies r.contains_key(slot_of(g)) && r[slot_of(g)] == g.val by {
        if x.contains(g) {
            assert forall|p: Ent| #[trigger] x.contains(p) && dom(p, g) implies p == g by {
                assert(x2.contains(p));
            }
            assert(wins(x, g));
        } else {
            assert(g == e);
            assert(w == e);
        }
    }
    assert forall|p: Ent| #[trigger] x2.contains(p) implies dominated_in(r, p) by {
        if p != e { assert(x.contains(p)); }
    }
}

// ---- step, case 2: e is stored; rows dominated by e are pruned ----

proof fn lemma_step_fresh_sound(r: Rep, x: Set<Ent>, e: Ent)
    requires represents(r, x), !dominated_in(r, e)
    ensures rep_sound(put_spec(r, e), x.insert(e))
{
    let x2 = x.insert(e);
    let r2 = put_spec(r, e);
    lemma_put_spec_def(r, e);
    assert forall|k: Slot| #[trigger] r2.contains_key(k) implies wins(x2, ent_of(k, r2[k])) by {
        if k == slot_of(e) {
            assert(ent_of(k, r2[k]) == e);
            assert forall|p: Ent| #[trigger] x2.contains(p) && dom(p, e) implies p == e by {
                if p != e {
                    assert(x.contains(p));
                    assert(dominated_in(r, p));
                    lemma_dominated_elim(r, p);
                    let q = dominator(r, p);
                    lemma_dom_trans(ent_of(q, r[q]), p, e);
                    lemma_dominated_intro(r, e, q);
                }
            }
        } else {
            assert(r.contains_key(k) && !pruned_by(r, e, k));
            let f = ent_of(k, r[k]);
            assert(r2[k] == r[k]);
            assert(wins(x, f));
            assert forall|p: Ent| #[trigger] x2.contains(p) && dom(p, f) implies p == f by {
                if x.contains(p) {
                } else {
                    assert(p == e);
                    lemma_pruned_is_dom(r, e, k);
                }
            }
        }
    }
}

proof fn lemma_step_fresh_complete(r: Rep, x: Set<Ent>, e: Ent)
    requires represents(r, x), !dominated_in(r, e)
    ensures rep_complete(put_spec(r, e), x.insert(e))
{
    let x2 = x.insert(e);
    let r2 = put_spec(r, e);
    lemma_put_spec_def(r, e);
    assert forall|g: Ent| #[trigger] wins(x2, g) implies r2.contains_key(slot_of(g)) && r2[slot_of(g)] == g.val by {
        if g != e {
            assert(x.contains(g));
            assert forall|p: Ent| #[trigger] x.contains(p) && dom(p, g) implies p == g by {
                assert(x2.contains(p));
            }
            assert(wins(x, g));
            let k = slot_of(g);
            assert(r.contains_key(k) && r[k] == g.val);
            assert(ent_of(k, r[k]) == g);
            assert(x2.contains(e));
            if k == slot_of(e) {
                // e does not dominate g (g wins in x2), so g is newer than e and dominates it: contradiction
                lemma_prefix_refl(e.key);
                assert(!dom(e, g));
                assert(val_lt(e.val, g.val));
                lemma_val_lt_le(e.val, g.val);
                lemma_dominated_intro(r, e, k);
            } else {
                lemma_pruned_is_dom(r, e, k);
                assert(!dom(e, g));
            }
        }
    }
}

proof fn lemma_step_fresh_covers(r: Rep, x: Set<Ent>, e: Ent)
    requires represents(r, x), !dominated_in(r, e)
    ensures rep_covers(put_spec(r, e), x.insert(e))
{
    let x2 = x.insert(e);
    let r2 = put_spec(r, e);
    lemma_put_spec_def(r, e);
    let se = slot_of(e);
    assert(r2.contains_key(se) && r2[se] == e.val);
    assert(ent_of(se, e.val) == e);
    assert forall|p: Ent| #[trigger] x2.contains(p) implies dominated_in(r2, p) by {
        if p == e {
            lemma_dom_refl(e);
            lemma_dominated_intro(r2, e, se);
        } else {
            assert(x.contains(p));
            assert(dominated_in(r, p));
            lemma_dominated_elim(r, p);
            let q = dominator(r, p);
            let w = ent_of(q, r[q]);
            if q == se {
                // the old row at e's slot is strictly older than e (else it would dominate e)
                lemma_prefix_refl(e.key);
                if val_le(e.val, r[q]) {
                    lemma_dominated_intro(r, e, q);
                }
                lemma_val_lt_le(r[q], e.val);
                lemma_val_le_trans(p.val, r[q], e.val);
                lemma_dominated_intro(r2, p, se);
            } else if pruned_by(r, e, q) {
                lemma_pruned_is_dom(r, e, q);
                lemma_dom_trans(e, w, p);
                lemma_dominated_intro(r2, p, se);
            } else {
                assert(r2.contains_key(q) && r2[q] == r[q]);
                lemma_dominated_intro(r2, p, q);
            }
        }
    }
}

/// the induction step: offering e turns "the winners of x" into "the winners of x + {e}"
pub proof fn lemma_put_step(r: Rep, x: Set<Ent>, e: Ent)
    requires represents(r, x)
    ensures represents(put_spec(r, e), x.insert(e))
{
    lemma_put_spec_def(r, e);
    if dominated_in(r, e) {
        lemma_step_dominated(r, x, e);
    } else {
        lemma_step_fresh_sound(r, x, e);
        lemma_step_fresh_complete(r, x, e);
        lemma_step_fresh_covers(r, x, e);
    }
}

pub proof fn lemma_to_set_push(s: Seq<Ent>)
    requires s.len() > 0
    ensures s.to_set() =~= s.drop_last().to_set().insert(s.last())
{
    let d = s.drop_last();
    let x2 = d.to_set().insert(s.last());
    assert forall|e: Ent| #![trigger x2.contains(e)] s.to_set().contains(e) <==> x2.contains(e) by {
        if s.to_set().contains(e) {
            assert(s.contains(e));
            let i = choose|i: int| 0 <= i < s.len() && s[i] == e;
            if i < s.len() - 1 {
                assert(d[i] == e);
                assert(d.contains(e));
            }
        }
        if x2.contains(e) {
            if e == s.last() {
                assert(s[s.len() - 1] == e);
                assert(s.contains(e));
            } else {
                assert(d.contains(e));
                let i = choose|i: int| 0 <= i < d.len() && d[i] == e;
                assert(s[i] == e);
                assert(s.contains(e));
            }
        }
    }
}

/// offering a sequence: from the winners of x0 to the winners of x0 + set(s)
pub proof fn lemma_put_all_represents_from(r0: Rep, x0: Set<Ent>, s: Seq<Ent>)
    requires represents(r0, x0)
    ensures represents(put_all(r0, s), x0.union(s.to_set()))
    decreases s.len()
{
    if s.len() == 0 {
        assert(forall|e: Ent| !s.contains(e));
        assert(x0.union(s.to_set()) =~= x0);
    } else {
        let d = s.drop_last();
        lemma_put_all_represents_from(r0, x0, d);
        lemma_put_step(put_all(r0, d), x0.union(d.to_set()), s.last());
        lemma_to_set_push(s);
        assert(x0.union(s.to_set()) =~= x0.union(d.to_set()).insert(s.last()));
    }
}

pub proof fn lemma_represents_empty()
    ensures represents(Map::<Slot, Val>::empty(), Set::<Ent>::empty())
{
}

/// L-join-2 (relational form): after offering the entries of s (any order, any repetitions) to the empty replica,
/// the replica holds exactly slot_of(e) -> e.val for the winners e of the SET s.to_set().
pub proof fn theorem_put_all_represents(s: Seq<Ent>)
    ensures
        represents(put_all(Map::<Slot, Val>::empty(), s), s.to_set()),
        // spelled out:
        forall|k: Slot| #![trigger put_all(Map::<Slot, Val>::empty(), s).contains_key(k)]
            put_all(Map::<Slot, Val>::empty(), s).contains_key(k)
            ==> wins(s.to_set(), ent_of(k, put_all(Map::<Slot, Val>::empty(), s)[k])),
        forall|e: Ent| #![trigger wins(s.to_set(), e)] wins(s.to_set(), e)
            ==> put_all(Map::<Slot, Val>::empty(), s).contains_key(slot_of(e))
                && put_all(Map::<Slot, Val>::empty(), s)[slot_of(e)] == e.val,
{
    lemma_represents_empty();
    lemma_put_all_represents_from(Map::<Slot, Val>::empty(), Set::<Ent>::empty(), s);
    assert(Set::<Ent>::empty().union(s.to_set()) =~= s.to_set());
}

/// a set of offered entries determines the replica: two replicas holding exactly the winners of x are equal
pub proof fn lemma_represents_unique(r1: Rep, r2: Rep, x: Set<Ent>)
    requires rep_sound(r1, x), rep_complete(r1, x), rep_sound(r2, x), rep_complete(r2, x)
    ensures r1 == r2
{
    assert forall|k: Slot| #[trigger] r1.contains_key(k) implies r2.contains_key(k) && r2[k] == r1[k] by {
        let f = ent_of(k, r1[k]);
        assert(wins(x, f));
        assert(slot_of(f) == k);
    }
    assert forall|k: Slot| #[trigger] r2.contains_key(k) implies r1.contains_key(k) by {
        let f = ent_of(k, r2[k]);
        assert(wins(x, f));
        assert(slot_of(f) == k);
    }
    assert(r1 =~= r2);
}

/// the replica as an explicit function of the set of offered entries
pub open spec fn winners(x: Set<Ent>) -> Set<Ent> {
    x.filter(|e: Ent| wins(x, e))
}
pub open spec fn held(x: Set<Ent>) -> Rep {
    Map::new(winners(x).map(|e: Ent| slot_of(e)), |k: Slot| choose|v: Val| #![trigger wins(x, ent_of(k, v))] wins(x, ent_of(k, v)))
}

pub proof fn lemma_held_dom(x: Set<Ent>, k: Slot)
    ensures held(x).contains_key(k) <==> (exists|v: Val| #![trigger wins(x, ent_of(k, v))] wins(x, ent_of(k, v)))
{
    let d = winners(x).map(|e: Ent| slot_of(e));
    if d.contains(k) {
        let e = choose|e: Ent| #![trigger winners(x).contains(e)] winners(x).contains(e) && slot_of(e) == k;
        assert(winners(x).contains(e) && slot_of(e) == k);
        assert(ent_of(k, e.val) == e);
        assert(wins(x, ent_of(k, e.val)));
    }
    if exists|v: Val| #![trigger wins(x, ent_of(k, v))] wins(x, ent_of(k, v)) {
        let v = choose|v: Val| #![trigger wins(x, ent_of(k, v))] wins(x, ent_of(k, v));
        let e = ent_of(k, v);
        assert(winners(x).contains(e) && slot_of(e) == k);
        assert(d.contains(k));
    }
}

pub proof fn lemma_represents_is_held(r: Rep, x: Set<Ent>)
    requires rep_sound(r, x), rep_complete(r, x)
    ensures r == held(x)
{
    let h = held(x);
    assert forall|k: Slot| #[trigger] r.contains_key(k) implies h.contains_key(k) && h[k] == r[k] by {
        lemma_held_dom(x, k);
        assert(wins(x, ent_of(k, r[k])));
        let v = choose|v: Val| #![trigger wins(x, ent_of(k, v))] wins(x, ent_of(k, v));
        assert(wins(x, ent_of(k, v)));
        assert(slot_of(ent_of(k, v)) == k);
    }
    assert forall|k: Slot| #[trigger] h.contains_key(k) implies r.contains_key(k) by {
        lemma_held_dom(x, k);
        let v = choose|v: Val| #![trigger wins(x, ent_of(k, v))] wins(x, ent_of(k, v));
        assert(wins(x, ent_of(k, v)));
        assert(slot_of(ent_of(k, v)) == k);
    }
    assert(r =~= h);
}

/// L-join-2 (functional form): the final state is `held` of the SET of offered entries
pub proof fn theorem_put_all_is_held(s: Seq<Ent>)
    ensures put_all(Map::<Slot, Val>::empty(), s) == held(s.to_set())
{
    theorem_put_all_represents(s);
    lemma_represents_is_held(put_all(Map::<Slot, Val>::empty(), s), s.to_set());
}

/// Corollary (C02): any two offer sequences with the same set of elements (permutations, duplications, any
/// interleaving) lead to the same replica state.
pub proof fn theorem_order_independent(s1: Seq<Ent>, s2: Seq<Ent>)
    requires s1.to_set() =~= s2.to_set()
    ensures put_all(Map::<Slot, Val>::empty(), s1) =~= put_all(Map::<Slot, Val>::empty(), s2)
{
    theorem_put_all_is_held(s1);
    theorem_put_all_is_held(s2);
}

/// in particular for permutations (equal multisets of offers)
pub proof fn theorem_permutation_independent(s1: Seq<Ent>, s2: Seq<Ent>)
    requires s1.to_multiset() =~= s2.to_multiset()
    ensures put_all(Map::<Slot, Val>::empty(), s1) =~= put_all(Map::<Slot, Val>::empty(), s2)
{
    s1.to_multiset_ensures();
    s2.to_multiset_ensures();
    assert forall|e: Ent| #![trigger s1.to_set().contains(e)] s1.to_set().contains(e) <==> s2.to_set().contains(e) by {
        assert(s1.contains(e) <==> s1.to_multiset().count(e) > 0);
        assert(s2.contains(e) <==> s2.to_multiset().count(e) > 0);
    }
    assert(s1.to_set() =~= s2.to_set());
    theorem_order_independent(s1, s2);
}

/// every offered entry is dominated by a winner (the hint's well-foundedness fact, obtained from the invariant)
pub proof fn theorem_dominated_by_winner(s: Seq<Ent>, e: Ent)
    requires s.contains(e)
    ensures exists|w: Ent| #![trigger wins(s.to_set(), w)] wins(s.to_set(), w) && dom(w, e)
{
    theorem_put_all_represents(s);
    let r = put_all(Map::<Slot, Val>::empty(), s);
    assert(s.to_set().contains(e));
    assert(dominated_in(r, e));
    lemma_dominated_elim(r, e);
    let q = dominator(r, e);
    assert(wins(s.to_set(), ent_of(q, r[q])));
}

// ---------------------------------------------------------------------------------------------------------------
// (b) commutation from ANY antichain state (not only reachable ones): an antichain r holds exactly the winners of
// its own rows, so the characterisation applies with x0 = rows(r).
// ---------------------------------------------------------------------------------------------------------------

pub open spec fn rows(r: Rep) -> Set<Ent> {
    r.dom().map(|k: Slot| ent_of(k, r[k]))
}

pub proof fn lemma_rows_contains(r: Rep, e: Ent)
    ensures rows(r).contains(e) <==> (r.contains_key(slot_of(e)) && r[slot_of(e)] == e.val)
{
    if rows(r).contains(e) {
        let k = choose|k: Slot| #![trigger r.dom().contains(k)] r.dom().contains(k) && ent_of(k, r[k]) == e;
        assert(r.dom().contains(k) && ent_of(k, r[k]) == e);
        assert(slot_of(e) == k);
    }
    if r.contains_key(slot_of(e)) && r[slot_of(e)] == e.val {
        let k = slot_of(e);
        assert(r.dom().contains(k) && ent_of(k, r[k]) == e);
    }
}

pub proof fn lemma_antichain_represents_rows(r: Rep)
    requires antichain(r)
    ensures represents(r, rows(r))
{
    let x = rows(r);
    assert forall|k: Slot| #[trigger] r.contains_key(k) implies wins(x, ent_of(k, r[k])) by {
        let f = ent_of(k, r[k]);
        assert(slot_of(f) == k);
        lemma_rows_contains(r, f);
        assert(x.contains(f));
        assert forall|p: Ent| #[trigger] x.contains(p) && dom(p, f) implies p == f by {
            lemma_rows_contains(r, p);
            let a = slot_of(p);
            assert(r.contains_key(a) && r.contains_key(k));
            if a != k {
                assert(!val_le(r[k], r[a]));
            }
        }
    }
    assert forall|e: Ent| #[trigger] wins(x, e) implies r.contains_key(slot_of(e)) && r[slot_of(e)] == e.val by {
        lemma_rows_contains(r, e);
    }
    assert forall|e: Ent| #[trigger] x.contains(e) implies dominated_in(r, e) by {
        lemma_rows_contains(r, e);
        lemma_dom_refl(e);
        assert(ent_of(slot_of(e), r[slot_of(e)]) == e);
        lemma_dominated_intro(r, e, slot_of(e));
    }
}

/// (b) put_spec commutes on antichain states
pub proof fn theorem_put_commutes(r: Rep, a: Ent, b: Ent)
    requires antichain(r)
    ensures put_spec(put_spec(r, a), b) =~= put_spec(put_spec(r, b), a)
{
    let x = rows(r);
    lemma_antichain_represents_rows(r);
    lemma_put_step(r, x, a);
    lemma_put_step(put_spec(r, a), x.insert(a), b);
    lemma_put_step(r, x, b);
    lemma_put_step(put_spec(r, b), x.insert(b), a);
    assert(x.insert(a).insert(b) =~= x.insert(b).insert(a));
    lemma_represents_unique(put_spec(put_spec(r, a), b), put_spec(put_spec(r, b), a), x.insert(a).insert(b));
}

/// order independence from any antichain state
pub proof fn theorem_order_independent_from(r: Rep, s1: Seq<Ent>, s2: Seq<Ent>)
    requires antichain(r), s1.to_set() =~= s2.to_set()
    ensures put_all(r, s1) =~= put_all(r, s2)
{
    lemma_antichain_represents_rows(r);
    lemma_put_all_represents_from(r, rows(r), s1);
    lemma_put_all_represents_from(r, rows(r), s2);
    lemma_represents_unique(put_all(r, s1), put_all(r, s2), rows(r).union(s1.to_set()));
}

// ---------------------------------------------------------------------------------------------------------------
// (L-heads, C13) the per-author head is the greatest timestamp among the author's stored rows
// ---------------------------------------------------------------------------------------------------------------

/// folding head_spec alongside put_all
pub open spec fn heads_all(h: Heads, r: Rep, s: Seq<Ent>) -> Heads
    decreases s.len()
{
    if s.len() == 0 { h } else { head_spec(heads_all(h, r, s.drop_last()), put_all(r, s.drop_last()), s.last()) }
}

/// every stored row's author has a head, and the head is an upper bound of the row's timestamp
pub open spec fn heads_upper(h: Heads, r: Rep) -> bool {
    forall|k: Slot| #![trigger r.contains_key(k)] r.contains_key(k) ==> h.contains_key(k.author) && r[k].ts <= h[k.author]
}
/// every head is the timestamp of some stored row of that author
pub open spec fn heads_attained(h: Heads, r: Rep) -> bool {
    forall|a: Seq<u8>| #![trigger h.contains_key(a)] h.contains_key(a) ==>
        exists|k: Slot| #![trigger r.contains_key(k)] r.contains_key(k) && k.author == a && r[k].ts == h[a]
}
pub open spec fn heads_ok(h: Heads, r: Rep) -> bool {
    heads_upper(h, r) && heads_attained(h, r)
}

/// the key fact: a row pruned by e is not newer than e, hence its timestamp is <= e's
pub proof fn lemma_pruned_ts_le(r: Rep, e: Ent, k: Slot)
    requires pruned_by(r, e, k)
    ensures r[k].ts <= e.val.ts
{
}

pub proof fn lemma_head_step(h: Heads, r: Rep, e: Ent)
    requires heads_ok(h, r)
    ensures heads_ok(head_spec(h, r, e), put_spec(r, e))
{
    if !dominated_in(r, e) {
        let h2 = head_spec(h, r, e);
        let r2 = put_spec(r, e);
        lemma_put_spec_def(r, e);
        let se = slot_of(e);
        assert(r2.contains_key(se) && r2[se] == e.val);
        assert forall|k: Slot| #[trigger] r2.contains_key(k) implies h2.contains_key(k.author) && r2[k].ts <= h2[k.author] by {
            if k != se {
                assert(r.contains_key(k));
            }
        }
        assert forall|a: Seq<u8>| h2.contains_key(a) implies
            (exists|k: Slot| #![trigger r2.contains_key(k)] r2.contains_key(k) && k.author == a && r2[k].ts == h2[a]) by {
            if a == e.author && !(h.contains_key(a) && h[a] > e.val.ts) {
                assert(r2.contains_key(se) && se.author == a && r2[se].ts == h2[a]);
            } else {
                assert(h.contains_key(a) && h2[a] == h[a]);
                let k = choose|k: Slot| #![trigger r.contains_key(k)] r.contains_key(k) && k.author == a && r[k].ts == h[a];
                assert(r.contains_key(k) && k.author == a && r[k].ts == h[a]);
                if a == e.author {
                    // r[k].ts > e.ts: k is neither pruned nor overwritten
                    assert(val_lt(e.val, r[k]));
                    lemma_val_lt_asym(e.val, r[k]);
                    assert(!pruned_by(r, e, k));
                    if k == se {
                        lemma_prefix_refl(e.key);
                        lemma_dominated_intro(r, e, k);
                    }
                } else {
                    assert(!pruned_by(r, e, k));
                    assert(k != se);
                }
                assert(r2.contains_key(k) && k.author == a && r2[k].ts == h2[a]);
            }
        }
    }
}

pub proof fn lemma_heads_all_ok(h: Heads, r: Rep, s: Seq<Ent>)
    requires heads_ok(h, r)
    ensures heads_ok(heads_all(h, r, s), put_all(r, s))
    decreases s.len()
{
    if s.len() > 0 {
        lemma_heads_all_ok(h, r, s.drop_last());
        lemma_head_step(heads_all(h, r, s.drop_last()), put_all(r, s.drop_last()), s.last());
    }
}

/// L-heads: starting from empty maps, after any sequence of offers: an author has a head iff it has a stored
/// row, and then the head is the maximum timestamp among the author's stored rows.
pub proof fn theorem_heads(s: Seq<Ent>, a: Seq<u8>)
    ensures ({
        let r = put_all(Map::<Slot, Val>::empty(), s);
        let h = heads_all(Map::<Seq<u8>, u64>::empty(), Map::<Slot, Val>::empty(), s);
        &&& h.contains_key(a) <==> (exists|k: Slot| #![trigger r.contains_key(k)] r.contains_key(k) && k.author == a)
        &&& h.contains_key(a) ==> (exists|k: Slot| #![trigger r.contains_key(k)] r.contains_key(k) && k.author == a && r[k].ts == h[a])
        &&& h.contains_key(a) ==> (forall|k: Slot| #![trigger r.contains_key(k)] r.contains_key(k) && k.author == a ==> r[k].ts <= h[a])
    })
{
    let r0 = Map::<Slot, Val>::empty();
    let h0 = Map::<Seq<u8>, u64>::empty();
    assert(heads_ok(h0, r0));
    lemma_heads_all_ok(h0, r0, s);
    let r = put_all(r0, s);
    let h = heads_all(h0, r0, s);
    if h.contains_key(a) {
        let k = choose|k: Slot| #![trigger r.contains_key(k)] r.contains_key(k) && k.author == a && r[k].ts == h[a];
        assert(r.contains_key(k) && k.author == a);
    }
}
