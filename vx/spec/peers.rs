// ================= spec (peers): the per-document peer cache as a set of (nanos, peer) rows; verified, not trusted =================
// Abstract view of one document: `set` = the values stored under the document in the peers multimap.
// `peer_list(set)` = the peers of `set` ordered most recent first (descending table order).

pub open spec fn peer_row_le(a: PeerRow, b: PeerRow) -> bool { a == b || peer_row_lt(a, b) }

pub open spec fn has_peer(set: Set<PeerRow>, p: Seq<u8>) -> bool {
    exists|e: PeerRow| #[trigger] set.contains(e) && e.1 == p
}

/// `e` is the first row of `set` in table order (the least recently registered peer)
pub open spec fn is_oldest(set: Set<PeerRow>, e: PeerRow) -> bool {
    set.contains(e) && (forall|x: PeerRow| #[trigger] set.contains(x) ==> peer_row_le(e, x))
}

/// `e` is the first row of `set` in table order among the rows of peer `p`
pub open spec fn is_oldest_of_peer(set: Set<PeerRow>, p: Seq<u8>, e: PeerRow) -> bool {
    set.contains(e) && e.1 == p && (forall|x: PeerRow| #[trigger] set.contains(x) && x.1 == p ==> peer_row_le(e, x))
}

pub open spec fn no_dup_peers(set: Set<PeerRow>) -> bool {
    forall|a: PeerRow, b: PeerRow| #[trigger] set.contains(a) && #[trigger] set.contains(b) && a.1 == b.1 ==> a == b
}

/// invariant of one document's peer set: at most five rows, no peer twice
pub open spec fn peers_inv(set: Set<PeerRow>) -> bool {
    set.finite() && set.len() <= 5 && no_dup_peers(set)
}

/// A-clock for one call: the clock reading is later than every stored stamp of the document
pub open spec fn clock_fresh(set: Set<PeerRow>, nanos: u64) -> bool {
    forall|e: PeerRow| #[trigger] set.contains(e) ==> e.0 < nanos
}

/// what one registration of `p` at clock reading `nanos` does to the set, for ANY clock reading:
/// the (oldest) row of `p` is replaced; otherwise the row is added and, if that makes more than five, the oldest row goes.
pub open spec fn reg_step(old: Set<PeerRow>, new: Set<PeerRow>, nanos: u64, p: Seq<u8>) -> bool {
    if has_peer(old, p) {
        exists|prev: PeerRow| #[trigger] is_oldest_of_peer(old, p, prev) && new =~= old.remove(prev).insert((nanos, p))
    } else if old.len() + 1 > 5 {
        exists|o: PeerRow| #[trigger] is_oldest(old, o) && new =~= old.insert((nanos, p)).remove(o)
    } else {
        new =~= old.insert((nanos, p))
    }
}

// ---- lists ----

/// peers of an ascending listing, most recent first
pub open spec fn mrf(s: Seq<PeerRow>) -> Seq<Seq<u8>> {
    Seq::new(s.len(), |i: int| s[s.len() - 1 - i].1)
}

/// the peers of `set`, most recently registered first
pub open spec fn peer_list(set: Set<PeerRow>) -> Seq<Seq<u8>> {
    mrf(choose|s: Seq<PeerRow>| peers_listing(s, set))
}

/// `l` without every occurrence of `p`
pub open spec fn list_without(l: Seq<Seq<u8>>, p: Seq<u8>) -> Seq<Seq<u8>>
    decreases l.len()
{
    if l.len() == 0 { l }
    else if l[0] == p { list_without(l.skip(1), p) }
    else { seq![l[0]] + list_without(l.skip(1), p) }
}

pub open spec fn take5(l: Seq<Seq<u8>>) -> Seq<Seq<u8>> { if l.len() > 5 { l.take(5) } else { l } }

/// the list after registering `p`: p in front, its previous entry gone, cut to five
pub open spec fn list_step(l: Seq<Seq<u8>>, p: Seq<u8>) -> Seq<Seq<u8>> { take5(seq![p] + list_without(l, p)) }

// ---- lemmas about the order ----

pub proof fn lemma_row_lt_irrefl(a: PeerRow)
    ensures !peer_row_lt(a, a)
{
    lemma_lex_irrefl(a.1);
}

pub proof fn lemma_row_lt_asym(a: PeerRow, b: PeerRow)
    ensures !(peer_row_lt(a, b) && peer_row_lt(b, a))
{
    lemma_lex_asym(a.1, b.1);
}

pub proof fn lemma_row_lt_trans(a: PeerRow, b: PeerRow, c: PeerRow)
    requires peer_row_lt(a, b), peer_row_lt(b, c)
    ensures peer_row_lt(a, c)
{
    if a.0 == b.0 && b.0 == c.0 { lemma_lex_trans(a.1, b.1, c.1); }
}

// ---- lemmas about listings ----

pub proof fn lemma_listing_no_dup(s: Seq<PeerRow>, set: Set<PeerRow>)
    requires peers_listing(s, set)
    ensures s.no_duplicates(), set =~= s.to_set(), set.finite(), set.len() == s.len()
{
    assert forall|i: int, j: int| 0 <= i < s.len() && 0 <= j < s.len() && i != j implies s[i] != s[j] by {
        lemma_row_lt_irrefl(s[i]);
        if i < j { assert(peer_row_lt(s[i], s[j])); } else { assert(peer_row_lt(s[j], s[i])); }
    }
    assert forall|e: PeerRow| set.contains(e) <==> s.to_set().contains(e) by {
        if set.contains(e) { let i = choose|i: int| 0 <= i < s.len() && s[i] == e; assert(s.contains(e)); }
        if s.to_set().contains(e) { assert(s.contains(e)); let i = choose|i: int| 0 <= i < s.len() && s[i] == e; assert(set.contains(s[i])); }
    }
    s.unique_seq_to_set();
}

pub proof fn lemma_listing_unique(s1: Seq<PeerRow>, s2: Seq<PeerRow>, set: Set<PeerRow>)
    requires peers_listing(s1, set), peers_listing(s2, set)
    ensures s1 == s2
    decreases s1.len()
{
    lemma_listing_no_dup(s1, set);
    lemma_listing_no_dup(s2, set);
    if s1.len() > 0 {
        // the last rows agree: both are the maximum
        let n = s1.len() - 1;
        let a = s1[n];
        let b = s2[n];
        assert(set.contains(a));
        assert(set.contains(b));
        let ia = choose|i: int| 0 <= i < s2.len() && s2[i] == a;
        let ib = choose|i: int| 0 <= i < s1.len() && s1[i] == b;
        if a != b {
            lemma_row_lt_asym(a, b);
            if ia < n { assert(peer_row_lt(s2[ia], s2[n])); }
            if ib < n { assert(peer_row_lt(s1[ib], s1[n])); }
        }
        assert(a == b);
        let set2 = set.remove(a);
        let t1 = s1.drop_last();
        let t2 = s2.drop_last();
        assert(peers_listing(t1, set2)) by {
            assert forall|i: int| 0 <= i < t1.len() implies set2.contains(#[trigger] t1[i]) by {
                assert(t1[i] == s1[i]);
                lemma_row_lt_irrefl(a);
                assert(peer_row_lt(s1[i], s1[n]));
            }
            assert forall|e: PeerRow| set2.contains(e) implies exists|i: int| 0 <= i < t1.len() && #[trigger] t1[i] == e by {
                let i = choose|i: int| 0 <= i < s1.len() && s1[i] == e;
                assert(i != n);
                assert(t1[i] == e);
            }
            assert forall|i: int, j: int| 0 <= i < j < t1.len() implies peer_row_lt(#[trigger] t1[i], #[trigger] t1[j]) by {
                assert(t1[i] == s1[i] && t1[j] == s1[j]);
            }
        }
        assert(peers_listing(t2, set2)) by {
            assert forall|i: int| 0 <= i < t2.len() implies set2.contains(#[trigger] t2[i]) by {
                assert(t2[i] == s2[i]);
                lemma_row_lt_irrefl(b);
                assert(peer_row_lt(s2[i], s2[n]));
            }
            assert forall|e: PeerRow| set2.contains(e) implies exists|i: int| 0 <= i < t2.len() && #[trigger] t2[i] == e by {
                let i = choose|i: int| 0 <= i < s2.len() && s2[i] == e;
                assert(i != n);
                assert(t2[i] == e);
            }
            assert forall|i: int, j: int| 0 <= i < j < t2.len() implies peer_row_lt(#[trigger] t2[i], #[trigger] t2[j]) by {
                assert(t2[i] == s2[i] && t2[j] == s2[j]);
            }
        }
        lemma_listing_unique(t1, t2, set2);
        assert(s1 =~= t1.push(a));
        assert(s2 =~= t2.push(b));
    } else {
        assert(s1 =~= s2);
    }
}

/// for any listing `s` of `set`, `peer_list(set)` is `mrf(s)`
pub proof fn lemma_peer_list_of(s: Seq<PeerRow>, set: Set<PeerRow>)
    requires peers_listing(s, set)
    ensures peer_list(set) == mrf(s)
{
    let c = choose|c: Seq<PeerRow>| peers_listing(c, set);
    lemma_listing_unique(c, s, set);
}

pub proof fn lemma_listing_first_is_oldest(s: Seq<PeerRow>, set: Set<PeerRow>)
    requires peers_listing(s, set), s.len() > 0
    ensures is_oldest(set, s[0])
{
    assert forall|x: PeerRow| set.contains(x) implies peer_row_le(s[0], x) by {
        let i = choose|i: int| 0 <= i < s.len() && s[i] == x;
        if i > 0 { assert(peer_row_lt(s[0], s[i])); }
    }
}

pub proof fn lemma_row_total(a: PeerRow, b: PeerRow)
    ensures peer_row_lt(a, b) || a == b || peer_row_lt(b, a)
{
    lemma_lex_total(a.1, b.1);
    if a.0 == b.0 && a.1 =~= b.1 { assert(a == b); }
}

/// every finite set of rows has a greatest row
pub proof fn lemma_max_exists(set: Set<PeerRow>)
    requires set.finite(), set.len() > 0
    ensures exists|m: PeerRow| #[trigger] set.contains(m) && (forall|x: PeerRow| #[trigger] set.contains(x) ==> peer_row_le(x, m))
    decreases set.len()
{
    let e = set.choose();
    let rest = set.remove(e);
    if rest.len() == 0 {
        assert forall|x: PeerRow| #[trigger] set.contains(x) implies peer_row_le(x, e) by {
            if x != e { assert(rest.contains(x)); assert(rest =~= Set::<PeerRow>::empty()); }
        }
        assert(set.contains(e));
    } else {
        lemma_max_exists(rest);
        let m0 = choose|m: PeerRow| #[trigger] rest.contains(m) && (forall|x: PeerRow| #[trigger] rest.contains(x) ==> peer_row_le(x, m));
        lemma_row_total(m0, e);
        let m = if peer_row_lt(m0, e) { e } else { m0 };
        assert forall|x: PeerRow| #[trigger] set.contains(x) implies peer_row_le(x, m) by {
            if x != e {
                assert(rest.contains(x));
                assert(peer_row_le(x, m0));
                if peer_row_lt(m0, e) && x != m0 { lemma_row_lt_trans(x, m0, e); }
            }
        }
        assert(set.contains(m));
    }
}

/// every finite set of rows has an ascending listing (so `peer_list` is determined for every finite set)
pub proof fn lemma_listing_exists(set: Set<PeerRow>)
    requires set.finite()
    ensures exists|s: Seq<PeerRow>| peers_listing(s, set)
    decreases set.len()
{
    if set.len() == 0 {
        let s = Seq::<PeerRow>::empty();
        assert(set =~= Set::<PeerRow>::empty());
        assert(peers_listing(s, set));
    } else {
        lemma_max_exists(set);
        let m = choose|m: PeerRow| #[trigger] set.contains(m) && (forall|x: PeerRow| #[trigger] set.contains(x) ==> peer_row_le(x, m));
        let rest = set.remove(m);
        lemma_listing_exists(rest);
        let s0 = choose|s: Seq<PeerRow>| peers_listing(s, rest);
        let s = s0.push(m);
        assert forall|i: int, j: int| 0 <= i < j < s.len() implies peer_row_lt(#[trigger] s[i], #[trigger] s[j]) by {
            if j == s0.len() { assert(rest.contains(s0[i])); assert(set.contains(s0[i])); assert(peer_row_le(s0[i], m)); }
        }
        assert forall|i: int| 0 <= i < s.len() implies set.contains(#[trigger] s[i]) by {
            if i < s0.len() { assert(rest.contains(s0[i])); }
        }
        assert forall|e: PeerRow| set.contains(e) implies exists|i: int| 0 <= i < s.len() && #[trigger] s[i] == e by {
            if e == m { assert(s[s0.len() as int] == e); }
            else { assert(rest.contains(e)); let i = choose|i: int| 0 <= i < s0.len() && s0[i] == e; assert(s[i] == e); }
        }
        assert(peers_listing(s, set));
    }
}

// ---- lemmas about list_without ----

pub proof fn lemma_without_absent(l: Seq<Seq<u8>>, p: Seq<u8>)
    requires forall|i: int| 0 <= i < l.len() ==> l[i] != p
    ensures list_without(l, p) == l
    decreases l.len()
{
    if l.len() > 0 {
        let t = l.skip(1);
        assert forall|i: int| 0 <= i < t.len() implies t[i] != p by { assert(t[i] == l[i + 1]); }
        lemma_without_absent(t, p);
        assert(l =~= seq![l[0]] + t);
    }
}

pub proof fn lemma_without_single(l: Seq<Seq<u8>>, p: Seq<u8>, k: int)
    requires 0 <= k < l.len(), l[k] == p, forall|i: int| 0 <= i < l.len() && i != k ==> l[i] != p
    ensures list_without(l, p) == l.remove(k)
    decreases l.len()
{
    let t = l.skip(1);
    if k == 0 {
        assert forall|i: int| 0 <= i < t.len() implies t[i] != p by { assert(t[i] == l[i + 1]); }
        lemma_without_absent(t, p);
        assert(l.remove(0) =~= t);
    } else {
        assert(t[k - 1] == l[k]);
        assert forall|i: int| 0 <= i < t.len() && i != k - 1 implies t[i] != p by { assert(t[i] == l[i + 1]); }
        lemma_without_single(t, p, k - 1);
        assert(l.remove(k) =~= seq![l[0]] + t.remove(k - 1));
    }
}

/// the oldest row is the first row of the listing
pub proof fn lemma_oldest_is_first(s: Seq<PeerRow>, set: Set<PeerRow>, o: PeerRow)
    requires peers_listing(s, set), is_oldest(set, o)
    ensures s.len() > 0, s[0] == o
{
    let i = choose|i: int| 0 <= i < s.len() && s[i] == o;
    if i > 0 {
        assert(set.contains(s[0]));
        assert(peer_row_le(o, s[0]));
        assert(peer_row_lt(s[0], s[i]));
        lemma_row_lt_asym(s[0], o);
        lemma_row_lt_irrefl(o);
    }
}

/// One registration on the list, given A-clock for this call (the reading is later than every stored stamp):
/// the new list is the old one with `p` moved/put to the front, cut to five.
pub proof fn lemma_list_step(old: Set<PeerRow>, new: Set<PeerRow>, nanos: u64, p: Seq<u8>)
    requires peers_inv(old), reg_step(old, new, nanos, p), clock_fresh(old, nanos)
    ensures peer_list(new) == list_step(peer_list(old), p)
{
    lemma_listing_exists(old);
    let so = choose|s: Seq<PeerRow>| peers_listing(s, old);
    lemma_peer_list_of(so, old);
    lemma_listing_no_dup(so, old);
    let n = so.len() as int;
    let row = (nanos, p);
    let lo = mrf(so);
    assert forall|i: int| 0 <= i < n implies peer_row_lt(#[trigger] so[i], row) by { assert(old.contains(so[i])); }
    if has_peer(old, p) {
        let prev = choose|prev: PeerRow| #[trigger] is_oldest_of_peer(old, p, prev) && new =~= old.remove(prev).insert(row);
        let j = choose|j: int| 0 <= j < n && so[j] == prev;
        let sn = so.remove(j).push(row);
        assert forall|i: int| 0 <= i < n - 1 implies (#[trigger] so.remove(j)[i]) == (if i < j { so[i] } else { so[i + 1] }) by { }
        assert(peers_listing(sn, new)) by {
            assert forall|a: int, b: int| 0 <= a < b < sn.len() implies peer_row_lt(#[trigger] sn[a], #[trigger] sn[b]) by {
                let xa = if a < j { a } else { a + 1 };
                assert(sn[a] == so[xa]);
                if b < n - 1 { let xb = if b < j { b } else { b + 1 }; assert(sn[b] == so[xb]); assert(peer_row_lt(so[xa], so[xb])); }
                else { assert(sn[b] == row); }
            }
            assert forall|i: int| 0 <= i < sn.len() implies new.contains(#[trigger] sn[i]) by {
                if i < n - 1 {
                    let xi = if i < j { i } else { i + 1 };
                    assert(sn[i] == so[xi]);
                    assert(old.contains(so[xi]));
                    assert(so[xi] != so[j]);
                }
            }
            assert forall|e: PeerRow| new.contains(e) implies exists|i: int| 0 <= i < sn.len() && #[trigger] sn[i] == e by {
                if e == row { assert(sn[n - 1] == e); }
                else {
                    assert(old.contains(e));
                    let i = choose|i: int| 0 <= i < n && so[i] == e;
                    assert(i != j);
                    let y = if i < j { i } else { i - 1 };
                    assert(sn[y] == e);
                }
            }
        }
        lemma_peer_list_of(sn, new);
        // the old list holds p exactly once, at position n-1-j
        let k = n - 1 - j;
        assert(lo[k] == p);
        assert forall|i: int| 0 <= i < lo.len() && i != k implies lo[i] != p by {
            let x = so[n - 1 - i];
            assert(old.contains(x));
            if x.1 == p { assert(old.contains(prev)); assert(x == prev); }
        }
        lemma_without_single(lo, p, k);
        assert(mrf(sn) =~= seq![p] + lo.remove(k)) by {
            assert forall|i: int| 0 <= i < n implies mrf(sn)[i] == (seq![p] + lo.remove(k))[i] by {
                if i > 0 {
                    let a = n - 1 - i;   // index into sn, < n-1
                    let xa = if a < j { a } else { a + 1 };
                    assert(sn[a] == so[xa]);
                }
            }
        }
    } else if old.len() + 1 > 5 {
        let o = choose|o: PeerRow| #[trigger] is_oldest(old, o) && new =~= old.insert(row).remove(o);
        lemma_oldest_is_first(so, old, o);
        let sn = so.skip(1).push(row);
        assert(!old.contains(row)) by { if old.contains(row) { assert(has_peer(old, p)); } }
        assert(peers_listing(sn, new)) by {
            assert forall|a: int, b: int| 0 <= a < b < sn.len() implies peer_row_lt(#[trigger] sn[a], #[trigger] sn[b]) by {
                assert(sn[a] == so[a + 1]);
                if b < n - 1 { assert(sn[b] == so[b + 1]); assert(peer_row_lt(so[a + 1], so[b + 1])); } else { assert(sn[b] == row); }
            }
            assert forall|i: int| 0 <= i < sn.len() implies new.contains(#[trigger] sn[i]) by {
                if i < n - 1 { assert(sn[i] == so[i + 1]); assert(old.contains(so[i + 1])); assert(so[i + 1] != so[0]); }
            }
            assert forall|e: PeerRow| new.contains(e) implies exists|i: int| 0 <= i < sn.len() && #[trigger] sn[i] == e by {
                if e == row { assert(sn[n - 1] == e); }
                else { let i = choose|i: int| 0 <= i < n && so[i] == e; assert(i != 0); assert(sn[i - 1] == e); }
            }
        }
        lemma_peer_list_of(sn, new);
        assert forall|i: int| 0 <= i < lo.len() implies lo[i] != p by {
            let x = so[n - 1 - i]; assert(old.contains(x));
        }
        lemma_without_absent(lo, p);
        assert(n == 5);
        assert(mrf(sn) =~= (seq![p] + lo).take(5)) by {
            assert forall|i: int| 0 <= i < 5 implies mrf(sn)[i] == (seq![p] + lo).take(5)[i] by {
                if i > 0 { assert(sn[n - 1 - i] == so[n - i]); }
            }
        }
    } else {
        let sn = so.push(row);
        assert(!old.contains(row)) by { if old.contains(row) { assert(has_peer(old, p)); } }
        assert(peers_listing(sn, new)) by {
            assert forall|a: int, b: int| 0 <= a < b < sn.len() implies peer_row_lt(#[trigger] sn[a], #[trigger] sn[b]) by {
                if b < n { assert(peer_row_lt(so[a], so[b])); }
            }
            assert forall|i: int| 0 <= i < sn.len() implies new.contains(#[trigger] sn[i]) by {
                if i < n { assert(old.contains(so[i])); }
            }
            assert forall|e: PeerRow| new.contains(e) implies exists|i: int| 0 <= i < sn.len() && #[trigger] sn[i] == e by {
                if e == row { assert(sn[n] == e); }
                else { let i = choose|i: int| 0 <= i < n && so[i] == e; assert(sn[i] == e); }
            }
        }
        lemma_peer_list_of(sn, new);
        assert forall|i: int| 0 <= i < lo.len() implies lo[i] != p by {
            let x = so[n - 1 - i]; assert(old.contains(x));
        }
        lemma_without_absent(lo, p);
        assert(mrf(sn) =~= seq![p] + lo) by {
            assert forall|i: int| 0 <= i < n + 1 implies mrf(sn)[i] == (seq![p] + lo)[i] by {
                if i > 0 { assert(sn[n - i] == so[n - i]); }
            }
        }
    }
}
