// ================= spec (peers): the per-document peer cache as a set of (nanos, peer) rows; verified, not trusted =================
// Abstract view of one document: `set` = the values stored under the document in the peers multimap.
// `peer_list(set)` = the peers of `set` ordered most recent first (descending table order).

pub open spec fn peer_row_le(a: PeerRow, b: PeerRow) -> bool { a == b || peer_row_lt(a, b) }

pub open spec fn has_peer(set: Set<PeerRow>, p: Seq<u8>) -> bool {
    exists|e: PeerRow| #[trigger] set.contains(e) && e.1 == p
}

/// `e` is the first row of `set` in table order (the least recently registered peer)
pub open spec fn is_oldest(set: Set<PeerRow>, e: PeerRow) -> bool {
    set.contains(e) && (forall|x: PeerRow| #[trigger] set.contains(x) ==> peer_row_le(e, x))
}

/// `e` is the first row of `set` in table order among the rows of peer `p`
pub open spec fn is_oldest_of_peer(set: Set<PeerRow>, p: Seq<u8>, e: PeerRow) -> bool {
    set.contains(e) && e.1 == p && (forall|x: PeerRow| #[trigger] set.contains(x) && x.1 == p ==> peer_row_le(e, x))
}

pub open spec fn no_dup_peers(set: Set<PeerRow>) -> bool {
    forall|a: PeerRow, b: PeerRow| #[trigger] set.contains(a) && #[trigger] set.contains(b) && a.1 == b.1 ==> a == b
}

/// invariant of one document's peer set: at most five rows, no peer twice
pub open spec fn peers_inv(set: Set<PeerRow>) -> bool {
    set.finite() && set.len() <= 5 && no_dup_peers(set)
}

/// A-clock for one call: the clock reading is later than every stored stamp of the document
pub open spec fn clock_fresh(set: Set<PeerRow>, nanos: u64) -> bool {
    forall|e: PeerRow| #[trigger] set.contains(e) ==> e.0 < nanos
}

/// what one registration of `p` at clock reading `nanos` does to the set, for ANY clock reading:
/// the (oldest) row of `p` is replaced; otherwise the row is added and, if that makes more than five, the oldest row goes.
pub open spec fn reg_step(old: Set<PeerRow>, new: Set<PeerRow>, nanos: u64, p: Seq<u8>) -> bool {
    if has_peer(old, p) {
        exists|prev: PeerRow| #[trigger] is_oldest_of_peer(old, p, prev) && new =~= old.remove(prev).insert((nanos, p))
    } else if old.len() + 1 > 5 {
        exists|o: PeerRow| #[trigger] is_oldest(old, o) && new =~= old.insert((nanos, p)).remove(o)
    } else {
        new =~= old.insert((nanos, p))
    }
}

// ---- lists ----

/// peers of an ascending listing, most recent first
pub open spec fn mrf(s: Seq<PeerRow>) -> Seq<Seq<u8>> {
    Seq::new(s.len(), |i: int| s[s.len() - 1 - i].1)
}

/// the peers of `set`, most recently registered first
pub open spec fn peer_list(set: Set<PeerRow>) -> Seq<Seq<u8>> {
    mrf(choose|s: Seq<PeerRow>| peers_listing(s, set))
}

/// `l` without every occurrence of `p`
pub open spec fn list_without(l: Seq<Seq<u8>>, p: Seq<u8>) -> Seq<Seq<u8>>
    decreases l.len()
{
    if l.len() == 0 { l }
    else if l[0] == p { list_without(l.skip(1), p) }
    else { seq![l[0]] + list_without(l.skip(1), p) }
}

pub open spec fn take5(l: Seq<Seq<u8>>) -> Seq<Seq<u8>> { if l.len() > 5 { l.take(5) } else { l } }

/// the list after registering `p`: p in front, its previous entry gone, cut to five
pub open spec fn list_step(l: Seq<Seq<u8>>, p: Seq<u8>) -> Seq<Seq<u8>> { take5(seq![p] + list_without(l, p)) }

// ---- lemmas about the order ----

pub proof fn lemma_row_lt_irrefl(a: PeerRow)
    ensures !peer_row_lt(a, a)
{
    lemma_lex_irrefl(a.1);
}

pub proof fn lemma_row_lt_asym(a: PeerRow, b: PeerRow)
    ensures !(peer_row_lt(a, b) && peer_row_lt(b, a))
{
    lemma_lex_asym(a.1, b.1);
}

pub proof fn lemma_row_lt_trans(a: PeerRow, b: PeerRow, c: PeerRow)
    requires peer_row_lt(a, b), peer_row_lt(b, c)
    ensures peer_row_lt(a, c)
{
    if a.0 == b.0 && b.0 == c.0 { lemma_lex_trans(a.1, b.1, c.1); }
}

// ---- lemmas about listings ----

pub proof fn lemma_listing_no_dup(s: Seq<PeerRow>, set: Set<PeerRow>)
    requires peers_listing(s, set)
    ensures s.no_duplicates(), set =~= s.to_set(), set.finite(), set.len() == s.len()
{
    assert forall|i: int, j: int| 0 <= i < s.len() && 0 <= j < s.len() && i != j implies s[i] != s[j] by {
        lemma_row_lt_irrefl(s[i]);
        if i < j { assert(peer_row_lt(s[i], s[j])); } else { assert(peer_row_lt(s[j], s[i])); }
    }
    assert forall|e: PeerRow| set.contains(e) <==> s.to_set().contains(e) by {
        if set.contains(e) { let i = choose|i: int| 0 <= i < s.len() && s[i] == e; assert(s.contains(e)); }
        if s.to_set().contains(e) { assert(s.contains(e)); let i = choose|i: int| 0 <= i < s.len() && s[i] == e; assert(set.contains(s[i])); }
    }
    s.unique_seq_to_set();
}

pub proof fn lemma_listing_unique(s1: Seq<PeerRow>, s2: Seq<PeerRow>, set: Set<PeerRow>)
    requires peers_listing(s1, set), peers_listing(s2, set)
    ensures s1 == s2
    decreases s1.len()
{
    lemma_listing_no_dup(s1, set);
    lemma_listing_no_dup(s2, set);
    if s1.len() > 0 {
        // the last rows agree: both are the maximum
        let n = s1.len() - 1;
        let a = s1[n];
        let b = s2[n];
        assert(set.contains(a));
        assert(set.contains(b));
        let ia = choose|i: int| 0 <= i < s2.len() && s2[i] == a;
        let ib = choose|i: int| 0 <= i < s1.len() && s1[i] == b;
        if a != b {
            lemma_row_lt_asym(a, b);
            if ia < n { assert(peer_row_lt(s2[ia], s2[n])); }
            if ib < n { assert(peer_row_lt(s1[ib], s1[n])); }
        }
        assert(a == b);
        let set2 = set.remove(a);
        let t1 = s1.drop_last();
        let t2 = s2.drop_last();
        assert(peers_listing(t1, set2)) by {
            assert forall|i: int| 0 <= i < t1.len() implies set2.contains(#[trigger] t1[i]) by {
                assert(t1[i] == s1[i]);
                lemma_row_lt_irrefl(a);
                assert(peer_row_lt(s1[i], s1[n]));
            }
            assert forall|e: PeerRow| set2.contains(e) implies exists|i: int| 0 <= i < t1.len() && #[trigger] t1[i] == e by {
                let i = choose|i: int| 0 <= i < s1.len() && s1[i] == e;
                assert(i != n);
                assert(t1[i] == e);
            }
            assert forall|i: int, j: int| 0 <= i < j < t1.len() implies peer_row_lt(#[trigger] t1[i], #[trigger] t1[j]) by {
                assert(t1[i] == s1[i] && t1[j] == s1[j]);
            }
        }
        assert(peers_listing(t2, set2)) by {
            assert forall|i: int| 0 <= i < t2.len() implies set2.contains(#[trigger] t2[i]) by {
                assert(t2[i] == s2[i]);
                lemma_row_lt_irrefl(b);
                assert(peer_row_lt(s2[i], s2[n]));
            }
            assert forall|e: PeerRow| set2.contains(e) implies exists|i: int| 0 <= i < t2.len() && #[trigger] t2[i] == e by {
                let i = choose|i: int| 0 <= i < s2.len() && s2[i] == e;
                assert(i != n);
                assert(t2[i] == e);
            }
            assert forall|i: int, j: int| 0 <= i < j < t2.len() implies peer_row_lt(#[trigger] t2[i], #[trigger] t2[j]) by {
                assert(t2[i] == s2[i] && t2[j] == s2[j]);
            }
        }
        lemma_listing_unique(t1, t2, set2);
        assert(s1 =~= t1.push(a));
        assert(s2 =~= t2.push(b));
    } else {
        assert(s1 =~= s2);
    }
}

/// a listing has as many rows as the set
pub proof fn lemma_listing_len(s: Seq<PeerRow>, set: Set<PeerRow>)
    requires peers_listing(s, set)
    ensures set.finite(), set.len() == s.len()
{
    lemma_listing_no_dup(s, set);
}

/// for any listing `s` of `set`, `peer_list(set)` is `mrf(s)`
pub proof fn lemma_peer_list_of(s: Seq<PeerRow>, set: Set<PeerRow>)
    requires peers_listing(s, set)
    ensures peer_list(set) == mrf(s)
{
    let c = choose|c: Seq<PeerRow>| peers_listing(c, set);
    lemma_listing_unique(c, s, set);
}

pub proof fn lemma_listing_first_is_oldest(s: Seq<PeerRow>, set: Set<PeerRow>)
    requires peers_listing(s, set), s.len() > 0
    ensures is_oldest(set, s[0])
{
    assert forall|x: PeerRow| set.contains(x) implies peer_row_le(s[0], x) by {
        let i = choose|i: int| 0 <= i < s.len() && s[i] == x;
        if i > 0 { assert(peer_row_lt(s[0], s[i])); }
    }
}

/// consequences of one step for the invariant and the membership clauses (no clock assumption needed)
pub proof fn lemma_step_facts(old: Set<PeerRow>, new: Set<PeerRow>, nanos: u64, p: Seq<u8>)
    requires peers_inv(old), reg_step(old, new, nanos, p)
    ensures
        peers_inv(new), //# peers.step.keeps-invariant
        new.contains((nanos, p)), //# peers.step.peer-present
        new.len() == (if has_peer(old, p) || old.len() + 1 > 5 { old.len() } else { old.len() + 1 }), //# peers.step.size
        forall|e: PeerRow| #[trigger] old.contains(e) && e.1 != p ==> new.contains(e) || (is_oldest(old, e) && old.len() >= 5 && !has_peer(old, p)), //# peers.step.others-stay-unless-evicted
        forall|e: PeerRow| #[trigger] new.contains(e) ==> e == (nanos, p) || (old.contains(e) && e.1 != p), //# peers.step.nothing-else-added
{
    let row = (nanos, p);
    if has_peer(old, p) {
        let prev = choose|prev: PeerRow| #[trigger] is_oldest_of_peer(old, p, prev) && new =~= old.remove(prev).insert(row);
        assert forall|x: PeerRow| old.contains(x) && x.1 == p implies x == prev by { }
        assert(!old.remove(prev).contains(row));
        assert(new.len() == old.len());
    } else if old.len() + 1 > 5 {
        let o = choose|o: PeerRow| #[trigger] is_oldest(old, o) && new =~= old.insert(row).remove(o);
        assert(!old.contains(row)) by { if old.contains(row) { assert(has_peer(old, p)); } }
        assert(o != row);
        assert(old.insert(row).len() == old.len() + 1);
        assert(new.len() == old.len());
        assert forall|a: PeerRow, b: PeerRow| #[trigger] new.contains(a) && #[trigger] new.contains(b) && a.1 == b.1 implies a == b by {
            if a == row && b != row { assert(old.contains(b)); assert(has_peer(old, p)); }
            if b == row && a != row { assert(old.contains(a)); assert(has_peer(old, p)); }
        }
    } else {
        assert(!old.contains(row)) by { if old.contains(row) { assert(has_peer(old, p)); } }
        assert(new.len() == old.len() + 1);
        assert forall|a: PeerRow, b: PeerRow| #[trigger] new.contains(a) && #[trigger] new.contains(b) && a.1 == b.1 implies a == b by {
            if a == row && b != row { assert(old.contains(b)); assert(has_peer(old, p)); }
            if b == row && a != row { assert(old.contains(a)); assert(has_peer(old, p)); }
        }
    }
}

