// ================= policy spec: quantifier plumbing for slice iterators (verified, not trusted) =================
/// `touch(x)` is just `true`; it exists so that instantiating lemma_touch_refs puts the term `rs[i]` in front of the
/// SMT solver (the assumed `any`/`all` contracts trigger on `rest[i]`, a goal about `s[i]` does not mention it).
pub closed spec fn touch<T>(x: T) -> bool { true }

pub broadcast proof fn lemma_touch_refs<'a, T>(rs: Seq<&'a T>, s: Seq<T>, i: int)
    ensures #![trigger rs.len(), s[i]] touch(rs[i])
{}
