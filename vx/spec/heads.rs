// ================= spec: author heads (verified, not trusted) =================

/// the sequence `s` enumerates the map `m`: every item is a row of `m`, every key of `m` occurs, no item twice
pub open spec fn enumerates<'a>(s: Seq<(&'a AuthorId, &'a u64)>, m: Map<AuthorId, u64>) -> bool {
    &&& s.len() == m.len()
    &&& s.no_duplicates()
    &&& (forall|i: int| 0 <= i < s.len() ==> m.contains_key(*(#[trigger] s[i]).0) && m[*s[i].0] == *s[i].1)
    &&& (forall|a: AuthorId| m.contains_key(a) ==> exists|i: int| 0 <= i < s.len() && *(#[trigger] s[i]).0 == a)
}

/// `ours` names something new for `theirs` about author `a`: `theirs` does not know `a`, or knows only an older timestamp
pub open spec fn is_news(ours: Map<AuthorId, u64>, theirs: Map<AuthorId, u64>, a: AuthorId) -> bool {
    ours.contains_key(a) && (!theirs.contains_key(a) || ours[a] > theirs[a])
}

/// the authors for which `ours` has news for `theirs`
pub open spec fn news_authors(ours: Map<AuthorId, u64>, theirs: Map<AuthorId, u64>) -> Set<AuthorId> {
    ours.dom().filter(|a: AuthorId| is_news(ours, theirs, a))
}

/// what `Option<NonZeroU64>` encodes: `NonZeroU64::new(n)`
pub open spec fn nz_is(r: Option<std::num::NonZeroU64>, n: nat) -> bool {
    &&& (r is None <==> n == 0)
    &&& (r is Some ==> r->Some_0@ as nat == n)
}

/// number of news items among the first `n` items of an enumeration
pub open spec fn count_news<'a>(s: Seq<(&'a AuthorId, &'a u64)>, theirs: Map<AuthorId, u64>, n: int) -> nat
    decreases n
{
    if n <= 0 { 0 } else {
        count_news(s, theirs, n - 1) + (if !theirs.contains_key(*s[n - 1].0) || *s[n - 1].1 > theirs[*s[n - 1].0] { 1nat } else { 0nat })
    }
}

/// authors with news among the first `n` items
pub open spec fn news_upto<'a>(s: Seq<(&'a AuthorId, &'a u64)>, ours: Map<AuthorId, u64>, theirs: Map<AuthorId, u64>, n: int) -> Set<AuthorId> {
    news_authors(ours, theirs).filter(|a: AuthorId| exists|i: int| 0 <= i < n && *(#[trigger] s[i]).0 == a)
}

pub proof fn lemma_count_news_bound<'a>(s: Seq<(&'a AuthorId, &'a u64)>, theirs: Map<AuthorId, u64>, n: int)
    requires 0 <= n
    ensures count_news(s, theirs, n) <= n
    decreases n
{
    if n > 0 { lemma_count_news_bound(s, theirs, n - 1); }
}

pub proof fn lemma_count_news_upto<'a>(s: Seq<(&'a AuthorId, &'a u64)>, ours: Map<AuthorId, u64>, theirs: Map<AuthorId, u64>, n: int)
    requires enumerates(s, ours), 0 <= n <= s.len()
    ensures news_upto(s, ours, theirs, n).len() == count_news(s, theirs, n)
    decreases n
{
    let all = news_authors(ours, theirs);
    ours.dom().lemma_len_filter(|a: AuthorId| is_news(ours, theirs, a));
    all.lemma_len_filter(|a: AuthorId| exists|i: int| 0 <= i < n && *(#[trigger] s[i]).0 == a);
    if n == 0 {
        assert(news_upto(s, ours, theirs, 0) =~= Set::<AuthorId>::empty());
    } else {
        lemma_count_news_upto(s, ours, theirs, n - 1);
        let prev = news_upto(s, ours, theirs, n - 1);
        let cur = news_upto(s, ours, theirs, n);
        let a = *s[n - 1].0;
        assert(ours.contains_key(a) && ours[a] == *s[n - 1].1);
        // `a` was not seen among the first n-1 items: two items with the same key are the same item
        assert(!prev.contains(a)) by {
            if prev.contains(a) {
                let i = choose|i: int| 0 <= i < n - 1 && *(#[trigger] s[i]).0 == a;
                assert(ours[*s[i].0] == *s[i].1);
                assert(s[i] == s[n - 1]);
            }
        }
        if is_news(ours, theirs, a) {
            assert(cur =~= prev.insert(a)) by {
                assert forall|b: AuthorId| cur.contains(b) <==> prev.insert(a).contains(b) by {
                    if cur.contains(b) && b != a {
                        let i = choose|i: int| 0 <= i < n && *(#[trigger] s[i]).0 == b;
                        assert(i < n - 1);
                    }
                    if prev.contains(b) {
                        let i = choose|i: int| 0 <= i < n - 1 && *(#[trigger] s[i]).0 == b;
                        assert(0 <= i < n && *s[i].0 == b);
                    }
                    if b == a { assert(0 <= n - 1 < n && *s[n - 1].0 == a); }
                }
            }
        } else {
            assert(cur =~= prev) by {
                assert forall|b: AuthorId| cur.contains(b) <==> prev.contains(b) by {
                    if cur.contains(b) {
                        let i = choose|i: int| 0 <= i < n && *(#[trigger] s[i]).0 == b;
                        assert(i < n - 1);
                    }
                    if prev.contains(b) {
                        let i = choose|i: int| 0 <= i < n - 1 && *(#[trigger] s[i]).0 == b;
                        assert(0 <= i < n && *s[i].0 == b);
                    }
                }
            }
        }
    }
}

/// a full pass over an enumeration of `ours` counts exactly the authors with news
pub proof fn lemma_count_news_total<'a>(s: Seq<(&'a AuthorId, &'a u64)>, ours: Map<AuthorId, u64>, theirs: Map<AuthorId, u64>)
    requires enumerates(s, ours)
    ensures news_authors(ours, theirs).len() == count_news(s, theirs, s.len() as int)
{
    lemma_count_news_upto(s, ours, theirs, s.len() as int);
    ours.dom().lemma_len_filter(|a: AuthorId| is_news(ours, theirs, a));
    assert(news_upto(s, ours, theirs, s.len() as int) =~= news_authors(ours, theirs));
}

/// no news at all  <==>  every author of `ours` is known to `theirs` with a timestamp at least as new
pub proof fn lemma_no_news(ours: Map<AuthorId, u64>, theirs: Map<AuthorId, u64>)
    ensures
        news_authors(ours, theirs).len() == 0 <==> (forall|a: AuthorId| ours.contains_key(a) ==> theirs.contains_key(a) && ours[a] <= theirs[a]),
{
    let n = news_authors(ours, theirs);
    ours.dom().lemma_len_filter(|a: AuthorId| is_news(ours, theirs, a));
    if n.len() == 0 {
        n.lemma_len0_is_empty();
        assert forall|a: AuthorId| ours.contains_key(a) implies theirs.contains_key(a) && ours[a] <= theirs[a] by {
            assert(!n.contains(a));
        }
    }
    if forall|a: AuthorId| ours.contains_key(a) ==> theirs.contains_key(a) && ours[a] <= theirs[a] {
        assert(n =~= Set::<AuthorId>::empty());
    }
}

// ---------------- max-merge (insert / merge / decode) ----------------

/// `insert(a, t)`: the head of `a` becomes the larger of its old head and `t`; all other authors keep theirs
pub open spec fn heads_put(m: Map<AuthorId, u64>, a: AuthorId, t: u64) -> Map<AuthorId, u64> {
    m.insert(a, if m.contains_key(a) && m[a] > t { m[a] } else { t })
}

/// inserting a list of (timestamp, author) items front to back
pub open spec fn heads_put_all(m: Map<AuthorId, u64>, items: Seq<(u64, AuthorId)>) -> Map<AuthorId, u64>
    decreases items.len()
{
    if items.len() == 0 { m } else { heads_put(heads_put_all(m, items.drop_last()), items.last().1, items.last().0) }
}

/// `r` is the pointwise maximum of `m` and the items: same authors as `m` plus the item authors, each head an upper
/// bound of everything named for that author, and attained by `m` or by one of the items
pub open spec fn is_max_merge(r: Map<AuthorId, u64>, m: Map<AuthorId, u64>, items: Seq<(u64, AuthorId)>) -> bool {
    &&& mm_authors(r, m, items)
    &&& mm_above_old(r, m)
    &&& mm_above_items(r, items)
    &&& mm_attained(r, m, items)
}
pub open spec fn mm_authors(r: Map<AuthorId, u64>, m: Map<AuthorId, u64>, items: Seq<(u64, AuthorId)>) -> bool {
    forall|a: AuthorId| #[trigger] r.contains_key(a) <==> (m.contains_key(a) || exists|i: int| 0 <= i < items.len() && (#[trigger] items[i]).1 == a)
}
pub open spec fn mm_above_old(r: Map<AuthorId, u64>, m: Map<AuthorId, u64>) -> bool {
    forall|a: AuthorId| #[trigger] r.contains_key(a) && m.contains_key(a) ==> m[a] <= r[a]
}
pub open spec fn mm_above_items(r: Map<AuthorId, u64>, items: Seq<(u64, AuthorId)>) -> bool {
    forall|i: int| 0 <= i < items.len() ==> r.contains_key((#[trigger] items[i]).1) && items[i].0 <= r[items[i].1]
}
pub open spec fn mm_attained(r: Map<AuthorId, u64>, m: Map<AuthorId, u64>, items: Seq<(u64, AuthorId)>) -> bool {
    forall|a: AuthorId| #[trigger] r.contains_key(a) ==> ((m.contains_key(a) && r[a] == m[a]) || exists|i: int| 0 <= i < items.len() && #[trigger] items[i] == (r[a], a))
}

pub proof fn lemma_put_all_is_max_merge(m: Map<AuthorId, u64>, items: Seq<(u64, AuthorId)>)
    ensures is_max_merge(heads_put_all(m, items), m, items)
    decreases items.len()
{
    let r = heads_put_all(m, items);
    if items.len() == 0 {
    } else {
        let pre = items.drop_last();
        let p = heads_put_all(m, pre);
        let n = items.len() - 1;
        let (t, a) = items.last();
        lemma_put_all_is_max_merge(m, pre);
        assert(forall|i: int| 0 <= i < n ==> pre[i] == items[i]);
        assert(items[n] == (t, a));
        assert forall|b: AuthorId| #[trigger] r.contains_key(b) <==> (m.contains_key(b) || exists|i: int| 0 <= i < items.len() && (#[trigger] items[i]).1 == b) by {
            if r.contains_key(b) && b != a && !m.contains_key(b) {
                assert(p.contains_key(b));
                let i = choose|i: int| 0 <= i < pre.len() && (#[trigger] pre[i]).1 == b;
                assert(items[i].1 == b);
            }
            if exists|i: int| 0 <= i < items.len() && (#[trigger] items[i]).1 == b {
                let i = choose|i: int| 0 <= i < items.len() && (#[trigger] items[i]).1 == b;
                if i < n { assert(pre[i].1 == b); }
            }
            if b == a { assert(items[n].1 == a); }
        }
        assert forall|i: int| 0 <= i < items.len() implies r.contains_key((#[trigger] items[i]).1) && items[i].0 <= r[items[i].1] by {
            if i < n { assert(pre[i] == items[i]); assert(p.contains_key(pre[i].1)); }
        }
        assert forall|b: AuthorId| #[trigger] r.contains_key(b) implies ((m.contains_key(b) && r[b] == m[b]) || exists|i: int| 0 <= i < items.len() && #[trigger] items[i] == (r[b], b)) by {
            if b == a && !(p.contains_key(a) && p[a] > t) {
                assert(items[n] == (r[b], b));
            } else {
                assert(p.contains_key(b) && r[b] == p[b]);
                if !(m.contains_key(b) && p[b] == m[b]) {
                    let i = choose|i: int| 0 <= i < pre.len() && #[trigger] pre[i] == (p[b], b);
                    assert(items[i] == (r[b], b));
                }
            }
        }
        assert(mm_authors(r, m, items));
        assert forall|b: AuthorId| #[trigger] r.contains_key(b) && m.contains_key(b) implies m[b] <= r[b] by {
            assert(p.contains_key(b));
        }
        assert(mm_above_old(r, m));
        assert(mm_above_items(r, items));
        assert(mm_attained(r, m, items));
    }
}

/// one more item
pub proof fn lemma_put_all_push(m: Map<AuthorId, u64>, items: Seq<(u64, AuthorId)>, n: int)
    requires 0 <= n < items.len()
    ensures heads_put_all(m, items.take(n + 1)) == heads_put(heads_put_all(m, items.take(n)), items[n].1, items[n].0)
{
    assert(items.take(n + 1).drop_last() =~= items.take(n));
}

/// the items of an enumeration of a heads map, as owned (timestamp, author) pairs
pub open spec fn owned_items<'a>(s: Seq<(&'a AuthorId, &'a u64)>) -> Seq<(u64, AuthorId)> {
    Seq::new(s.len(), |i: int| (*s[i].1, *s[i].0))
}

/// the pointwise maximum of two heads maps
pub open spec fn merged_ts(ours: Map<AuthorId, u64>, theirs: Map<AuthorId, u64>, a: AuthorId) -> u64 {
    if ours.contains_key(a) && (!theirs.contains_key(a) || ours[a] >= theirs[a]) { ours[a] } else { theirs[a] }
}

/// `r` is the pointwise maximum of `ours` and `theirs`
pub open spec fn is_merged(r: Map<AuthorId, u64>, ours: Map<AuthorId, u64>, theirs: Map<AuthorId, u64>) -> bool {
    &&& (forall|a: AuthorId| #[trigger] r.contains_key(a) <==> (ours.contains_key(a) || theirs.contains_key(a)))
    &&& (forall|a: AuthorId| #[trigger] r.contains_key(a) ==> r[a] == merged_ts(ours, theirs, a))
}

/// inserting every item of an enumeration of `theirs` into `ours` yields the pointwise maximum
pub proof fn lemma_merge_enumeration<'a>(ours: Map<AuthorId, u64>, theirs: Map<AuthorId, u64>, s: Seq<(&'a AuthorId, &'a u64)>)
    requires enumerates(s, theirs)
    ensures is_merged(heads_put_all(ours, owned_items(s).take(s.len() as int)), ours, theirs)
{
    let items = owned_items(s);
    assert(items.take(s.len() as int) =~= items);
    let r = heads_put_all(ours, items);
    lemma_put_all_is_max_merge(ours, items);
    assert forall|a: AuthorId| #[trigger] r.contains_key(a) <==> (ours.contains_key(a) || theirs.contains_key(a)) by {
        if theirs.contains_key(a) {
            let i = choose|i: int| 0 <= i < s.len() && *(#[trigger] s[i]).0 == a;
            assert(items[i].1 == a);
        }
        if r.contains_key(a) && !ours.contains_key(a) {
            let i = choose|i: int| 0 <= i < items.len() && (#[trigger] items[i]).1 == a;
            assert(*s[i].0 == a);
        }
    }
    assert forall|a: AuthorId| #[trigger] r.contains_key(a) implies r[a] == merged_ts(ours, theirs, a) by {
        if theirs.contains_key(a) {
            let i = choose|i: int| 0 <= i < s.len() && *(#[trigger] s[i]).0 == a;
            assert(items[i] == (theirs[a], a));
            assert(items[i].0 <= r[items[i].1]);
        }
        if !(ours.contains_key(a) && r[a] == ours[a]) {
            let j = choose|j: int| 0 <= j < items.len() && #[trigger] items[j] == (r[a], a);
            assert(*s[j].0 == a && *s[j].1 == r[a]);
        }
    }
}
