// ================= lemmas (verified) over the proved transition contracts of spec/live_state_model.rs (C11, unit C) =================
// Two nodes `a` and `b`, each holding a slot for the other (same document), are modelled ONLY through the relations
// `peer_*_spec` / `nss_*_spec` that U-live-nss proves on the real text. `dir_is_accept` is the id tie-break; its
// antisymmetry (`a != b ==> dir(a,b) != dir(b,a)`) is a hypothesis here and Kani unit U-dir's obligation on the real
// `expected_sync_direction`.

/// simultaneous dial: both nodes are dialing each other and each receives the other's request
/// ==> exactly one of the two requests is allowed, the other is declined with AlreadySyncing; the node that allowed
/// now holds the session as accepted, the declined node's table is untouched (its own dial IS the accepted session).
proof fn lemma_simultaneous_dial_exactly_one(a: PublicKey, b: PublicKey, sa: Slot, sa2: Slot, ra: AcceptOutcome, sb: Slot, sb2: Slot, rb: AcceptOutcome)
    requires
        a != b,
        dir_is_accept(a, b) != dir_is_accept(b, a),
        slot_is_dialing(sa),                    // a's slot for b: a dialed b
        slot_is_dialing(sb),                    // b's slot for a: b dialed a
        peer_accept_spec(sa, sa2, a, b, ra),    // a handles b's request
        peer_accept_spec(sb, sb2, b, a, rb),    // b handles a's request
    ensures
        (ra is Allow) != (rb is Allow),
        ra is Allow ==> slot_is_accepting(sa2) && rb == AcceptOutcome::Reject(AbortReason::AlreadySyncing) && sb2 == sb,
        rb is Allow ==> slot_is_accepting(sb2) && ra == AcceptOutcome::Reject(AbortReason::AlreadySyncing) && sa2 == sa,
{}

/// the same at the level of the two nodes' tables (document `ns` syncing on both)
proof fn lemma_simultaneous_dial_tables(a: PublicKey, b: PublicKey, ns: NamespaceId, ta: StatesView, ta2: StatesView, ra: AcceptOutcome, tb: StatesView, tb2: StatesView, rb: AcceptOutcome)
    requires
        a != b,
        dir_is_accept(a, b) != dir_is_accept(b, a),
        ta.syncing.contains(ns), tb.syncing.contains(ns),
        slot_is_dialing(slot_at(ta, ns, b)),
        slot_is_dialing(slot_at(tb, ns, a)),
        nss_accept_spec(ta, ta2, a, ns, b, ra),
        nss_accept_spec(tb, tb2, b, ns, a, rb),
    ensures
        (ra is Allow) != (rb is Allow),
        !(ra is Allow) ==> ra == AcceptOutcome::Reject(AbortReason::AlreadySyncing) && slot_at(ta2, ns, b) == slot_at(ta, ns, b),
        !(rb is Allow) ==> rb == AcceptOutcome::Reject(AbortReason::AlreadySyncing) && slot_at(tb2, ns, a) == slot_at(tb, ns, a),
{
    lemma_simultaneous_dial_exactly_one(a, b, slot_at(ta, ns, b), ta2.slots[(ns, b)], ra, slot_at(tb, ns, a), tb2.slots[(ns, a)], rb);
}

/// never two sessions at once on one node for one (document, peer): while the slot is held, a dial is refused and a
/// further request is declined unless it wins the tie-break against our own dial (in which case it REPLACES the dial)
proof fn lemma_busy_slot_refuses(s: Slot, s2: Slot, me: PublicKey, node: PublicKey, reason: SyncReason, r: bool, s3: Slot, ro: AcceptOutcome)
    requires
        s.state is Running,
        peer_start_connect_spec(s, s2, reason, r),
        peer_accept_spec(s, s3, me, node, ro),
    ensures
        !r && s2.state == s.state,
        slot_is_accepting(s) ==> ro == AcceptOutcome::Reject(AbortReason::AlreadySyncing) && s3 == s,
        ro is Allow ==> slot_is_dialing(s) && dir_is_accept(me, node),
        (s2.resync <==> (s.resync || reason is SyncReport)),
{}

/// "ready again": once the completion of the session holding slot (ns, peer) was handled and no follow-up dial was
/// spawned, the node starts or accepts a new session with that peer
proof fn lemma_ready_after_finished(pre: StatesView, post: StatesView, d0: nat, d1: nat, ns: NamespaceId, peer: PublicKey, me: PublicKey,
        post2: StatesView, reason: SyncReason, r: bool, post3: StatesView, ro: AcceptOutcome)
    requires
        pre.syncing.contains(ns),
        finished_effect(pre, post, d0, d1, ns, peer),
        d1 == d0,
        nss_start_connect_spec(post, post2, ns, peer, reason, r),
        nss_accept_spec(post, post3, me, ns, peer, ro),
    ensures
        r,
        ro is Allow,
{}

/// a refused news report leads to exactly one follow-up dial: the refusal sets the flag, `finished_effect` turns the
/// flag into one spawned dial that holds the slot with the flag cleared, so the next completion spawns none unless
/// another report is refused meanwhile
proof fn lemma_refused_report_one_follow_up(t0: StatesView, t1: StatesView, r: bool, t2: StatesView, d0: nat, d2: nat, t3: StatesView, d3: nat, ns: NamespaceId, peer: PublicKey)
    requires
        t0.syncing.contains(ns),
        slot_at(t0, ns, peer).state is Running,
        nss_start_connect_spec(t0, t1, ns, peer, SyncReason::SyncReport, r),   // report arrives while busy
        finished_effect(t1, t2, d0, d2, ns, peer),                             // the running session completes
        finished_effect(t2, t3, d2, d3, ns, peer),                             // the follow-up dial completes
    ensures
        !r,
        d2 == d0 + 1,
        slot_is_dialing(t2.slots[(ns, peer)]) && t2.slots[(ns, peer)].state->origin == Origin::Connect(SyncReason::Resync),
        d3 == d2,
        t3.slots[(ns, peer)].state is Idle,
{}

/// the handler relations preserve the representation invariant
proof fn lemma_relations_keep_wf(pre: StatesView, post: StatesView, d0: nat, d1: nat, ns: NamespaceId, peer: PublicKey, reason: SyncReason, me: PublicKey, ro: AcceptOutcome)
    requires view_wf(pre)
    ensures
        finished_effect(pre, post, d0, d1, ns, peer) ==> view_wf(post),
        dial_effect(pre, post, d0, d1, ns, peer, reason) ==> view_wf(post),
        nss_accept_spec(pre, post, me, ns, peer, ro) ==> view_wf(post),
{}
