// ================= spec: ns ‖ author ‖ key as one byte string vs. the table key (ns, author, key) (verified) =================
// (needs spec/bytes.rs and spec/recid.rs)

/// the table key a 64+ byte identifier string stands for: bytes 0..32, 32..64, 64..
pub open spec fn rid_split(s: Seq<u8>) -> RecId {
    RecId { ns: s.subrange(0, 32), author: s.subrange(32, 64), key: s.subrange(64, s.len() as int) }
}

pub proof fn lemma_rid_split_wf(s: Seq<u8>)
    requires s.len() >= 64
    ensures
        rid_split(s).wf(),
        s =~= rid_split(s).ns + rid_split(s).author + rid_split(s).key,
{
}

/// splitting a concatenation gives back the parts
pub proof fn lemma_rid_split_concat(ns: Seq<u8>, au: Seq<u8>, key: Seq<u8>)
    requires ns.len() == 32, au.len() == 32
    ensures
        (ns + au + key).len() >= 64,
        rid_split(ns + au + key).ns =~= ns,
        rid_split(ns + au + key).author =~= au,
        rid_split(ns + au + key).key =~= key,
{
}

/// byte-wise lexicographic order on ns ‖ author ‖ key (|ns| = |author| = 32) is the component-wise order of the
/// tuple (ns, author, key): `<`, `==` and `<=` agree
pub proof fn lemma_rid_concat_order(a: Seq<u8>, b: Seq<u8>)
    requires a.len() >= 64, b.len() >= 64
    ensures
        lex_lt(a, b) <==> rec_lt(rid_split(a), rid_split(b)),
        (a =~= b) <==> rec_eq(rid_split(a), rid_split(b)),
        lex_le(a, b) <==> rec_le(rid_split(a), rid_split(b)),
{
    let ra = rid_split(a);
    let rb = rid_split(b);
    // equality
    if rec_eq(ra, rb) {
        lemma_rid_split_wf(a);
        lemma_rid_split_wf(b);
        assert(a =~= b);
    }
    // lex_lt ==> rec_lt
    if lex_lt(a, b) {
        let i = choose|i: int| diff_at(a, b, i);
        if i < 32 {
            assert forall|t: int| 0 <= t < i implies ra.ns[t] == rb.ns[t] by { assert(a[t] == b[t]); }
            assert(diff_at(ra.ns, rb.ns, i));
        } else {
            assert(ra.ns =~= rb.ns) by {
                assert forall|t: int| 0 <= t < 32 implies ra.ns[t] == rb.ns[t] by { assert(a[t] == b[t]); }
            }
            if i < 64 {
                assert forall|t: int| 0 <= t < i - 32 implies ra.author[t] == rb.author[t] by { assert(a[t + 32] == b[t + 32]); }
                assert(diff_at(ra.author, rb.author, i - 32));
            } else {
                assert(ra.author =~= rb.author) by {
                    assert forall|t: int| 0 <= t < 32 implies ra.author[t] == rb.author[t] by { assert(a[t + 32] == b[t + 32]); }
                }
                assert forall|t: int| 0 <= t < i - 64 implies ra.key[t] == rb.key[t] by { assert(a[t + 64] == b[t + 64]); }
                assert(diff_at(ra.key, rb.key, i - 64));
            }
        }
    }
    // rec_lt ==> lex_lt
    if rec_lt(ra, rb) {
        if lex_lt(ra.ns, rb.ns) {
            let j = choose|j: int| diff_at(ra.ns, rb.ns, j);
            assert forall|t: int| 0 <= t < j implies a[t] == b[t] by { assert(ra.ns[t] == rb.ns[t]); }
            assert(a[j] == ra.ns[j] && b[j] == rb.ns[j]);
            assert(diff_at(a, b, j));
        } else {
            assert forall|t: int| 0 <= t < 32 implies a[t] == b[t] by { assert(ra.ns[t] == rb.ns[t]); }
            if lex_lt(ra.author, rb.author) {
                let j = choose|j: int| diff_at(ra.author, rb.author, j);
                assert forall|t: int| 0 <= t < 32 + j implies a[t] == b[t] by {
                    if t >= 32 { assert(ra.author[t - 32] == rb.author[t - 32]); }
                }
                assert(a[32 + j] == ra.author[j] && b[32 + j] == rb.author[j]);
                assert(diff_at(a, b, 32 + j));
            } else {
                assert forall|t: int| 32 <= t < 64 implies a[t] == b[t] by { assert(ra.author[t - 32] == rb.author[t - 32]); }
                let j = choose|j: int| diff_at(ra.key, rb.key, j);
                assert forall|t: int| 0 <= t < 64 + j implies a[t] == b[t] by {
                    if t >= 64 { assert(ra.key[t - 64] == rb.key[t - 64]); }
                }
                if j < ra.key.len() && j < rb.key.len() {
                    assert(a[64 + j] == ra.key[j] && b[64 + j] == rb.key[j]);
                }
                assert(diff_at(a, b, 64 + j));
            }
        }
    }
}
