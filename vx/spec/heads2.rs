// ================= spec (heads2): the head list written by `AuthorHeads::encode`; verified, not trusted =================
// (uses spec/bytes.rs `lex_lt`, spec/heads.rs `heads_put_all` / `enumerates` / `owned_items`, and the uninterpreted postcard
// encoding of prelude/heads_postcard.rs + prelude/heads2_enc.rs)

pub type HeadItem = (u64, AuthorId);

/// the `Ord` of `(Timestamp, AuthorId)`: timestamps numerically, ties by the author's 32 bytes lexicographically
pub open spec fn head_item_lt(a: HeadItem, b: HeadItem) -> bool {
    a.0 < b.0 || (a.0 == b.0 && lex_lt(a.1.0@, b.1.0@))
}

/// `s` lists exactly the elements of `set`, strictly ascending (what `BTreeSet::into_iter` yields)
pub open spec fn heads_asc_listing(s: Seq<HeadItem>, set: Set<HeadItem>) -> bool {
    &&& (forall|i: int, j: int| 0 <= i < j < s.len() ==> #[trigger] head_item_lt(s[i], s[j]))
    &&& (forall|i: int| 0 <= i < s.len() ==> set.contains(#[trigger] s[i]))
    &&& (forall|e: HeadItem| set.contains(e) ==> exists|i: int| 0 <= i < s.len() && #[trigger] s[i] == e)
}

/// `set` holds exactly the rows of the heads map `m`, as (timestamp, author) pairs
pub open spec fn is_rows_set(set: Set<HeadItem>, m: Map<AuthorId, u64>) -> bool {
    forall|e: HeadItem| #[trigger] set.contains(e) <==> (m.contains_key(e.1) && m[e.1] == e.0)
}

/// `set` holds exactly the first `n` items of `items`
pub open spec fn rows_upto(set: Set<HeadItem>, items: Seq<HeadItem>, n: int) -> bool {
    forall|e: HeadItem| #[trigger] set.contains(e) <==> (exists|i: int| 0 <= i < n && #[trigger] items[i] == e)
}

/// `s` lists the heads of `m` newest first: strictly descending in (timestamp, author), every item a row of `m`,
/// every author of `m` present (hence exactly once: a second item of the same author would be the same pair)
pub open spec fn heads_newest_first(s: Seq<HeadItem>, m: Map<AuthorId, u64>) -> bool {
    &&& (forall|i: int, j: int| 0 <= i < j < s.len() ==> #[trigger] head_item_lt(s[j], s[i]))
    &&& (forall|i: int| 0 <= i < s.len() ==> m.contains_key((#[trigger] s[i]).1) && m[s[i].1] == s[i].0)
    &&& (forall|a: AuthorId| m.contains_key(a) ==> exists|i: int| 0 <= i < s.len() && #[trigger] s[i] == (m[a], a))
}

/// THE newest-first list of the heads of `m` (unique by `lemma_newest_first_unique`; it exists for every map that a
/// `BTreeSet` can enumerate - the contract of `encode` states `heads_newest_first(heads_desc(m), m)` for its own map)
pub open spec fn heads_desc(m: Map<AuthorId, u64>) -> Seq<HeadItem> {
    choose|s: Seq<HeadItem>| heads_newest_first(s, m)
}

/// how many heads `encode` keeps under `limit`, exactly as the code decides it: heads are appended newest first, and the
/// first one whose addition makes the encoded list longer than `limit` is taken off again and ends the loop
pub open spec fn heads_kept(s: Seq<HeadItem>, limit: nat, k: int) -> bool {
    &&& 0 <= k <= s.len()
    &&& (forall|j: int| 1 <= j <= k ==> #[trigger] postcard_heads_enc(s.take(j)).len() <= limit)
    &&& (k < s.len() ==> postcard_heads_enc(s.take(k + 1)).len() > limit)
}

// ---------------- order ----------------

pub proof fn lemma_head_item_lt_irrefl(a: HeadItem)
    ensures !head_item_lt(a, a)
{
    lemma_lex_irrefl(a.1.0@);
}

pub proof fn lemma_head_item_lt_asym(a: HeadItem, b: HeadItem)
    ensures !(head_item_lt(a, b) && head_item_lt(b, a))
{
    lemma_lex_asym(a.1.0@, b.1.0@);
}

// ---------------- first loop of encode: the set of rows ----------------

pub proof fn lemma_rows_upto_step(set: Set<HeadItem>, items: Seq<HeadItem>, n: int)
    requires rows_upto(set, items, n), 0 <= n < items.len()
    ensures rows_upto(set.insert(items[n]), items, n + 1)
{
    let set2 = set.insert(items[n]);
    assert forall|e: HeadItem| #[trigger] set2.contains(e) <==> (exists|i: int| 0 <= i < n + 1 && #[trigger] items[i] == e) by {
        if set2.contains(e) {
            if e == items[n] {
                assert(0 <= n < n + 1 && items[n] == e);
            } else {
                assert(set.contains(e));
                let i = choose|i: int| 0 <= i < n && #[trigger] items[i] == e;
                assert(0 <= i < n + 1 && items[i] == e);
            }
        }
        if exists|i: int| 0 <= i < n + 1 && #[trigger] items[i] == e {
            let i = choose|i: int| 0 <= i < n + 1 && #[trigger] items[i] == e;
            if i < n {
                assert(0 <= i < n && items[i] == e);
                assert(set.contains(e));
            }
        }
    }
}

/// after a full pass over an enumeration of `m` the set holds exactly the rows of `m`
pub proof fn lemma_rows_complete<'a>(set: Set<HeadItem>, s: Seq<(&'a AuthorId, &'a u64)>, m: Map<AuthorId, u64>)
    requires enumerates(s, m), rows_upto(set, owned_items(s), s.len() as int)
    ensures is_rows_set(set, m)
{
    let items = owned_items(s);
    assert forall|e: HeadItem| #[trigger] set.contains(e) <==> (m.contains_key(e.1) && m[e.1] == e.0) by {
        if set.contains(e) {
            let i = choose|i: int| 0 <= i < s.len() && #[trigger] items[i] == e;
            assert(m.contains_key(*s[i].0) && m[*s[i].0] == *s[i].1);
        }
        if m.contains_key(e.1) && m[e.1] == e.0 {
            let i = choose|i: int| 0 <= i < s.len() && *(#[trigger] s[i]).0 == e.1;
            assert(m[*s[i].0] == *s[i].1);
            assert(items[i] == e);
        }
    }
}

// ---------------- the newest-first list ----------------

/// the ascending listing of the row set, read backwards, lists the heads newest first
pub proof fn lemma_asc_listing_reversed(l: Seq<HeadItem>, set: Set<HeadItem>, m: Map<AuthorId, u64>)
    requires heads_asc_listing(l, set), is_rows_set(set, m)
    ensures heads_newest_first(l.reverse(), m), heads_desc(m) == l.reverse(), heads_newest_first(heads_desc(m), m)
{
    let r = l.reverse();
    let n = l.len() as int;
    assert forall|i: int, j: int| 0 <= i < j < r.len() implies #[trigger] head_item_lt(r[j], r[i]) by {
        assert(r[j] == l[n - 1 - j] && r[i] == l[n - 1 - i]);
        assert(head_item_lt(l[n - 1 - j], l[n - 1 - i]));
    }
    assert forall|i: int| 0 <= i < r.len() implies m.contains_key((#[trigger] r[i]).1) && m[r[i].1] == r[i].0 by {
        assert(r[i] == l[n - 1 - i]);
        assert(set.contains(l[n - 1 - i]));
    }
    assert forall|a: AuthorId| m.contains_key(a) implies exists|i: int| 0 <= i < r.len() && #[trigger] r[i] == (m[a], a) by {
        let e = (m[a], a);
        assert(set.contains(e));
        let k = choose|k: int| 0 <= k < l.len() && #[trigger] l[k] == e;
        assert(r[n - 1 - k] == l[k]);
    }
    lemma_heads_desc_is(r, m);
}

/// two newest-first lists of the same map are the same list
pub proof fn lemma_newest_first_unique(s1: Seq<HeadItem>, s2: Seq<HeadItem>, m: Map<AuthorId, u64>)
    requires heads_newest_first(s1, m), heads_newest_first(s2, m)
    ensures s1 == s2
    decreases s1.len()
{
    if s1.len() == 0 || s2.len() == 0 {
        if s2.len() > 0 {
            let e = s2[0];
            assert(m.contains_key(e.1));
            let i = choose|i: int| 0 <= i < s1.len() && #[trigger] s1[i] == (m[e.1], e.1);
            assert(false);
        }
        if s1.len() > 0 {
            let e = s1[0];
            assert(m.contains_key(e.1));
            let i = choose|i: int| 0 <= i < s2.len() && #[trigger] s2[i] == (m[e.1], e.1);
            assert(false);
        }
        assert(s1 =~= s2);
    } else {
        // the first items agree: both are the greatest row
        let a = s1[0];
        let b = s2[0];
        assert(m.contains_key(a.1) && m[a.1] == a.0);
        assert(m.contains_key(b.1) && m[b.1] == b.0);
        let ia = choose|i: int| 0 <= i < s2.len() && #[trigger] s2[i] == (m[a.1], a.1);
        let ib = choose|i: int| 0 <= i < s1.len() && #[trigger] s1[i] == (m[b.1], b.1);
        assert(s2[ia] == a);
        assert(s1[ib] == b);
        if a != b {
            lemma_head_item_lt_asym(a, b);
            if ia > 0 { assert(head_item_lt(s2[ia], s2[0])); }
            if ib > 0 { assert(head_item_lt(s1[ib], s1[0])); }
        }
        assert(a == b);
        let m2 = m.remove(a.1);
        let t1 = s1.subrange(1, s1.len() as int);
        let t2 = s2.subrange(1, s2.len() as int);
        lemma_newest_first_tail(s1, m);
        lemma_newest_first_tail(s2, m);
        lemma_newest_first_unique(t1, t2, m2);
        assert(s1 =~= seq![a] + t1);
        assert(s2 =~= seq![b] + t2);
    }
}

/// without its first item, a newest-first list lists the map without that author
pub proof fn lemma_newest_first_tail(s: Seq<HeadItem>, m: Map<AuthorId, u64>)
    requires heads_newest_first(s, m), s.len() > 0
    ensures heads_newest_first(s.subrange(1, s.len() as int), m.remove(s[0].1))
{
    let a = s[0];
    let t = s.subrange(1, s.len() as int);
    let m2 = m.remove(a.1);
    assert forall|i: int, j: int| 0 <= i < j < t.len() implies #[trigger] head_item_lt(t[j], t[i]) by {
        assert(t[j] == s[j + 1] && t[i] == s[i + 1]);
        assert(head_item_lt(s[j + 1], s[i + 1]));
    }
    assert forall|i: int| 0 <= i < t.len() implies m2.contains_key((#[trigger] t[i]).1) && m2[t[i].1] == t[i].0 by {
        assert(t[i] == s[i + 1]);
        assert(m.contains_key(s[i + 1].1) && m[s[i + 1].1] == s[i + 1].0);
        assert(m.contains_key(a.1) && m[a.1] == a.0);
        if s[i + 1].1 == a.1 {
            assert(s[i + 1] == a);
            assert(head_item_lt(s[i + 1], s[0]));
            lemma_head_item_lt_irrefl(a);
        }
    }
    assert forall|x: AuthorId| m2.contains_key(x) implies exists|i: int| 0 <= i < t.len() && #[trigger] t[i] == (m2[x], x) by {
        assert(m.contains_key(x) && x != a.1);
        let i = choose|i: int| 0 <= i < s.len() && #[trigger] s[i] == (m[x], x);
        assert(i != 0);
        assert(t[i - 1] == s[i]);
    }
}

/// any newest-first list of `m` is `heads_desc(m)`
pub proof fn lemma_heads_desc_is(s: Seq<HeadItem>, m: Map<AuthorId, u64>)
    requires heads_newest_first(s, m)
    ensures heads_desc(m) == s, heads_newest_first(heads_desc(m), m)
{
    lemma_newest_first_unique(heads_desc(m), s, m);
}

/// the authors of a newest-first list are pairwise distinct, and there are as many items as authors
pub proof fn lemma_newest_first_authors_distinct(s: Seq<HeadItem>, m: Map<AuthorId, u64>)
    requires heads_newest_first(s, m)
    ensures forall|i: int, j: int| 0 <= i < j < s.len() ==> (#[trigger] s[i]).1 != (#[trigger] s[j]).1
{
    assert forall|i: int, j: int| 0 <= i < j < s.len() implies (#[trigger] s[i]).1 != (#[trigger] s[j]).1 by {
        if s[i].1 == s[j].1 {
            assert(m[s[i].1] == s[i].0 && m[s[j].1] == s[j].0);
            assert(s[i] == s[j]);
            assert(head_item_lt(s[j], s[i]));
            lemma_head_item_lt_irrefl(s[i]);
        }
    }
}

// ---------------- how many heads are kept under a limit ----------------

/// the number of kept heads is determined by the list and the limit
pub proof fn lemma_heads_kept_unique(s: Seq<HeadItem>, limit: nat, k1: int, k2: int)
    requires heads_kept(s, limit, k1), heads_kept(s, limit, k2)
    ensures k1 == k2
{
    if k1 < k2 {
        assert(postcard_heads_enc(s.take(k1 + 1)).len() <= limit);
    }
    if k2 < k1 {
        assert(postcard_heads_enc(s.take(k2 + 1)).len() <= limit);
    }
}

/// longer prefixes have longer (or equal) encodings - from the TRUSTED one-step monotonicity axiom
pub proof fn lemma_enc_prefix_monotone(s: Seq<HeadItem>, i: int, j: int)
    requires 0 <= i <= j <= s.len()
    ensures postcard_heads_enc(s.take(i)).len() <= postcard_heads_enc(s.take(j)).len()
    decreases j - i
{
    if i < j {
        lemma_enc_prefix_monotone(s, i, j - 1);
        axiom_postcard_heads_enc_monotone(s.take(j - 1), s[j - 1]);
        assert(s.take(j - 1).push(s[j - 1]) =~= s.take(j));
    }
}

/// "the newest heads that fit": with monotone encodings, the kept prefix is the LONGEST prefix of the newest-first list
/// whose encoding is within the limit - every longer prefix exceeds it, every shorter one (the empty list included) fits
pub proof fn lemma_heads_kept_is_longest_fitting_prefix(s: Seq<HeadItem>, limit: nat, k: int)
    requires heads_kept(s, limit, k), postcard_heads_enc(s.take(k)).len() <= limit
    ensures
        forall|j: int| k < j <= s.len() ==> #[trigger] postcard_heads_enc(s.take(j)).len() > limit,
        forall|j: int| 0 <= j <= k ==> #[trigger] postcard_heads_enc(s.take(j)).len() <= limit,
{
    assert forall|j: int| k < j <= s.len() implies #[trigger] postcard_heads_enc(s.take(j)).len() > limit by {
        lemma_enc_prefix_monotone(s, k + 1, j);
    }
    assert forall|j: int| 0 <= j <= k implies #[trigger] postcard_heads_enc(s.take(j)).len() <= limit by {
        lemma_enc_prefix_monotone(s, j, k);
    }
}

// ---------------- decode after encode ----------------

/// inserting a prefix of the newest-first list into the empty map yields exactly those rows of `m`
pub proof fn lemma_put_all_prefix_of_newest_first(s: Seq<HeadItem>, m: Map<AuthorId, u64>, k: int)
    requires heads_newest_first(s, m), 0 <= k <= s.len()
    ensures ({
        let r = heads_put_all(Map::<AuthorId, u64>::empty(), s.take(k));
        &&& (forall|a: AuthorId| #[trigger] r.contains_key(a) <==> (exists|i: int| 0 <= i < k && (#[trigger] s[i]).1 == a))
        &&& (forall|a: AuthorId| #[trigger] r.contains_key(a) ==> m.contains_key(a) && r[a] == m[a])
    })
{
    let e = Map::<AuthorId, u64>::empty();
    let p = s.take(k);
    let r = heads_put_all(e, p);
    lemma_put_all_is_max_merge(e, p);
    assert(mm_authors(r, e, p));
    assert(mm_attained(r, e, p));
    assert forall|a: AuthorId| #[trigger] r.contains_key(a) <==> (exists|i: int| 0 <= i < k && (#[trigger] s[i]).1 == a) by {
        if r.contains_key(a) {
            let i = choose|i: int| 0 <= i < p.len() && (#[trigger] p[i]).1 == a;
            assert(p[i] == s[i]);
            assert(0 <= i < k && s[i].1 == a);
        }
        if exists|i: int| 0 <= i < k && (#[trigger] s[i]).1 == a {
            let i = choose|i: int| 0 <= i < k && (#[trigger] s[i]).1 == a;
            assert(p[i] == s[i]);
            assert(0 <= i < p.len() && p[i].1 == a);
        }
    }
    assert forall|a: AuthorId| #[trigger] r.contains_key(a) implies m.contains_key(a) && r[a] == m[a] by {
        let i = choose|i: int| 0 <= i < p.len() && #[trigger] p[i] == (r[a], a);
        assert(p[i] == s[i]);
        assert(m.contains_key(s[i].1) && m[s[i].1] == s[i].0);
    }
}

/// inserting the whole newest-first list into the empty map rebuilds `m`: every author is there, with its timestamp
/// (also when several authors share a timestamp)
pub proof fn lemma_put_all_newest_first_is_map(s: Seq<HeadItem>, m: Map<AuthorId, u64>)
    requires heads_newest_first(s, m)
    ensures heads_put_all(Map::<AuthorId, u64>::empty(), s) == m
{
    let r = heads_put_all(Map::<AuthorId, u64>::empty(), s);
    lemma_put_all_prefix_of_newest_first(s, m, s.len() as int);
    assert(s.take(s.len() as int) =~= s);
    assert forall|a: AuthorId| m.contains_key(a) implies r.contains_key(a) by {
        let i = choose|i: int| 0 <= i < s.len() && #[trigger] s[i] == (m[a], a);
        assert(0 <= i < s.len() && s[i].1 == a);
    }
    assert(r =~= m);
}

/// `decode(encode(None))`: the bytes `encode` returns without a limit (contract heads.encode.unlimited-*) decode
/// (contract heads.decode.fails-only-on-malformed-bytes / heads.decode.max-merge-of-items) to the same map
pub proof fn lemma_encode_unlimited_decodes_to_same_heads(m: Map<AuthorId, u64>, bytes: Seq<u8>)
    requires
        heads_newest_first(heads_desc(m), m),
        bytes == postcard_heads_enc(heads_desc(m)),
    ensures
        postcard_heads_decodes(bytes),
        heads_put_all(Map::<AuthorId, u64>::empty(), postcard_heads_items(bytes)) == m,
{
    axiom_postcard_heads_roundtrip(heads_desc(m));
    lemma_put_all_newest_first_is_map(heads_desc(m), m);
}

/// `decode(encode(Some(limit)))`: the decoded heads are rows of `m` - exactly the `k` newest ones, where `k` is the
/// longest prefix of the newest-first list that fits the limit
pub proof fn lemma_encode_limited_decodes_to_newest_heads(m: Map<AuthorId, u64>, limit: nat, k: int, bytes: Seq<u8>)
    requires
        heads_newest_first(heads_desc(m), m),
        heads_kept(heads_desc(m), limit, k),
        bytes == postcard_heads_enc(heads_desc(m).take(k)),
        bytes.len() <= limit,
    ensures
        postcard_heads_decodes(bytes),
        ({
            let r = heads_put_all(Map::<AuthorId, u64>::empty(), postcard_heads_items(bytes));
            &&& (forall|a: AuthorId| #[trigger] r.contains_key(a) <==> (exists|i: int| 0 <= i < k && (#[trigger] heads_desc(m)[i]).1 == a))
            &&& (forall|a: AuthorId| #[trigger] r.contains_key(a) ==> m.contains_key(a) && r[a] == m[a])
        }),
        forall|j: int| k < j <= heads_desc(m).len() ==> #[trigger] postcard_heads_enc(heads_desc(m).take(j)).len() > limit,
{
    axiom_postcard_heads_roundtrip(heads_desc(m).take(k));
    lemma_put_all_prefix_of_newest_first(heads_desc(m), m, k);
    lemma_heads_kept_is_longest_fitting_prefix(heads_desc(m), limit, k);
}
