// ================= spec: projection of the records / heads tables of one namespace onto the abstract replica of spec/putspec.rs =================
// ---- the link to the abstract replica of spec/putspec.rs (used by the join lemmas of L-join): machine-checked here, on the real `put` ----
/// the records of one namespace as the abstract replica: (author, key) -> (timestamp, hash)
pub open spec fn proj(records: Map<RecId, RecVal>, ns: Seq<u8>) -> Rep {
    Map::new(records.dom().filter(|k: RecId| k.ns == ns).map(|k: RecId| Slot { author: k.author, key: k.key }),
             |s: Slot| Val { ts: records[RecId { ns: ns, author: s.author, key: s.key }].ts, hash: records[RecId { ns: ns, author: s.author, key: s.key }].hash })
}
pub proof fn lemma_proj_dom(records: Map<RecId, RecVal>, ns: Seq<u8>, s: Slot)
    ensures proj(records, ns).contains_key(s) <==> records.contains_key(RecId { ns: ns, author: s.author, key: s.key })
{
    let d = records.dom().filter(|k: RecId| k.ns == ns);
    let f = |k: RecId| Slot { author: k.author, key: k.key };
    let k0 = RecId { ns: ns, author: s.author, key: s.key };
    if d.map(f).contains(s) {
        let k = choose|k: RecId| #![trigger d.contains(k)] d.contains(k) && f(k) == s;
        assert(d.contains(k) && f(k) == s);
        assert(k == k0);
    }
    if records.contains_key(k0) {
        assert(d.contains(k0) && f(k0) == s);
        assert(d.map(f).contains(s));
    }
}
/// the per-author heads of one namespace as the abstract heads: author -> greatest timestamp
pub open spec fn hproj(latest: Map<LatestKey, LatestVal>, ns: Seq<u8>) -> Heads {
    Map::new(latest.dom().filter(|k: LatestKey| k.ns == ns).map(|k: LatestKey| k.author), |a: Seq<u8>| latest[LatestKey { ns: ns, author: a }].ts)
}
pub proof fn lemma_hproj_dom(latest: Map<LatestKey, LatestVal>, ns: Seq<u8>, a: Seq<u8>)
    ensures hproj(latest, ns).contains_key(a) <==> latest.contains_key(LatestKey { ns: ns, author: a })
{
    let d = latest.dom().filter(|k: LatestKey| k.ns == ns);
    let f = |k: LatestKey| k.author;
    let k0 = LatestKey { ns: ns, author: a };
    if d.map(f).contains(a) {
        let k = choose|k: LatestKey| #![trigger d.contains(k)] d.contains(k) && f(k) == a;
        assert(d.contains(k) && f(k) == a);
        assert(k == k0);
    }
    if latest.contains_key(k0) {
        assert(d.contains(k0) && f(k0) == a);
        assert(d.map(f).contains(a));
    }
}
pub open spec fn ent_of_entry(e: EntryV) -> Ent { Ent { author: e.id.author, key: e.id.key, val: Val { ts: e.val.ts, hash: e.val.hash } } }

