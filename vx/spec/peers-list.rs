// ================= spec (peers, part 2): existence of listings, the list step, verified =================

pub proof fn lemma_row_total(a: PeerRow, b: PeerRow)
    ensures peer_row_lt(a, b) || a == b || peer_row_lt(b, a)
{
    lemma_lex_total(a.1, b.1);
    if a.0 == b.0 && a.1 =~= b.1 { assert(a == b); }
}

/// every finite set of rows has a greatest row
pub proof fn lemma_max_exists(set: Set<PeerRow>)
    requires set.finite(), set.len() > 0
    ensures exists|m: PeerRow| #[trigger] set.contains(m) && (forall|x: PeerRow| #[trigger] set.contains(x) ==> peer_row_le(x, m))
    decreases set.len()
{
    let e = set.choose();
    let rest = set.remove(e);
    if rest.len() == 0 {
        assert forall|x: PeerRow| #[trigger] set.contains(x) implies peer_row_le(x, e) by {
            if x != e { assert(rest.contains(x)); assert(rest =~= Set::<PeerRow>::empty()); }
        }
        assert(set.contains(e));
    } else {
        lemma_max_exists(rest);
        let m0 = choose|m: PeerRow| #[trigger] rest.contains(m) && (forall|x: PeerRow| #[trigger] rest.contains(x) ==> peer_row_le(x, m));
        lemma_row_total(m0, e);
        let m = if peer_row_lt(m0, e) { e } else { m0 };
        assert forall|x: PeerRow| #[trigger] set.contains(x) implies peer_row_le(x, m) by {
            if x != e {
                assert(rest.contains(x));
                assert(peer_row_le(x, m0));
                if peer_row_lt(m0, e) && x != m0 { lemma_row_lt_trans(x, m0, e); }
            }
        }
        assert(set.contains(m));
    }
}

/// every finite set of rows has an ascending listing (so `peer_list` is determined for every finite set)
pub proof fn lemma_listing_exists(set: Set<PeerRow>)
    requires set.finite()
    ensures exists|s: Seq<PeerRow>| peers_listing(s, set)
    decreases set.len()
{
    if set.len() == 0 {
        let s = Seq::<PeerRow>::empty();
        assert(set =~= Set::<PeerRow>::empty());
        assert(peers_listing(s, set));
    } else {
        lemma_max_exists(set);
        let m = choose|m: PeerRow| #[trigger] set.contains(m) && (forall|x: PeerRow| #[trigger] set.contains(x) ==> peer_row_le(x, m));
        let rest = set.remove(m);
        lemma_listing_exists(rest);
        let s0 = choose|s: Seq<PeerRow>| peers_listing(s, rest);
        let s = s0.push(m);
        assert forall|i: int, j: int| 0 <= i < j < s.len() implies peer_row_lt(#[trigger] s[i], #[trigger] s[j]) by {
            if j == s0.len() { assert(rest.contains(s0[i])); assert(set.contains(s0[i])); assert(peer_row_le(s0[i], m)); }
        }
        assert forall|i: int| 0 <= i < s.len() implies set.contains(#[trigger] s[i]) by {
            if i < s0.len() { assert(rest.contains(s0[i])); }
        }
        assert forall|e: PeerRow| set.contains(e) implies exists|i: int| 0 <= i < s.len() && #[trigger] s[i] == e by {
            if e == m { assert(s[s0.len() as int] == e); }
            else { assert(rest.contains(e)); let i = choose|i: int| 0 <= i < s0.len() && s0[i] == e; assert(s[i] == e); }
        }
        assert(peers_listing(s, set));
    }
}

// ---- lemmas about list_without ----

pub proof fn lemma_without_absent(l: Seq<Seq<u8>>, p: Seq<u8>)
    requires forall|i: int| 0 <= i < l.len() ==> l[i] != p
    ensures list_without(l, p) == l
    decreases l.len()
{
    if l.len() > 0 {
        let t = l.skip(1);
        assert forall|i: int| 0 <= i < t.len() implies t[i] != p by { assert(t[i] == l[i + 1]); }
        lemma_without_absent(t, p);
        assert(l =~= seq![l[0]] + t);
    }
}

pub proof fn lemma_without_single(l: Seq<Seq<u8>>, p: Seq<u8>, k: int)
    requires 0 <= k < l.len(), l[k] == p, forall|i: int| 0 <= i < l.len() && i != k ==> l[i] != p
    ensures list_without(l, p) == l.remove(k)
    decreases l.len()
{
    let t = l.skip(1);
    if k == 0 {
        assert forall|i: int| 0 <= i < t.len() implies t[i] != p by { assert(t[i] == l[i + 1]); }
        lemma_without_absent(t, p);
        assert(l.remove(0) =~= t);
    } else {
        assert(t[k - 1] == l[k]);
        assert forall|i: int| 0 <= i < t.len() && i != k - 1 implies t[i] != p by { assert(t[i] == l[i + 1]); }
        lemma_without_single(t, p, k - 1);
        assert(l.remove(k) =~= seq![l[0]] + t.remove(k - 1));
    }
}

/// the oldest row is the first row of the listing
pub proof fn lemma_oldest_is_first(s: Seq<PeerRow>, set: Set<PeerRow>, o: PeerRow)
    requires peers_listing(s, set), is_oldest(set, o)
    ensures s.len() > 0, s[0] == o
{
    let i = choose|i: int| 0 <= i < s.len() && s[i] == o;
    if i > 0 {
        assert(set.contains(s[0]));
        assert(peer_row_le(o, s[0]));
        assert(peer_row_lt(s[0], s[i]));
        lemma_row_lt_asym(s[0], o);
        lemma_row_lt_irrefl(o);
    }
}

/// appending a row that is greater than all rows of a listing
pub proof fn lemma_listing_push(s: Seq<PeerRow>, set: Set<PeerRow>, row: PeerRow)
    requires peers_listing(s, set), forall|e: PeerRow| #[trigger] set.contains(e) ==> peer_row_lt(e, row)
    ensures peers_listing(s.push(row), set.insert(row))
{
    let sn = s.push(row);
    let n = s.len() as int;
    assert forall|a: int, b: int| 0 <= a < b < sn.len() implies peer_row_lt(#[trigger] sn[a], #[trigger] sn[b]) by {
        assert(set.contains(s[a]));
        if b < n { assert(peer_row_lt(s[a], s[b])); }
    }
    assert forall|i: int| 0 <= i < sn.len() implies set.insert(row).contains(#[trigger] sn[i]) by {
        if i < n { assert(set.contains(s[i])); }
    }
    assert forall|e: PeerRow| set.insert(row).contains(e) implies exists|i: int| 0 <= i < sn.len() && #[trigger] sn[i] == e by {
        if e == row { assert(sn[n] == e); }
        else { let i = choose|i: int| 0 <= i < n && s[i] == e; assert(sn[i] == e); }
    }
}

/// dropping the j-th row of a listing
pub proof fn lemma_listing_remove(s: Seq<PeerRow>, set: Set<PeerRow>, j: int)
    requires peers_listing(s, set), 0 <= j < s.len()
    ensures peers_listing(s.remove(j), set.remove(s[j]))
{
    lemma_listing_no_dup(s, set);
    let sn = s.remove(j);
    let n = s.len() as int;
    assert forall|i: int| 0 <= i < n - 1 implies (#[trigger] sn[i]) == (if i < j { s[i] } else { s[i + 1] }) by { }
    assert forall|a: int, b: int| 0 <= a < b < sn.len() implies peer_row_lt(#[trigger] sn[a], #[trigger] sn[b]) by {
        let xa = if a < j { a } else { a + 1 };
        let xb = if b < j { b } else { b + 1 };
        assert(peer_row_lt(s[xa], s[xb]));
    }
    assert forall|i: int| 0 <= i < sn.len() implies set.remove(s[j]).contains(#[trigger] sn[i]) by {
        let xi = if i < j { i } else { i + 1 };
        assert(set.contains(s[xi]));
        assert(s[xi] != s[j]);
    }
    assert forall|e: PeerRow| set.remove(s[j]).contains(e) implies exists|i: int| 0 <= i < sn.len() && #[trigger] sn[i] == e by {
        let i = choose|i: int| 0 <= i < n && s[i] == e;
        assert(i != j);
        let y = if i < j { i } else { i - 1 };
        assert(sn[y] == e);
    }
}

pub proof fn lemma_mrf_push(s: Seq<PeerRow>, row: PeerRow)
    ensures mrf(s.push(row)) == seq![row.1] + mrf(s)
{
    let sn = s.push(row);
    let n = s.len() as int;
    assert(mrf(sn) =~= seq![row.1] + mrf(s)) by {
        assert forall|i: int| 0 <= i < n + 1 implies mrf(sn)[i] == (seq![row.1] + mrf(s))[i] by {
            if i > 0 { assert(sn[n - i] == s[n - i]); }
        }
    }
}

pub proof fn lemma_mrf_remove(s: Seq<PeerRow>, j: int)
    requires 0 <= j < s.len()
    ensures mrf(s.remove(j)) == mrf(s).remove(s.len() - 1 - j)
{
    let sn = s.remove(j);
    let n = s.len() as int;
    let k = n - 1 - j;
    assert(mrf(sn) =~= mrf(s).remove(k)) by {
        assert forall|i: int| 0 <= i < n - 1 implies mrf(sn)[i] == mrf(s).remove(k)[i] by {
            let a = n - 2 - i;
            assert(sn[a] == (if a < j { s[a] } else { s[a + 1] }));
        }
    }
}

/// the rows of peer `p` in the list positions
pub proof fn lemma_mrf_positions(s: Seq<PeerRow>, set: Set<PeerRow>, p: Seq<u8>)
    requires peers_listing(s, set)
    ensures
        !has_peer(set, p) ==> (forall|i: int| 0 <= i < mrf(s).len() ==> mrf(s)[i] != p),
        no_dup_peers(set) ==> (forall|j: int, i: int| 0 <= j < s.len() && s[j].1 == p && 0 <= i < mrf(s).len() && i != s.len() - 1 - j ==> mrf(s)[i] != p),
{
    let n = s.len() as int;
    if !has_peer(set, p) {
        assert forall|i: int| 0 <= i < mrf(s).len() implies mrf(s)[i] != p by { assert(set.contains(s[n - 1 - i])); }
    }
    if no_dup_peers(set) {
        lemma_listing_no_dup(s, set);
        assert forall|j: int, i: int| 0 <= j < s.len() && s[j].1 == p && 0 <= i < mrf(s).len() && i != s.len() - 1 - j implies mrf(s)[i] != p by {
            assert(set.contains(s[n - 1 - i]));
            assert(set.contains(s[j]));
            if s[n - 1 - i].1 == p { assert(s[n - 1 - i] == s[j]); }
        }
    }
}

/// One registration on the list, given A-clock for this call (the reading is later than every stored stamp):
/// the new list is the old one with `p` moved/put to the front, cut to five.
pub proof fn lemma_list_step(old: Set<PeerRow>, new: Set<PeerRow>, nanos: u64, p: Seq<u8>)
    requires peers_inv(old), reg_step(old, new, nanos, p), clock_fresh(old, nanos)
    ensures peer_list(new) == list_step(peer_list(old), p)
{
    lemma_listing_exists(old);
    let so = choose|s: Seq<PeerRow>| peers_listing(s, old);
    lemma_peer_list_of(so, old);
    lemma_listing_no_dup(so, old);
    lemma_mrf_positions(so, old, p);
    let n = so.len() as int;
    let row = (nanos, p);
    let lo = mrf(so);
    if has_peer(old, p) {
        let prev = choose|prev: PeerRow| #[trigger] is_oldest_of_peer(old, p, prev) && new =~= old.remove(prev).insert(row);
        let j = choose|j: int| 0 <= j < n && so[j] == prev;
        let s1 = so.remove(j);
        let set1 = old.remove(prev);
        lemma_listing_remove(so, old, j);
        lemma_listing_push(s1, set1, row);
        lemma_peer_list_of(s1.push(row), new);
        lemma_mrf_push(s1, row);
        lemma_mrf_remove(so, j);
        let k = n - 1 - j;
        assert(lo[k] == p);
        lemma_without_single(lo, p, k);
        assert(peer_list(new) == seq![p] + list_without(lo, p));
        assert((seq![p] + list_without(lo, p)).len() == n);
    } else if old.len() + 1 > 5 {
        let o = choose|o: PeerRow| #[trigger] is_oldest(old, o) && new =~= old.insert(row).remove(o);
        lemma_oldest_is_first(so, old, o);
        let s1 = so.remove(0);
        let set1 = old.remove(o);
        lemma_listing_remove(so, old, 0);
        lemma_listing_push(s1, set1, row);
        assert(o != row) by { if o == row { assert(has_peer(old, p)); } }
        assert(set1.insert(row) =~= new);
        lemma_peer_list_of(s1.push(row), new);
        lemma_mrf_push(s1, row);
        lemma_mrf_remove(so, 0);
        lemma_without_absent(lo, p);
        assert(n == 5);
        assert(seq![p] + lo.remove(4) =~= (seq![p] + lo).take(5));
    } else {
        lemma_listing_push(so, old, row);
        lemma_peer_list_of(so.push(row), new);
        lemma_mrf_push(so, row);
        lemma_without_absent(lo, p);
        assert((seq![p] + lo).len() == n + 1);
    }
}
