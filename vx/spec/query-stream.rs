// ================= spec (verified): the stream a range yields in a direction, filtered =================
// Included after prelude/policy-query.rs (gnth, grem) and prelude/entry.rs (EntryV).
// ---- the filtered stream of a visit sequence ----
pub open spec fn visit<T>(rest: Seq<T>, asc: bool) -> Seq<T> { if asc { rest } else { rest.reverse() } }

pub open spec fn fstream<T>(v: Seq<T>, pass: spec_fn(T) -> bool, mk: spec_fn(T) -> EntryV) -> Seq<EntryV>
    decreases v.len()
{
    if v.len() == 0 { Seq::empty() } else {
        let t = fstream(v.drop_first(), pass, mk);
        if pass(v[0]) { seq![mk(v[0])] + t } else { t }
    }
}

pub proof fn lemma_visit_nth<T>(rest: Seq<T>, asc: bool, i: int)
    requires 0 <= i < rest.len()
    ensures visit(rest, asc)[i] == gnth(rest, asc, i), visit(rest, asc).len() == rest.len()
{}

pub proof fn lemma_visit_rem<T>(rest: Seq<T>, asc: bool, c: int)
    requires 0 <= c <= rest.len()
    ensures visit(grem(rest, asc, c), asc) =~= visit(rest, asc).subrange(c, rest.len() as int)
{}

pub proof fn lemma_fstream_skip<T>(v: Seq<T>, n: int, pass: spec_fn(T) -> bool, mk: spec_fn(T) -> EntryV)
    requires 0 <= n <= v.len(), forall|i: int| 0 <= i < n ==> !pass(#[trigger] v[i]),
    ensures fstream(v, pass, mk) == fstream(v.subrange(n, v.len() as int), pass, mk)
    decreases n
{
    if n == 0 {
        assert(v.subrange(0, v.len() as int) =~= v);
    } else {
        assert(!pass(v[0]));
        let w = v.drop_first();
        assert forall|i: int| 0 <= i < n - 1 implies !pass(#[trigger] w[i]) by { assert(w[i] == v[i + 1]); }
        lemma_fstream_skip(w, n - 1, pass, mk);
        assert(w.subrange(n - 1, w.len() as int) =~= v.subrange(n, v.len() as int));
    }
}
pub proof fn lemma_fstream_hit<T>(v: Seq<T>, n: int, pass: spec_fn(T) -> bool, mk: spec_fn(T) -> EntryV)
    requires 0 <= n < v.len(), forall|i: int| 0 <= i < n ==> !pass(#[trigger] v[i]), pass(v[n]),
    ensures fstream(v, pass, mk) == seq![mk(v[n])] + fstream(v.subrange(n + 1, v.len() as int), pass, mk)
{
    lemma_fstream_skip(v, n, pass, mk);
    let w = v.subrange(n, v.len() as int);
    assert(w[0] == v[n]);
    assert(w.drop_first() =~= v.subrange(n + 1, v.len() as int));
}
/// in range vocabulary: the first n visited elements do not pass, the n-th does
pub proof fn lemma_range_hit<T>(rest: Seq<T>, asc: bool, n: int, pass: spec_fn(T) -> bool, mk: spec_fn(T) -> EntryV)
    requires 0 <= n < rest.len(), forall|i: int| 0 <= i < n ==> !pass(#[trigger] gnth(rest, asc, i)), pass(gnth(rest, asc, n)),
    ensures fstream(visit(rest, asc), pass, mk) == seq![mk(gnth(rest, asc, n))] + fstream(visit(grem(rest, asc, n + 1), asc), pass, mk)
{
    let v = visit(rest, asc);
    assert forall|i: int| 0 <= i < n implies !pass(#[trigger] v[i]) by { lemma_visit_nth(rest, asc, i); assert(!pass(gnth(rest, asc, i))); }
    lemma_visit_nth(rest, asc, n);
    lemma_fstream_hit(v, n, pass, mk);
    lemma_visit_rem(rest, asc, n + 1);
}
pub proof fn lemma_range_exhausted<T>(rest: Seq<T>, asc: bool, pass: spec_fn(T) -> bool, mk: spec_fn(T) -> EntryV)
    requires forall|i: int| 0 <= i < rest.len() ==> !pass(#[trigger] gnth(rest, asc, i)),
    ensures fstream(visit(rest, asc), pass, mk) == Seq::<EntryV>::empty()
{
    let v = visit(rest, asc);
    assert forall|i: int| 0 <= i < v.len() implies !pass(#[trigger] v[i]) by { lemma_visit_nth(rest, asc, i); assert(!pass(gnth(rest, asc, i))); }
    lemma_fstream_skip(v, v.len() as int, pass, mk);
    assert(v.subrange(v.len() as int, v.len() as int) =~= Seq::<T>::empty());
}
pub proof fn lemma_range_skip<T>(rest: Seq<T>, asc: bool, m: int, pass: spec_fn(T) -> bool, mk: spec_fn(T) -> EntryV)
    requires 0 <= m <= rest.len(), forall|i: int| 0 <= i < m ==> !pass(#[trigger] gnth(rest, asc, i)),
    ensures fstream(visit(rest, asc), pass, mk) == fstream(visit(grem(rest, asc, m), asc), pass, mk)
{
    let v = visit(rest, asc);
    assert forall|i: int| 0 <= i < m implies !pass(#[trigger] v[i]) by { lemma_visit_nth(rest, asc, i); assert(!pass(gnth(rest, asc, i))); }
    lemma_fstream_skip(v, m, pass, mk);
    lemma_visit_rem(rest, asc, m);
}
pub proof fn lemma_fstream_cons<T>(x: T, t: Seq<T>, pass: spec_fn(T) -> bool, mk: spec_fn(T) -> EntryV)
    ensures fstream(seq![x] + t, pass, mk) == (if pass(x) { seq![mk(x)] + fstream(t, pass, mk) } else { fstream(t, pass, mk) })
{
    let v = seq![x] + t;
    assert(v[0] == x);
    assert(v.drop_first() =~= t);
}
pub proof fn lemma_fstream_empty<T>(v: Seq<T>, pass: spec_fn(T) -> bool, mk: spec_fn(T) -> EntryV)
    requires v.len() == 0
    ensures fstream(v, pass, mk) == Seq::<EntryV>::empty()
{}

