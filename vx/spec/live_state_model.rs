// ================= spec (verified / pure): abstract view of the per-document, per-peer session table (C11) =================
// Shared by unit U-live-nss (which PROVES these predicates on the real text of src/engine/state.rs) and by the
// units U-live-* on src/engine/live.rs (whose `NamespaceStates` shell ASSUMES exactly the same predicates), so the
// caller-side assumption and the callee-side proof are one and the same text.
// Needs in scope: NamespaceId, PublicKey (= EndpointId), SyncState, Origin, SyncReason, AcceptOutcome, AbortReason,
// dir_is_accept (the id tie-break; antisymmetry is unit U-dir's obligation).

/// abstract value of one `PeerState`: `state` and `resync_requested` (the `last_sync` record is not part of the property)
ghost struct Slot { state: SyncState, resync: bool }

spec fn slot_default() -> Slot { Slot { state: SyncState::Idle, resync: false } }

/// abstract value of `NamespaceStates`
ghost struct StatesView {
    /// documents in the sync set
    syncing: ISet<NamespaceId>,
    /// existing (document, peer) slots; a missing slot behaves like `slot_default()` (it is created on first use)
    slots: IMap<(NamespaceId, PublicKey), Slot>,
    /// `may_emit_ready` per document
    ready: IMap<NamespaceId, bool>,
}

spec fn slot_at(v: StatesView, ns: NamespaceId, node: PublicKey) -> Slot {
    if v.slots.contains_key((ns, node)) { v.slots[(ns, node)] } else { slot_default() }
}

/// representation invariant of the table: slots exist only for documents in the sync set (proved for the real
/// struct's view in U-live-nss, `lemma_nss_view_wf`; preserved by every relation below)
spec fn view_wf(v: StatesView) -> bool {
    forall|k: (NamespaceId, PublicKey)| #[trigger] v.slots.contains_key(k) ==> v.syncing.contains(k.0)
}

spec fn slot_is_dialing(s: Slot) -> bool { s.state is Running && s.state->origin is Connect }
spec fn slot_is_accepting(s: Slot) -> bool { s.state is Running && s.state->origin is Accept }

spec fn view_eq(a: StatesView, b: StatesView) -> bool {
    a.syncing =~= b.syncing && a.slots =~= b.slots && a.ready =~= b.ready
}

/// only slot (ns, node) may differ (it exists afterwards); every other slot and the sync set are untouched
spec fn slots_frame(pre: StatesView, post: StatesView, ns: NamespaceId, node: PublicKey) -> bool {
    &&& post.syncing =~= pre.syncing
    &&& post.slots.dom() =~= pre.slots.dom().insert((ns, node))
    &&& forall|k: (NamespaceId, PublicKey)| k != (ns, node) && pre.slots.contains_key(k) ==> #[trigger] post.slots[k] == pre.slots[k]
}

// ---- per-slot transition relations: literally the contracts proved in unit U-peer (and again in U-live-nss) ----
spec fn peer_start_connect_spec(pre: Slot, post: Slot, reason: SyncReason, r: bool) -> bool {
    &&& (r <==> pre.state is Idle)
    &&& (r ==> post.state is Running && post.state->origin == Origin::Connect(reason) && !post.resync)
    &&& (!r ==> post.state == pre.state)
    &&& (!r ==> (post.resync <==> (pre.resync || reason is SyncReport)))
}

spec fn peer_accept_spec(pre: Slot, post: Slot, me: PublicKey, node: PublicKey, r: AcceptOutcome) -> bool {
    &&& (pre.state is Idle ==> r is Allow)
    &&& (slot_is_accepting(pre) ==> r == AcceptOutcome::Reject(AbortReason::AlreadySyncing))
    &&& (slot_is_dialing(pre) ==> (if dir_is_accept(me, node) { r is Allow } else { r == AcceptOutcome::Reject(AbortReason::AlreadySyncing) }))
    &&& (r is Allow ==> post.state is Running && post.state->origin is Accept && !post.resync)
    &&& (!(r is Allow) ==> post == pre)
}

spec fn peer_finish_spec(pre: Slot, post: Slot, r: Option<(SystemTime, bool)>) -> bool {
    &&& post.state is Idle
    &&& post.resync == pre.resync
    &&& (r is Some <==> pre.state is Running)
    &&& (r is Some ==> r->Some_0.1 == pre.resync && r->Some_0.0 == pre.state->start)
}

// ---- contracts of `NamespaceStates` (src/engine/state.rs) over the abstract view ----
spec fn nss_start_connect_spec(pre: StatesView, post: StatesView, ns: NamespaceId, node: PublicKey, reason: SyncReason, r: bool) -> bool {
    if pre.syncing.contains(ns) {
        &&& slots_frame(pre, post, ns, node)
        &&& post.ready =~= pre.ready
        &&& peer_start_connect_spec(slot_at(pre, ns, node), post.slots[(ns, node)], reason, r)
    } else {
        !r && view_eq(post, pre)
    }
}

spec fn nss_accept_spec(pre: StatesView, post: StatesView, me: PublicKey, ns: NamespaceId, node: PublicKey, r: AcceptOutcome) -> bool {
    if pre.syncing.contains(ns) {
        &&& slots_frame(pre, post, ns, node)
        &&& post.ready =~= pre.ready
        &&& peer_accept_spec(slot_at(pre, ns, node), post.slots[(ns, node)], me, node, r)
    } else {
        r == AcceptOutcome::Reject(AbortReason::NotFound) && view_eq(post, pre)
    }
}

spec fn nss_finish_spec(pre: StatesView, post: StatesView, ns: NamespaceId, node: PublicKey, r: Option<(SystemTime, bool)>) -> bool {
    if pre.syncing.contains(ns) {
        &&& slots_frame(pre, post, ns, node)
        &&& post.ready =~= pre.ready
        &&& peer_finish_spec(slot_at(pre, ns, node), post.slots[(ns, node)], r)
    } else {
        r is None && view_eq(post, pre)
    }
}

spec fn nss_is_connecting_spec(v: StatesView, ns: NamespaceId, node: PublicKey, r: bool) -> bool {
    r <==> slot_is_dialing(slot_at(v, ns, node))
}

spec fn nss_set_ready_spec(pre: StatesView, post: StatesView, ns: NamespaceId, value: bool, r: Option<()>) -> bool {
    &&& post.syncing =~= pre.syncing
    &&& post.slots =~= pre.slots
    &&& (r is Some <==> pre.syncing.contains(ns))
    &&& (if pre.syncing.contains(ns) { post.ready =~= pre.ready.insert(ns, value) } else { post.ready =~= pre.ready })
}

spec fn nss_take_ready_spec(pre: StatesView, post: StatesView, ns: NamespaceId, r: Option<bool>) -> bool {
    &&& post.syncing =~= pre.syncing
    &&& post.slots =~= pre.slots
    &&& (r is Some <==> pre.syncing.contains(ns))
    &&& (if pre.syncing.contains(ns) {
            pre.ready.contains_key(ns) && r == Some(pre.ready[ns]) && post.ready =~= pre.ready.insert(ns, false)
        } else { post.ready =~= pre.ready })
}

spec fn nss_insert_spec(pre: StatesView, post: StatesView, ns: NamespaceId) -> bool {
    &&& post.syncing =~= pre.syncing.insert(ns)
    &&& post.slots =~= pre.slots
    &&& (if pre.syncing.contains(ns) { post.ready =~= pre.ready } else { post.ready =~= pre.ready.insert(ns, false) })
}

spec fn nss_remove_spec(pre: StatesView, post: StatesView, ns: NamespaceId, r: bool) -> bool {
    &&& (r <==> pre.syncing.contains(ns))
    &&& post.syncing =~= pre.syncing.remove(ns)
    &&& post.ready =~= pre.ready.remove(ns)
    &&& (forall|k: (NamespaceId, PublicKey)| #[trigger] post.slots.contains_key(k) <==> (pre.slots.contains_key(k) && k.0 != ns))
    &&& (forall|k: (NamespaceId, PublicKey)| #[trigger] post.slots.contains_key(k) ==> post.slots[k] == pre.slots[k])
}

// ---- handler-level relations (src/engine/live.rs), stated over the view and the count of spawned dial tasks ----

/// `sync_with_peer`: exactly one dial task iff `start_connect` said yes (namespace syncing and slot idle)
spec fn dial_effect(pre: StatesView, post: StatesView, spawned_pre: nat, spawned_post: nat, ns: NamespaceId, peer: PublicKey, reason: SyncReason) -> bool {
    let go = pre.syncing.contains(ns) && slot_at(pre, ns, peer).state is Idle;
    &&& nss_start_connect_spec(pre, post, ns, peer, reason, go)
    &&& spawned_post == spawned_pre + (if go { 1nat } else { 0nat })
}

/// `ready` may only change for `ns`
spec fn ready_frame(pre: StatesView, post: StatesView, ns: NamespaceId) -> bool {
    forall|n: NamespaceId| n != ns ==> (#[trigger] post.ready.contains_key(n) == pre.ready.contains_key(n))
        && (pre.ready.contains_key(n) ==> post.ready[n] == pre.ready[n])
}

/// effect of handing one finished (ok / failed / declined) session of (ns, peer) to `on_sync_finished`:
/// the slot is freed; iff a news report was refused meanwhile, exactly one follow-up dial is spawned and the slot
/// is held by that dial; nothing else moves. For a document that is not syncing nothing happens at all.
spec fn finished_effect(pre: StatesView, post: StatesView, spawned_pre: nat, spawned_post: nat, ns: NamespaceId, peer: PublicKey) -> bool {
    if !pre.syncing.contains(ns) {
        view_eq(post, pre) && spawned_post == spawned_pre
    } else {
        let s = slot_at(pre, ns, peer);
        let t = post.slots[(ns, peer)];
        &&& slots_frame(pre, post, ns, peer)
        &&& ready_frame(pre, post, ns)
        &&& (if s.state is Running && s.resync {
                &&& spawned_post == spawned_pre + 1
                &&& t.state is Running
                &&& t.state->origin == Origin::Connect(SyncReason::Resync)
                &&& !t.resync
            } else {
                &&& spawned_post == spawned_pre
                &&& t.state is Idle
                &&& t.resync == s.resync
            })
    }
}
