// ================= policy spec: abstract value of a download policy and the selection predicate (verified spec, not trusted) =================
// Included AFTER the extracted `enum DownloadPolicy` / `enum FilterKind` (the spec fns below match on them).
// A policy is abstractly a tag plus the sequence of its filters; a filter is a tag plus its byte string.

pub enum FilterV { Prefix(Seq<u8>), Exact(Seq<u8>) }
pub enum PolicyV { NothingExcept(Seq<FilterV>), EverythingExcept(Seq<FilterV>) }

spec fn filter_view(f: FilterKind) -> FilterV {
    match f {
        FilterKind::Prefix(b) => FilterV::Prefix(b@),
        FilterKind::Exact(b) => FilterV::Exact(b@),
    }
}

spec fn filters_view(v: Seq<FilterKind>) -> Seq<FilterV> {
    Seq::new(v.len(), |i: int| filter_view(v[i]))
}

/// plumbing: `filters_view(v)[i]` is the view of `v[i]` (gives the SMT solver the term `filters_view(v)[i]`)
broadcast proof fn lemma_filters_view_index(v: Seq<FilterKind>, i: int)
    requires 0 <= i < v.len()
    ensures #![trigger filters_view(v), v[i]] filters_view(v)[i] == filter_view(v[i])
{}

spec fn policy_view(p: DownloadPolicy) -> PolicyV {
    match p {
        DownloadPolicy::NothingExcept(v) => PolicyV::NothingExcept(filters_view(v@)),
        DownloadPolicy::EverythingExcept(v) => PolicyV::EverythingExcept(filters_view(v@)),
    }
}

/// the policy of a document that never had one set: download everything (no exceptions)
pub open spec fn default_policy_view() -> PolicyV { PolicyV::EverythingExcept(Seq::<FilterV>::empty()) }
/// the same, without sequence extensionality (used in contracts)
pub open spec fn is_default_view(p: PolicyV) -> bool { p is EverythingExcept && p->EverythingExcept_0.len() == 0 }

pub proof fn lemma_default_view(p: PolicyV)
    ensures is_default_view(p) <==> p == default_policy_view()
{
    if is_default_view(p) {
        assert(p->EverythingExcept_0 =~= Seq::<FilterV>::empty());
    }
}

/// "a prefix filter matches keys starting with its bytes and an exact filter matches equal keys"
pub open spec fn filter_matches(f: FilterV, key: Seq<u8>) -> bool {
    match f {
        FilterV::Prefix(p) => is_prefix(p, key),
        FilterV::Exact(k) => k =~= key,
    }
}

pub open spec fn some_filter_matches(fs: Seq<FilterV>, key: Seq<u8>) -> bool {
    exists|i: int| 0 <= i < fs.len() && #[trigger] filter_matches(fs[i], key)
}

/// "selected for download exactly when, for an everything-except policy, no filter matches its key, or for a
/// nothing-except policy, some filter matches"
pub open spec fn policy_selects(p: PolicyV, key: Seq<u8>) -> bool {
    match p {
        PolicyV::NothingExcept(fs) => some_filter_matches(fs, key),
        PolicyV::EverythingExcept(fs) => !some_filter_matches(fs, key),
    }
}
