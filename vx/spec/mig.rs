// ================= spec (mig): what the migrations must establish; verified, not trusted =================

/// by-key index entry of a records key
pub open spec fn idx_of(id: RecId) -> ByKeyId { ByKeyId { ns: id.ns, key: id.key, author: id.author } }

/// `idx` is exactly the by-key index of `records`: { (ns, key, author) | (ns, author, key) in records }
pub open spec fn is_index_of(idx: Set<ByKeyId>, records: Map<RecId, RecVal>) -> bool {
    forall|b: ByKeyId| #[trigger] idx.contains(b) <==> records.contains_key(RecId { ns: b.ns, author: b.author, key: b.key })
}

pub proof fn lemma_rec_listing_len(s: Seq<RecId>, m: Map<RecId, RecVal>)
    requires rec_listing(s, m)
    ensures s.no_duplicates(), m.dom() =~= s.to_set(), m.dom().len() == s.len()
{
    assert forall|i: int, j: int| 0 <= i < s.len() && 0 <= j < s.len() && i != j implies s[i] != s[j] by {
        if i < j { assert(rec_lt(s[i], s[j]) && s[i] != s[j]); } else { assert(rec_lt(s[j], s[i]) && s[j] != s[i]); }
    }
    assert forall|e: RecId| m.dom().contains(e) <==> s.to_set().contains(e) by {
        if m.dom().contains(e) { let i = choose|i: int| 0 <= i < s.len() && s[i] == e; assert(s.contains(e)); }
        if s.to_set().contains(e) { assert(s.contains(e)); let i = choose|i: int| 0 <= i < s.len() && s[i] == e; assert(m.contains_key(s[i])); }
    }
    s.unique_seq_to_set();
}
