// ================= spec (mig): what the migrations must establish; verified, not trusted =================

/// by-key index entry of a records key
pub open spec fn idx_of(id: RecId) -> ByKeyId { ByKeyId { ns: id.ns, key: id.key, author: id.author } }

/// `idx` is exactly the by-key index of `records`: { (ns, key, author) | (ns, author, key) in records }
pub open spec fn is_index_of(idx: Set<ByKeyId>, records: Map<RecId, RecVal>) -> bool {
    forall|b: ByKeyId| #[trigger] idx.contains(b) <==> records.contains_key(RecId { ns: b.ns, author: b.author, key: b.key })
}

pub proof fn lemma_rec_listing_len(s: Seq<RecId>, m: Map<RecId, RecVal>)
    requires rec_listing(s, m)
    ensures s.no_duplicates(), m.dom() =~= s.to_set(), m.dom().len() == s.len()
{
    assert forall|i: int, j: int| 0 <= i < s.len() && 0 <= j < s.len() && i != j implies s[i] != s[j] by {
        if i < j { assert(rec_lt(s[i], s[j]) && s[i] != s[j]); } else { assert(rec_lt(s[j], s[i]) && s[j] != s[i]); }
    }
    assert forall|e: RecId| m.dom().contains(e) <==> s.to_set().contains(e) by {
        if m.dom().contains(e) { let i = choose|i: int| 0 <= i < s.len() && s[i] == e; assert(s.contains(e)); }
        if s.to_set().contains(e) { assert(s.contains(e)); let i = choose|i: int| 0 <= i < s.len() && s[i] == e; assert(m.contains_key(s[i])); }
    }
    s.unique_seq_to_set();
}

// ---- heads (latest-per-author) of a records table ----
pub open spec fn lk_of(id: RecId) -> LatestKey { LatestKey { ns: id.ns, author: id.author } }

/// `latest` is exactly the head table of `records`: one row per (namespace, author) that has a record; the row names a
/// record of that author with the greatest timestamp and, among those with that timestamp, the greatest key
pub open spec fn is_heads_of(latest: Map<LatestKey, LatestVal>, records: Map<RecId, RecVal>) -> bool {
    &&& (forall|k: LatestKey| #[trigger] latest.contains_key(k) <==> exists|id: RecId| #[trigger] records.contains_key(id) && lk_of(id) == k)
    &&& (forall|k: LatestKey| #[trigger] latest.contains_key(k) ==> {
            let h = latest[k];
            let hid = RecId { ns: k.ns, author: k.author, key: h.key };
            &&& records.contains_key(hid)
            &&& records[hid].ts == h.ts
            &&& (forall|id: RecId| #[trigger] records.contains_key(id) && lk_of(id) == k ==> records[id].ts < h.ts || (records[id].ts == h.ts && lex_le(id.key, h.key)))
        })
}

/// one step of the rebuild loop of migration 001 (`entry(..).and_modify(..).or_insert_with(..)`)
pub open spec fn head_step(h: Map<LatestKey, LatestVal>, id: RecId, v: RecVal) -> Map<LatestKey, LatestVal> {
    let k = lk_of(id);
    if h.contains_key(k) && !(v.ts >= h[k].ts) { h } else { h.insert(k, LatestVal { ts: v.ts, key: id.key }) }
}
pub open spec fn heads_fold(s: Seq<RecId>, m: Map<RecId, RecVal>, n: int) -> Map<LatestKey, LatestVal>
    decreases n
{
    if n <= 0 { Map::empty() } else { head_step(heads_fold(s, m, n - 1), s[n - 1], m[s[n - 1]]) }
}

/// index of the row that the fold keeps for `k` among the first n rows (-1: none): greatest timestamp, the later row on ties
pub open spec fn head_idx(s: Seq<RecId>, m: Map<RecId, RecVal>, n: int, k: LatestKey) -> int
    decreases n
{
    if n <= 0 { -1 } else {
        let j0 = head_idx(s, m, n - 1, k);
        if lk_of(s[n - 1]) == k && (j0 < 0 || m[s[n - 1]].ts >= m[s[j0]].ts) { n - 1 } else { j0 }
    }
}

pub proof fn lemma_head_idx(s: Seq<RecId>, m: Map<RecId, RecVal>, n: int, k: LatestKey)
    requires 0 <= n <= s.len()
    ensures ({
        let j = head_idx(s, m, n, k);
        let h = heads_fold(s, m, n);
        &&& -1 <= j < n
        &&& (j < 0 ==> !h.contains_key(k) && (forall|i: int| 0 <= i < n ==> lk_of(#[trigger] s[i]) != k))
        &&& (j >= 0 ==> h.contains_key(k) && lk_of(s[j]) == k && h[k] == (LatestVal { ts: m[s[j]].ts, key: s[j].key })
                && (forall|i: int| 0 <= i < n && lk_of(#[trigger] s[i]) == k ==> m[s[i]].ts < m[s[j]].ts || (m[s[i]].ts == m[s[j]].ts && i <= j)))
    })
    decreases n
{
    if n > 0 {
        lemma_head_idx(s, m, n - 1, k);
        let j0 = head_idx(s, m, n - 1, k);
        let h0 = heads_fold(s, m, n - 1);
        let id = s[n - 1];
        assert(heads_fold(s, m, n) == head_step(h0, id, m[id]));
        if lk_of(id) == k {
            if j0 >= 0 { assert(h0[k].ts == m[s[j0]].ts); }
        } else {
            assert(heads_fold(s, m, n).contains_key(k) == h0.contains_key(k));
            if h0.contains_key(k) { assert(heads_fold(s, m, n)[k] == h0[k]); }
        }
    }
}

/// the fold over an ascending listing of all rows is the head table
pub proof fn lemma_fold_is_heads(s: Seq<RecId>, m: Map<RecId, RecVal>)
    requires rec_listing(s, m)
    ensures is_heads_of(heads_fold(s, m, s.len() as int), m)
{
    let n = s.len() as int;
    let h = heads_fold(s, m, n);
    assert forall|k: LatestKey| #[trigger] h.contains_key(k) <==> exists|id: RecId| #[trigger] m.contains_key(id) && lk_of(id) == k by {
        lemma_head_idx(s, m, n, k);
        let j = head_idx(s, m, n, k);
        if h.contains_key(k) { assert(m.contains_key(s[j])); }
        if exists|id: RecId| #[trigger] m.contains_key(id) && lk_of(id) == k {
            let id = choose|id: RecId| #[trigger] m.contains_key(id) && lk_of(id) == k;
            let i = choose|i: int| 0 <= i < n && s[i] == id;
            assert(lk_of(s[i]) == k);
        }
    }
    assert forall|k: LatestKey| #[trigger] h.contains_key(k) implies ({
            let hv = h[k];
            let hid = RecId { ns: k.ns, author: k.author, key: hv.key };
            &&& m.contains_key(hid)
            &&& m[hid].ts == hv.ts
            &&& (forall|id: RecId| #[trigger] m.contains_key(id) && lk_of(id) == k ==> m[id].ts < hv.ts || (m[id].ts == hv.ts && lex_le(id.key, hv.key)))
        }) by {
        lemma_head_idx(s, m, n, k);
        let j = head_idx(s, m, n, k);
        let hv = h[k];
        let hid = RecId { ns: k.ns, author: k.author, key: hv.key };
        assert(hid == s[j]);
        assert(m.contains_key(s[j]));
        assert forall|id: RecId| #[trigger] m.contains_key(id) && lk_of(id) == k implies m[id].ts < hv.ts || (m[id].ts == hv.ts && lex_le(id.key, hv.key)) by {
            let i = choose|i: int| 0 <= i < n && s[i] == id;
            assert(lk_of(s[i]) == k);
            if m[id].ts == hv.ts && i < j {
                assert(rec_lt(s[i], s[j]));
                lemma_lex_irrefl(k.ns);
                lemma_lex_irrefl(k.author);
            }
        }
    }
}
