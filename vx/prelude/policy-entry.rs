// ================= trusted prelude (policy): one more accessor of the SignedEntry shell of prelude/entry.rs =================
// src/sync.rs `SignedEntry::key(&self) -> &[u8]` (inherent; `self.entry().id().key()`, a plain getter; not examined).
// Not to be combined with prelude/entry_range.rs, which models the *trait* method RangeEntry::key under the same name.
impl SignedEntry {
    #[verifier::external_body]
    pub fn key(&self) -> (r: &[u8]) ensures r@ == self@.id.key { unimplemented!() }
    /// src/sync.rs `SignedEntry::author(&self) -> AuthorId` (`self.entry().id().author()`, a plain getter; not examined)
    #[verifier::external_body]
    pub fn author(&self) -> (r: AuthorId) ensures r.0@ == self@.id.author { unimplemented!() }
}
