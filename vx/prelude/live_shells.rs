// ================= trusted prelude: I/O types used by the live actor (src/engine/live.rs) as opaque shells (A-live-io) =================
// None of these shells can touch `LiveActor::state` or `LiveActor::running_sync_connect`: they only get `&self` /
// `&mut` of their own field, so the frame "the session table is unchanged by I/O" follows from Rust's borrow rules,
// not from an assumption. What IS assumed is listed per item.

/// iroh `EndpointAddr`: the node id plus an opaque set of transport addresses
#[verifier::external_body]
pub struct TransportAddrs { _p: u8 }
pub struct EndpointAddr { pub id: PublicKey, pub addrs: TransportAddrs }
impl EndpointAddr {
    #[verifier::external_body]
    pub fn new(id: PublicKey) -> (r: EndpointAddr) ensures r.id == id { unimplemented!() }
    #[verifier::external_body]
    pub fn is_empty(&self) -> bool { unimplemented!() }
}

/// iroh `Endpoint`: `id()` is this node's own id (a constant of the endpoint), `clone()` is a handle copy
#[verifier::external_body]
pub struct Endpoint { _p: u8 }
impl Endpoint {
    pub uninterp spec fn spec_id(&self) -> PublicKey;
    #[verifier::external_body]
    pub fn id(&self) -> (r: PublicKey) ensures r == self.spec_id() { unimplemented!() }
}
impl Clone for Endpoint {
    #[verifier::external_body]
    fn clone(&self) -> (r: Endpoint) ensures r.spec_id() == self.spec_id() { unimplemented!() }
}

/// ghost record of the state-changing requests sent to the replica-store thread through a `SyncHandle`
ghost enum SyncCall {
    /// `open(ns, ..)` was sent; the flag records whether the store answered Ok
    Open(NamespaceId, bool),
    SetSync(NamespaceId, bool),
    Unsubscribe(NamespaceId),
    Close(NamespaceId),
    /// `has_news_for_us(ns, heads)` was asked; the flag records whether the store answered `Ok(Some(_))` (news)
    HasNewsForUs(NamespaceId, AuthorHeads, bool),
    /// `insert_remote(ns, entry, from, content_status)`: the only way a gossiped entry reaches the store
    InsertRemote(NamespaceId, SignedEntry, [u8; 32], ContentStatus),
}

/// `crate::actor::SyncHandle`: handle to the replica-store thread. Ghost view `calls()`: the state-changing requests
/// sent through this handle so far (advanced only by the `&mut self` shells of prelude/live_start_shells.rs)
#[verifier::external_body]
pub struct SyncHandle { _p: u8 }
impl SyncHandle {
    uninterp spec fn calls(&self) -> Seq<SyncCall>;
    #[verifier::external_body]
    pub async fn register_useful_peer(&self, namespace: NamespaceId, peer: [u8; 32]) -> Result<()> { unimplemented!() }
}
impl Clone for SyncHandle {
    #[verifier::external_body]
    fn clone(&self) -> SyncHandle { unimplemented!() }
}

/// ghost record of the messages handed to the gossip layer
ghost enum GossipMsg {
    /// `broadcast(ns, bytes)`: to the whole swarm of the document
    Swarm(NamespaceId, Seq<u8>),
    /// `broadcast_neighbors(ns, bytes)`: to direct neighbours only
    Neighbors(NamespaceId, Seq<u8>),
}
/// `crate::engine::gossip::GossipState`. Ghost view `sent()`: the messages handed to it so far.
#[verifier::external_body]
pub struct GossipState { _p: u8 }
impl GossipState {
    uninterp spec fn sent(&self) -> Seq<GossipMsg>;
    #[verifier::external_body]
    pub fn max_message_size(&self) -> usize { unimplemented!() }
    #[verifier::external_body]
    async fn broadcast_neighbors(&mut self, namespace: &NamespaceId, message: Bytes) -> (unit: ())
        ensures final(self).sent() == old(self).sent().push(GossipMsg::Neighbors(*namespace, message@))
    { unimplemented!() }
}

/// `crate::metrics::Metrics`
#[verifier::external_body]
pub struct Metrics { _p: u8 }

#[verifier::external_body]
pub struct Hash { _p: u8 }
impl Clone for Hash {
    #[verifier::external_body]
    fn clone(&self) -> Hash { unimplemented!() }
}
impl PartialEq for Hash {
    #[verifier::external_body]
    fn eq(&self, other: &Hash) -> bool { unimplemented!() }
}
impl Eq for Hash {}
impl Copy for Hash {}
impl std::hash::Hash for Hash {
    #[verifier::external_body]
    fn hash<H: std::hash::Hasher>(&self, state: &mut H) { unimplemented!() }
}
#[verifier::external_body]
pub struct SignedEntry { _p: u8 }
impl Clone for SignedEntry {
    #[verifier::external_body]
    fn clone(&self) -> (r: SignedEntry) ensures r == *self { unimplemented!() }
}

/// `crate::AuthorHeads`: `encode` is unit U-henc's subject; here only "returns bytes or an error"
#[verifier::external_body]
pub struct AuthorHeads { _p: u8 }
impl Clone for AuthorHeads {
    #[verifier::external_body]
    fn clone(&self) -> AuthorHeads { unimplemented!() }
}
impl AuthorHeads {
    #[verifier::external_body]
    pub fn encode(&self, size_limit: Option<usize>) -> Result<Vec<u8>> { unimplemented!() }
}

impl AnyhowError {
    /// `ToString` via `Display`
    #[verifier::external_body]
    pub fn to_string(&self) -> String { unimplemented!() }
}

/// postcard serialisation: total function returning bytes or an error (A-postcard)
#[verifier::external_body]
pub struct PostcardError { _p: u8 }
/// the postcard encoding of a value (deterministic function of the value, A-postcard)
pub uninterp spec fn postcard_bytes<T>(v: T) -> Seq<u8>;
/// postcard decoding: a partial function of the bytes (A-postcard)
pub uninterp spec fn postcard_decode<T>(b: Seq<u8>) -> Option<T>;
impl From<PostcardError> for AnyhowError {
    #[verifier::external_body]
    fn from(e: PostcardError) -> AnyhowError { unimplemented!() }
}
pub mod postcard {
    use super::*;
    /// `postcard::from_bytes::<T>(&bytes)`: the only call sites pass `&Bytes` (deref to `&[u8]`), hence that parameter type
    #[verifier::external_body]
    pub fn from_bytes<T>(s: &Bytes) -> (r: std::result::Result<T, PostcardError>)
        ensures
            r is Ok <==> postcard_decode::<T>(s@) is Some,
            r is Ok ==> r->Ok_0 == postcard_decode::<T>(s@)->Some_0,
    { unimplemented!() }
    #[verifier::external_body]
    pub fn to_stdvec<T>(value: &T) -> (r: std::result::Result<Vec<u8>, PostcardError>)
        ensures r is Ok ==> r->Ok_0@ == postcard_bytes(*value)
    { unimplemented!() }
}

/// field types of `LiveActor` that the verified handlers never touch: opaque
/// channel / connection types that only occur as fields of `ToLiveActor` messages: opaque
pub mod sync {
    pub mod oneshot {
        #[verifier::external_body]
        #[verifier::reject_recursive_types(T)]
        pub struct Sender<T> { _p: std::marker::PhantomData<T> }
    }
}
pub mod iroh {
    pub mod endpoint {
        #[verifier::external_body]
        pub struct Connection { _p: u8 }
    }
}
#[verifier::external_body]
pub struct ReplicaEvent { _p: u8 }
#[verifier::external_body]
/// `iroh_blobs::api::Store`
pub struct Store { _p: u8 }
#[verifier::external_body]
pub struct Downloader { _p: u8 }
#[verifier::external_body]
pub struct MemoryLookup { _p: u8 }
/// `ProviderNodes(Arc<Mutex<HashMap<Hash, HashSet<EndpointId>>>>)`: who is known to have which blob
#[verifier::external_body]
pub struct ProvidersCell { _p: u8 }
pub struct ProviderNodes(pub ProvidersCell);
pub mod mpsc {
    use super::*;
    #[verifier::external_body]
    #[verifier::reject_recursive_types(T)]
    pub struct Receiver<T> { _p: std::marker::PhantomData<T> }
    #[verifier::external_body]
    #[verifier::reject_recursive_types(T)]
    pub struct Sender<T> { _p: std::marker::PhantomData<T> }
    #[verifier::external_body]
    #[verifier::reject_recursive_types(T)]
    pub struct SendError<T> { _p: std::marker::PhantomData<T> }
    /// tokio `mpsc::Sender::send`: delivers the value to the receiving task or fails because the receiver is gone.
    /// Ghost view `sent()`: the values delivered so far; `closed()`: the receiver is gone. `&mut self` only so that
    /// the ghost log can advance (real: `&self`).
    impl<T> Sender<T> {
        pub uninterp spec fn sent(&self) -> Seq<T>;
        pub uninterp spec fn closed(&self) -> bool;
        #[verifier::external_body]
        pub async fn send(&mut self, value: T) -> (r: std::result::Result<(), SendError<T>>)
            ensures
                r is Ok ==> final(self).sent() == old(self).sent().push(value),
                r is Err ==> final(self).sent() == old(self).sent() && final(self).closed(),
        { unimplemented!() }
    }
}
impl<T> From<mpsc::SendError<T>> for AnyhowError {
    #[verifier::external_body]
    fn from(e: mpsc::SendError<T>) -> AnyhowError { unimplemented!() }
}
pub mod async_channel {
    #[verifier::external_body]
    #[verifier::reject_recursive_types(T)]
    pub struct Receiver<T> { _p: std::marker::PhantomData<T> }
    #[verifier::external_body]
    #[verifier::reject_recursive_types(T)]
    pub struct Sender<T> { _p: std::marker::PhantomData<T> }
}

/// `n0_future::task::JoinSet<T>`: the set of spawned tasks. Ghost view: how many tasks were ever spawned on it.
/// `spawn` adds exactly one task (the task itself runs later, outside the handler, and cannot reach the actor's state
/// except through the completion message that `run_inner` turns into a call of `on_sync_via_connect_finished`).
#[verifier::external_body]
#[verifier::reject_recursive_types(T)]
pub struct JoinSet<T> { _p: std::marker::PhantomData<T> }
impl<T> JoinSet<T> {
    pub uninterp spec fn spawned(&self) -> nat;
    #[verifier::external_body]
    pub fn spawn<F>(&mut self, task: F)
        ensures final(self).spawned() == old(self).spawned() + 1
    { unimplemented!() }
}

/// `SubscribersMap` (live.rs): event fan-out to API subscribers
#[verifier::external_body]
pub struct SubscribersMap { _p: u8 }

/// `QueuedHashes` (live.rs): download queue bookkeeping
#[verifier::external_body]
pub struct QueuedHashes { _p: u8 }
impl QueuedHashes {
    /// ghost view: the queued (hash, document) pairs
    uninterp spec fn queued(&self) -> ISet<(Hash, NamespaceId)>;
    #[verifier::external_body]
    pub fn contains_namespace(&self, namespace: &NamespaceId) -> bool { unimplemented!() }
}

/// std blanket `impl<T: Clone> ToOwned for T`: `to_owned` is `clone` (A-std)
pub assume_specification<T> [<T as std::borrow::ToOwned>::to_owned] (x: &T) -> (r: T)
    where T: std::clone::Clone,
    ensures call_ensures(T::clone, (x,), r);
