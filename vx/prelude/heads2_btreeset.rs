// ---- trusted shell (heads2): std::collections::BTreeSet as used by `AuthorHeads::encode` (A-std BTreeSet). Included INSIDE
// `mod heads` (module-local name shadowing, as for BTreeMap), so that the unchanged text `BTreeSet::new()`,
// `by_timestamp.insert((*ts, *author))`, `by_timestamp.into_iter().rev()` resolves to it. vstd has no specification of
// `BTreeSet::into_iter` / its order. Abstract view: the finite set of elements. From the std documentation:
//   new        "Makes a new, empty BTreeSet."
//   insert(v)  "Adds a value to the set. Returns whether the value was newly inserted."
//   into_iter  "Gets an iterator for moving out the BTreeSet's contents in ascending order." Every element exactly once.
//              The iterator is double ended (`next_back` yields the same items from the other end), so vstd's `Rev`
//              adaptor applies to `.rev()`.
// "Ascending" is the `Ord` of the element type. For `(Timestamp, AuthorId)` that is the tuple order: timestamps numerically,
// ties by `AuthorId`'s derived `Ord` over its `[u8; 32]`, i.e. byte-lexicographic (TRUSTED: `head_item_lt` of spec/heads2.rs
// is that order). ----
#[verifier::external_body]
#[verifier::reject_recursive_types(T)]
pub struct BTreeSet<T> { _t: core::marker::PhantomData<T> }

impl<T> BTreeSet<T> {
    pub uninterp spec fn view(&self) -> Set<T>;

    #[verifier::external_body]
    pub fn new() -> (r: Self)
        ensures r@ == Set::<T>::empty()
    { unimplemented!() }

    #[verifier::external_body]
    pub fn insert(&mut self, value: T) -> (r: bool)
        where T: Ord
        ensures
            final(self)@ == old(self)@.insert(value),
            r == !old(self)@.contains(value),
    { unimplemented!() }
}

/// std::collections::btree_set::IntoIter
#[verifier::external_body]
#[verifier::reject_recursive_types(T)]
pub struct BTreeSetIntoIter<T> { _t: core::marker::PhantomData<T> }
impl<T> BTreeSetIntoIter<T> {
    /// the items this iterator will still yield, front to back
    pub uninterp spec fn rest(&self) -> Seq<T>;
}
impl<T> Iterator for BTreeSetIntoIter<T> {
    type Item = T;
    #[verifier::external_body]
    fn next(&mut self) -> (r: Option<T>) { unimplemented!() }
}
impl<T> DoubleEndedIterator for BTreeSetIntoIter<T> {
    #[verifier::external_body]
    fn next_back(&mut self) -> (r: Option<T>) { unimplemented!() }
}
impl<T> vstd::std_specs::iter::IteratorSpecImpl for BTreeSetIntoIter<T> {
    open spec fn obeys_prophetic_iter_laws(&self) -> bool { true }
    open spec fn remaining(&self) -> Seq<T> { self.rest() }
    open spec fn will_return_none(&self) -> bool { true }
    open spec fn decrease(&self) -> Option<nat> { Some(self.rest().len()) }
    open spec fn peek(&self, i: int) -> Option<T> { if 0 <= i < self.rest().len() { Some(self.rest()[i]) } else { None } }
}
impl<T> vstd::std_specs::iter::DoubleEndedIteratorSpecImpl for BTreeSetIntoIter<T> {
    open spec fn peek_back(&self, i: int) -> Option<T> { if 0 <= i < self.rest().len() { Some(self.rest()[self.rest().len() - 1 - i]) } else { None } }
}

impl IntoIterator for BTreeSet<(u64, AuthorId)> {
    type Item = (u64, AuthorId);
    type IntoIter = BTreeSetIntoIter<(u64, AuthorId)>;
    #[verifier::external_body]
    fn into_iter(self) -> (r: BTreeSetIntoIter<(u64, AuthorId)>)
        ensures heads_asc_listing(r.rest(), self@)
    { unimplemented!() }
}
