// ================= trusted prelude: node ids of the live actor / session table (A-live-ids) =================
/// iroh `PublicKey` (`EndpointId` is the same type): 32 key bytes.
#[derive(Clone, Copy, PartialEq, Eq)]
pub struct PublicKey(pub [u8; 32]);
pub type EndpointId = PublicKey;
impl PublicKey {
    pub fn as_bytes(&self) -> (r: &[u8; 32]) ensures *r == self.0 { &self.0 }
}

/// spec of the id-order tie-break `expected_sync_direction(me, other) is Accept`; its antisymmetry for me != other
/// is proved on the real function by Kani unit U-dir
pub uninterp spec fn dir_is_accept(me: PublicKey, other: PublicKey) -> bool;


/// iroh `PublicKey::from_bytes`: decodes 32 key bytes or fails; a decoded key has exactly these bytes
#[verifier::external_body]
pub struct KeyParsingError { _p: u8 }
impl PublicKey {
    #[verifier::external_body]
    pub fn from_bytes(bytes: &[u8; 32]) -> (r: std::result::Result<PublicKey, KeyParsingError>)
        ensures r is Ok ==> r->Ok_0.0 == *bytes
    { unimplemented!() }
}
