// ================= trusted prelude: `BTreeMap::entry(k).or_default()` (A-btree-entry, stated at the std level) =================
// Needs `#![feature(allocator_api)]` as the first line of the unit (the assumed signatures must name the allocator
// parameter). An `Entry` is modelled by three ghost components: the map when the entry was taken (`entry_snapshot`),
// its key, and the map as it will be when the entry's borrow ends (`entry_result`, a prophecy fixed by what is done
// with the entry). `or_default` = lookup-or-insert-default: it returns a `&mut` to the value stored under the key
// (the existing one, or a fresh `V::default()`); what the caller leaves in that reference is the value the map holds
// afterwards; no other key is touched.
#[verifier::external_type_specification]
#[verifier::external_body]
#[verifier::reject_recursive_types(K)]
#[verifier::reject_recursive_types(V)]
#[verifier::reject_recursive_types(A)]
pub struct ExBTreeEntry<'a, K: 'a, V: 'a, A: std::alloc::Allocator + Clone>(std::collections::btree_map::Entry<'a, K, V, A>);

pub uninterp spec fn entry_snapshot<'a, K, V, A: std::alloc::Allocator + Clone>(e: std::collections::btree_map::Entry<'a, K, V, A>) -> Map<K, V>;
pub uninterp spec fn entry_key<'a, K, V, A: std::alloc::Allocator + Clone>(e: std::collections::btree_map::Entry<'a, K, V, A>) -> K;
pub uninterp spec fn entry_result<'a, K, V, A: std::alloc::Allocator + Clone>(e: std::collections::btree_map::Entry<'a, K, V, A>) -> Map<K, V>;

pub assume_specification<K, V, A> [std::collections::BTreeMap::<K, V, A>::entry] (m: &mut std::collections::BTreeMap<K, V, A>, k: K) -> (e: std::collections::btree_map::Entry<'_, K, V, A>)
    where A: std::alloc::Allocator + std::clone::Clone, K: std::cmp::Ord,
    ensures
        vstd::std_specs::btree::key_obeys_cmp_spec::<K>() ==> entry_snapshot(e) == old(m)@ && entry_key(e) == k && final(m)@ == entry_result(e);

pub assume_specification<'a, K, V, A> [std::collections::btree_map::Entry::<'a, K, V, A>::or_default] (e: std::collections::btree_map::Entry<'a, K, V, A>) -> (r: &'a mut V)
    where A: std::alloc::Allocator + std::clone::Clone, K: std::cmp::Ord, V: std::default::Default,
    ensures
        entry_snapshot(e).contains_key(entry_key(e)) ==> *r == entry_snapshot(e)[entry_key(e)],
        !entry_snapshot(e).contains_key(entry_key(e)) ==> call_ensures(V::default, (), *r),
        entry_result(e) == entry_snapshot(e).insert(entry_key(e), *final(r));
