// ================= trusted prelude (unit U-rid): what RecordIdentifier needs from bytes / std =================
// (needs prelude/bytes.rs, prelude/ids.rs and spec/bytes.rs (`all_zero`); adds to the `Bytes` shell, does not replace it)
use std::ops::{Index, Range, RangeFrom};
use vstd::std_specs::core::IndexSpecImpl;

// ---- bytes::Bytes: slicing. `Bytes: Deref<Target = [u8]>`, so `b[a..c]` / `b[a..]` are `<[u8]>::index`, which
//      panics when `a > c` or `c > len` (std docs of SliceIndex for Range / RangeFrom) -> index_req ----
impl IndexSpecImpl<Range<usize>> for Bytes {
    open spec fn index_req(&self, r: &Range<usize>) -> bool { r.start <= r.end <= self@.len() }
}
impl Index<Range<usize>> for Bytes {
    type Output = [u8];
    #[verifier::external_body]
    fn index(&self, r: Range<usize>) -> (o: &[u8])
        ensures o@ == self@.subrange(r.start as int, r.end as int)
    { unimplemented!() }
}
impl IndexSpecImpl<RangeFrom<usize>> for Bytes {
    open spec fn index_req(&self, r: &RangeFrom<usize>) -> bool { r.start <= self@.len() }
}
impl Index<RangeFrom<usize>> for Bytes {
    type Output = [u8];
    #[verifier::external_body]
    fn index(&self, r: RangeFrom<usize>) -> (o: &[u8])
        ensures o@ == self@.subrange(r.start as int, self@.len() as int)
    { unimplemented!() }
}
impl Bytes {
    /// `Bytes::slice(range)`: "Panics: Requires that begin <= end and end <= self.len(), otherwise slicing will
    /// panic" (bytes docs). Only the `RangeFrom` instantiation is used by RecordIdentifier (end = len).
    #[verifier::external_body]
    pub fn slice(&self, r: RangeFrom<usize>) -> (o: Bytes)
        requires r.start <= self@.len()
        ensures o@ == self@.subrange(r.start as int, self@.len() as int)
    { unimplemented!() }
}
/// `&self.0` where a `&[u8]` is expected (`out.extend_from_slice(&self.0)`, `as_ref`) is the deref coercion
/// `<Bytes as Deref>::deref`: the whole content
impl std::ops::Deref for Bytes {
    type Target = [u8];
    #[verifier::external_body]
    fn deref(&self) -> (o: &[u8]) ensures o@ == self@ { unimplemented!() }
}

// ---- bytes::BytesMut: only what `RecordIdentifier::new` uses ----
#[verifier::external_body]
pub struct BytesMut { _p: u8 }
impl BytesMut {
    pub uninterp spec fn view(&self) -> Seq<u8>;
    /// with_capacity: empty buffer; the capacity is only a hint (BytesMut grows on demand)
    #[verifier::external_body]
    pub fn with_capacity(capacity: usize) -> (r: BytesMut) ensures r@ == Seq::<u8>::empty() { unimplemented!() }
    /// extend_from_slice: appends (grows on demand, never fails short of allocation failure)
    #[verifier::external_body]
    pub fn extend_from_slice(&mut self, extend: &[u8])
        ensures final(self)@ == old(self)@ + extend@
    { unimplemented!() }
    /// freeze: same content, immutable
    #[verifier::external_body]
    pub fn freeze(self) -> (r: Bytes) ensures r@ == self@ { unimplemented!() }
}

// ---- <&[u8; 32]>::try_from(&[u8]) and <[u8; 32]>::try_from(&[u8]) reached through `.try_into()`:
//      Ok exactly for 32-byte slices, with the same bytes (std docs: "Tries to create an array (ref) from a slice;
//      succeeds if slice.len() == N") ----
#[verifier::external_type_specification]
#[verifier::external_body]
pub struct ExTryFromSliceError(std::array::TryFromSliceError);
/// so that `.unwrap()` on the conversion results type-checks (Result::unwrap needs E: Debug)
pub uninterp spec fn rid_slice_err() -> std::array::TryFromSliceError;
pub uninterp spec fn rid_arr32_of(s: Seq<u8>) -> [u8; 32];
/// the array with the given 32 bytes (trusted: such an array exists and is unique by extensionality of array views)
#[verifier::external_body]
pub broadcast proof fn axiom_rid_arr32_of(s: Seq<u8>)
    requires s.len() == 32
    ensures (#[trigger] rid_arr32_of(s))@ == s
{}
pub open spec fn rid_arr32_try_from(v: &[u8]) -> std::result::Result<[u8; 32], std::array::TryFromSliceError> {
    if v@.len() == 32 { Ok(rid_arr32_of(v@)) } else { Err(rid_slice_err()) }
}
pub open spec fn rid_arr32ref_try_from<'a>(v: &'a [u8]) -> std::result::Result<&'a [u8; 32], std::array::TryFromSliceError> {
    if v@.len() == 32 { Ok(&rid_arr32_of(v@)) } else { Err(rid_slice_err()) }
}
#[verifier::external_body]
pub proof fn axiom_rid_arr32_try_into_obeys()
    ensures
        <&[u8] as vstd::std_specs::convert::TryIntoSpec<[u8; 32]>>::obeys_try_into_spec(),
        <&[u8] as vstd::std_specs::convert::TryIntoSpec<&[u8; 32]>>::obeys_try_into_spec(),
{}
#[verifier::external_body]
pub broadcast proof fn axiom_rid_arr32_try_into(v: &[u8])
    ensures (#[trigger] <&[u8] as vstd::std_specs::convert::TryIntoSpec<[u8; 32]>>::try_into_spec(v)) == rid_arr32_try_from(v)
{}
#[verifier::external_body]
pub broadcast proof fn axiom_rid_arr32ref_try_into(v: &[u8])
    ensures (#[trigger] <&[u8] as vstd::std_specs::convert::TryIntoSpec<&[u8; 32]>>::try_into_spec(v)) == rid_arr32ref_try_from(v)
{}

// ---- `key.as_ref()` for `key: &[u8]` (the `impl AsRef<[u8]>` parameter of RecordIdentifier::new made concrete):
//      std `impl<T> AsRef<[T]> for [T] { fn as_ref(&self) -> &[T] { self } }` ----
pub assume_specification<T> [ <[T] as AsRef<[T]>>::as_ref ] (s: &[T]) -> (r: &[T])
    ensures r@ == s@;
/// Rust guarantee for every slice (std::slice::from_raw_parts safety contract): "The total size
/// `len * size_of::<T>()` of the slice must be no larger than `isize::MAX`"
#[verifier::external_body]
pub proof fn axiom_rid_slice_len_bound(s: &[u8])
    ensures s@.len() <= isize::MAX
{}

// ---- `x.into()` for `x: NamespaceId` / `AuthorId` where `impl Into<NamespaceId>` / `impl Into<AuthorId>` is
//      expected (the instantiation every call site of RecordIdentifier::new in the crate uses): std's
//      `impl<T> From<T> for T { fn from(t: T) -> T { t } }` through `impl<T, U: From<T>> Into<U> for T`.
//      vstd gives no spec to the reflexive impl (FromSpecImpl cannot be written for it), hence two axioms. ----
#[verifier::external_body]
pub proof fn axiom_rid_into_refl()
    ensures
        <NamespaceId as vstd::std_specs::convert::IntoSpec<NamespaceId>>::obeys_into_spec(),
        forall|n: NamespaceId| #[trigger] vstd::std_specs::convert::IntoSpec::<NamespaceId>::into_spec(n) == n,
        <AuthorId as vstd::std_specs::convert::IntoSpec<AuthorId>>::obeys_into_spec(),
        forall|a: AuthorId| #[trigger] vstd::std_specs::convert::IntoSpec::<AuthorId>::into_spec(a) == a,
{}

// ---- `#[derive(Default)]` on `struct NamespaceId([u8; 32])` / `struct AuthorId([u8; 32])` (src/keys.rs):
//      `[u8; 32]::default()` is all zero ----
impl Default for NamespaceId {
    #[verifier::external_body]
    fn default() -> (r: NamespaceId) ensures all_zero(r.0@) { unimplemented!() }
}
impl Default for AuthorId {
    #[verifier::external_body]
    fn default() -> (r: AuthorId) ensures all_zero(r.0@) { unimplemented!() }
}
