// ================= assumed-contract shell: `NamespaceStates` (src/engine/state.rs) as seen by its callers in live.rs =================
// Modular verification: the handlers in live.rs are verified against the CONTRACTS of these methods, not their bodies.
// Every `ensures` below is one predicate of spec/live_state_model.rs; unit U-live-nss proves the same predicate
// (label `C11.nss.<fn>.model`) on the real text of the method. Nothing here is an independent assumption.
#[verifier::external_body]
struct NamespaceStates { _p: u8 }
impl NamespaceStates {
    uninterp spec fn view(&self) -> StatesView;

    #[verifier::external_body]
    fn is_syncing(&self, namespace: &NamespaceId) -> (r: bool)
        ensures r == self@.syncing.contains(*namespace)
    { unimplemented!() }

    #[verifier::external_body]
    fn start_connect(&mut self, namespace: &NamespaceId, node: EndpointId, reason: SyncReason) -> (r: bool)
        ensures nss_start_connect_spec(old(self)@, final(self)@, *namespace, node, reason, r)
    { unimplemented!() }

    #[verifier::external_body]
    fn is_connecting(&self, namespace: &NamespaceId, node: &EndpointId) -> (r: bool)
        ensures nss_is_connecting_spec(self@, *namespace, *node, r)
    { unimplemented!() }

    #[verifier::external_body]
    fn accept_request(&mut self, me: &EndpointId, namespace: &NamespaceId, node: EndpointId) -> (r: AcceptOutcome)
        ensures nss_accept_spec(old(self)@, final(self)@, *me, *namespace, node, r)
    { unimplemented!() }

    #[verifier::external_body]
    fn finish(&mut self, namespace: &NamespaceId, node: EndpointId, origin: &Origin, result: Result<SyncFinished>) -> (r: Option<(SystemTime, bool)>)
        ensures nss_finish_spec(old(self)@, final(self)@, *namespace, node, r)
    { unimplemented!() }

    #[verifier::external_body]
    fn set_may_emit_ready(&mut self, namespace: &NamespaceId, value: bool) -> (r: Option<()>)
        ensures nss_set_ready_spec(old(self)@, final(self)@, *namespace, value, r)
    { unimplemented!() }
}
