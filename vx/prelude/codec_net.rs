// ================= trusted prelude (codec units): shells of the network-facing types used by src/net/codec.rs =================
use std::future::Future;
use vstd::future::*;

// ---- iroh::PublicKey: 32 opaque bytes (same representation as the ids) ----
#[derive(Clone, Copy, PartialEq, Eq)]
pub struct PublicKey(pub [u8; 32]);
impl PublicKey {
    pub fn as_bytes(&self) -> (r: &[u8; 32]) ensures *r == self.0 { &self.0 }
    /// only used for tracing fields
    #[verifier::external_body]
    pub fn fmt_short(&self) -> String { unimplemented!() }
}
impl NamespaceId {
    /// only used for tracing fields
    #[verifier::external_body]
    pub fn fmt_short(&self) -> String { unimplemented!() }
}

// ---- tokio::io::{AsyncRead, AsyncWrite}: marker bounds only (the byte streams are never touched directly) ----
pub trait AsyncRead {}
pub trait AsyncWrite {}
impl<'a, T: AsyncRead> AsyncRead for &'a mut T {}
impl<'a, T: AsyncWrite> AsyncWrite for &'a mut T {}

// ---- tracing: Span::current().record(..) and tracing::field::display do nothing observable ----
pub struct Span { _p: u8 }
impl Span {
    #[verifier::external_body]
    pub fn current() -> Span { unimplemented!() }
    #[verifier::external_body]
    pub fn record<V>(&self, field: &str, value: V) -> &Span { unimplemented!() }
}
pub struct DisplayValue<T> { _v: T }
pub mod tracing {
    pub mod field {
        use vstd::prelude::*;
        #[verifier::external_body]
        pub fn display<T>(t: T) -> super::super::DisplayValue<T> { unimplemented!() }
    }
}

// ---- crate::sync::ProtocolMessage = crate::ranger::Message<SignedEntry>: opaque payload ----
#[verifier::external_body]
pub struct ProtocolMessageShell { _p: u8 }
impl Clone for ProtocolMessageShell {
    #[verifier::external_body]
    fn clone(&self) -> (r: Self) ensures r == *self { unimplemented!() }
}
pub mod sync {
    pub type ProtocolMessage = super::ProtocolMessageShell;
}
pub type PeerIdBytes = [u8; 32];

// ---- crate::SyncOutcome: opaque; only `Default` is used by the codec ----
#[verifier::external_body]
pub struct SyncOutcome { _p: u8 }
pub uninterp spec fn sync_outcome_default() -> SyncOutcome;
impl Default for SyncOutcome {
    #[verifier::external_body]
    fn default() -> (r: Self) ensures r == sync_outcome_default() { unimplemented!() }
}

// ---- crate::actor::SyncHandle ----
// The real SyncHandle is a cloneable channel handle to the store actor; every effect on the store made by the
// codec goes through `sync_process_message` (`sync_initial_message` only reads). The model is the actor state
// reduced to a ghost log of the `sync_process_message` calls (namespace and kind of reply of each call). Because
// the log has to advance, the shell method takes `&mut self` and the units map the parameter type `SyncHandle` /
// `&SyncHandle` to `&mut SyncHandle` in the signature (R3); the body text is unchanged. The reply is arbitrary
// (Ok or Err): the actor may be stopped, the replica closed or sync disabled.
pub enum ReplyKind { Failed, More, Done }
/// `given`: the session outcome handed to the call; `out`: the outcome it handed back (meaningful when the call succeeded)
pub struct StoreCall { pub ns: NamespaceId, pub reply: ReplyKind, pub given: SyncOutcome, pub out: SyncOutcome }
pub open spec fn reply_out(r: Result<(Option<sync::ProtocolMessage>, SyncOutcome), AnyhowError>) -> SyncOutcome {
    match r { Ok((_, o)) => o, Err(_) => sync_outcome_default() }
}
/// the session outcome is threaded through the added calls: the first is given `p0`, each later one what the previous one handed back
/// (opaque: used through the two lemmas below, so that the quantifier never meets the solver inside the big session loops)
#[verifier::opaque]
pub open spec fn calls_threaded(before: Seq<StoreCall>, after: Seq<StoreCall>, p0: SyncOutcome) -> bool {
    &&& before.len() <= after.len()
    &&& (before.len() < after.len() ==> after[before.len() as int].given == p0)
    &&& forall|i: int| before.len() < i < after.len() ==> (#[trigger] after[i]).given == after[i - 1].out
}
pub proof fn lemma_threaded_none(before: Seq<StoreCall>, p0: SyncOutcome)
    ensures calls_threaded(before, before, p0)
{ reveal(calls_threaded); }
pub proof fn lemma_threaded_push(before: Seq<StoreCall>, after: Seq<StoreCall>, p0: SyncOutcome, c: StoreCall)
    requires calls_threaded(before, after, p0), c.given == calls_outcome(before, after, p0)
    ensures calls_threaded(before, after.push(c), p0), calls_outcome(before, after.push(c), p0) == c.out
{ reveal(calls_threaded); }
/// the outcome of the session so far: what the last added call handed back, or `p0` if there was none
pub open spec fn calls_outcome(before: Seq<StoreCall>, after: Seq<StoreCall>, p0: SyncOutcome) -> SyncOutcome {
    if before.len() < after.len() { after[after.len() - 1].out } else { p0 }
}
pub open spec fn reply_kind(r: Result<(Option<sync::ProtocolMessage>, SyncOutcome), AnyhowError>) -> ReplyKind {
    match r {
        Err(_) => ReplyKind::Failed,
        Ok((Some(_), _)) => ReplyKind::More,
        Ok((None, _)) => ReplyKind::Done,
    }
}
#[verifier::external_body]
pub struct SyncHandle { _p: u8 }
impl SyncHandle {
    /// all `sync_process_message` calls so far
    pub uninterp spec fn calls(&self) -> Seq<StoreCall>;

    #[verifier::external_body]
    pub async fn sync_process_message(&mut self, namespace: NamespaceId, message: sync::ProtocolMessage, from: PeerIdBytes, state: SyncOutcome)
        -> (r: Result<(Option<sync::ProtocolMessage>, SyncOutcome), AnyhowError>)
        ensures final(self).calls() == old(self).calls().push(StoreCall { ns: namespace, reply: reply_kind(r), given: state, out: reply_out(r) })
    { unimplemented!() }

    #[verifier::external_body]
    pub async fn sync_initial_message(&mut self, namespace: NamespaceId) -> (r: Result<sync::ProtocolMessage, AnyhowError>)
        ensures final(self).calls() == old(self).calls()
    { unimplemented!() }
}

/// store calls were only added, and only for `ns`
pub open spec fn calls_only_for(before: Seq<StoreCall>, after: Seq<StoreCall>, ns: NamespaceId) -> bool {
    &&& before.len() <= after.len()
    &&& forall|i: int| 0 <= i < before.len() ==> after[i] == before[i]
    &&& forall|i: int| before.len() <= i < after.len() ==> after[i].ns == ns
}
/// exactly n store calls were added, all for `ns`, and all but possibly the last one asked for more (reply Some)
pub open spec fn calls_appended(before: Seq<StoreCall>, after: Seq<StoreCall>, n: nat, ns: NamespaceId) -> bool {
    &&& after.len() == before.len() + n
    &&& calls_only_for(before, after, ns)
    &&& forall|i: int| before.len() <= i < after.len() - 1 ==> after[i].reply is More
}
/// number of store calls added
pub open spec fn calls_added(before: Seq<StoreCall>, after: Seq<StoreCall>) -> nat {
    (after.len() - before.len()) as nat
}
