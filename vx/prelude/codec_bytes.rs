// ================= trusted prelude (codec framing unit): bytes::BytesMut, postcard, big-endian u32 =================
// (included after `Message` has been extracted)
use std::ops::{Index, IndexMut, Range, RangeFrom, RangeTo};
use vstd::std_specs::core::IndexSpecImpl;

// ---- big-endian u32 <-> 4 bytes (specification side is verified arithmetic, see lemma_be32_roundtrip in the unit) ----
pub open spec fn be32(b: Seq<u8>) -> int {
    b[0] as int * 0x1000000 + b[1] as int * 0x10000 + b[2] as int * 0x100 + b[3] as int
}
pub open spec fn be32_bytes(n: int) -> Seq<u8> {
    seq![((n / 0x1000000) % 0x100) as u8, ((n / 0x10000) % 0x100) as u8, ((n / 0x100) % 0x100) as u8, (n % 0x100) as u8]
}
/// stands for `u32::from_be_bytes` (R8 map in the unit): Verus cannot attach a specification to the std function
/// because its parameter type `[u8; size_of::<u32>()]` contains an anonymous constant. This replacement is
/// verified against `be32`; that std's function computes the same value is the (documented) trusted part.
pub fn u32_from_be_bytes(b: [u8; 4]) -> (r: u32)
    ensures r as int == be32(b@)
{
    (b[0] as u32) * 0x1000000 + (b[1] as u32) * 0x10000 + (b[2] as u32) * 0x100 + (b[3] as u32)
}

// ---- <[u8; 4]>::try_from(&[u8]) reached through `.try_into()`: Ok exactly for 4-byte slices (std docs) ----
#[verifier::external_type_specification]
#[verifier::external_body]
pub struct ExTryFromSliceError(std::array::TryFromSliceError);
pub uninterp spec fn slice_err() -> std::array::TryFromSliceError;
pub open spec fn arr4_try_from(v: &[u8]) -> std::result::Result<[u8; 4], std::array::TryFromSliceError> {
    if v@.len() == 4 { Ok([v@[0], v@[1], v@[2], v@[3]]) } else { Err(slice_err()) }
}
#[verifier::external_body]
pub proof fn axiom_arr4_try_into_obeys()
    ensures <&[u8] as vstd::std_specs::convert::TryIntoSpec<[u8; 4]>>::obeys_try_into_spec()
{}
#[verifier::external_body]
pub broadcast proof fn axiom_arr4_try_into(v: &[u8])
    ensures (#[trigger] <&[u8] as vstd::std_specs::convert::TryIntoSpec<[u8; 4]>>::try_into_spec(v)) == arr4_try_from(v)
{}

// ---- bytes::BytesMut as a growable byte string with view Seq<u8> ----
// Slicing (`buf[a..b]`, through Deref<Target = [u8]>) panics when out of range -> index_req.
#[verifier::external_body]
pub struct BytesMut { _p: u8 }
impl BytesMut {
    pub uninterp spec fn view(&self) -> Seq<u8>;
    #[verifier::external_body]
    pub fn new() -> (r: BytesMut) ensures r@ == Seq::<u8>::empty() { unimplemented!() }
    #[verifier::external_body]
    /// a BytesMut (like every Rust allocation) never holds more than isize::MAX bytes
    pub fn len(&self) -> (r: usize) ensures r == self@.len(), r <= isize::MAX as usize { unimplemented!() }
    #[verifier::external_body]
    pub fn is_empty(&self) -> (r: bool) ensures r == (self@.len() == 0) { unimplemented!() }
    /// bytes::Buf::advance: panics if cnt > remaining
    #[verifier::external_body]
    pub fn advance(&mut self, cnt: usize)
        requires cnt <= old(self)@.len()
        ensures final(self)@ == old(self)@.subrange(cnt as int, old(self)@.len() as int)
    { unimplemented!() }
    /// BytesMut::split: takes ALL buffered bytes out, leaving the buffer empty
    #[verifier::external_body]
    pub fn split(&mut self) -> (r: BytesMut)
        ensures r@ == old(self)@, final(self)@ == Seq::<u8>::empty()
    { unimplemented!() }
    /// BytesMut::split_to: takes the first `at` bytes out; panics if at > len
    #[verifier::external_body]
    pub fn split_to(&mut self, at: usize) -> (r: BytesMut)
        requires at <= old(self)@.len()
        ensures r@ == old(self)@.subrange(0, at as int), final(self)@ == old(self)@.subrange(at as int, old(self)@.len() as int)
    { unimplemented!() }
    /// BytesMut::split_off: keeps the first `at` bytes, returns the rest; panics if at > capacity (stated for at <= len)
    #[verifier::external_body]
    pub fn split_off(&mut self, at: usize) -> (r: BytesMut)
        requires at <= old(self)@.len()
        ensures final(self)@ == old(self)@.subrange(0, at as int), r@ == old(self)@.subrange(at as int, old(self)@.len() as int)
    { unimplemented!() }
    /// BytesMut::truncate: keeps the first `len` bytes (no effect if len >= current length)
    #[verifier::external_body]
    pub fn truncate(&mut self, len: usize)
        ensures final(self)@ == (if len <= old(self)@.len() { old(self)@.subrange(0, len as int) } else { old(self)@ })
    { unimplemented!() }
    /// BytesMut::clear
    #[verifier::external_body]
    pub fn clear(&mut self)
        ensures final(self)@ == Seq::<u8>::empty()
    { unimplemented!() }
    /// bytes::BufMut::put_u32: appends the big-endian bytes (BytesMut grows on demand)
    #[verifier::external_body]
    pub fn put_u32(&mut self, n: u32)
        ensures final(self)@ == old(self)@ + be32_bytes(n as int)
    { unimplemented!() }
    /// BytesMut::resize: truncate, or extend with `value`
    #[verifier::external_body]
    pub fn resize(&mut self, new_len: usize, value: u8)
        ensures
            final(self)@.len() == new_len,
            forall|i: int| 0 <= i < new_len && i < old(self)@.len() ==> final(self)@[i] == old(self)@[i],
            forall|i: int| old(self)@.len() <= i < new_len ==> final(self)@[i] == value,
    { unimplemented!() }
}
impl IndexSpecImpl<RangeTo<usize>> for BytesMut {
    open spec fn index_req(&self, r: &RangeTo<usize>) -> bool { r.end <= self@.len() }
}
impl Index<RangeTo<usize>> for BytesMut {
    type Output = [u8];
    #[verifier::external_body]
    fn index(&self, r: RangeTo<usize>) -> (o: &[u8])
        ensures o@ == self@.subrange(0, r.end as int)
    { unimplemented!() }
}
impl IndexSpecImpl<Range<usize>> for BytesMut {
    open spec fn index_req(&self, r: &Range<usize>) -> bool { r.start <= r.end <= self@.len() }
}
impl Index<Range<usize>> for BytesMut {
    type Output = [u8];
    #[verifier::external_body]
    fn index(&self, r: Range<usize>) -> (o: &[u8])
        ensures o@ == self@.subrange(r.start as int, r.end as int)
    { unimplemented!() }
}
impl IndexSpecImpl<RangeFrom<usize>> for BytesMut {
    open spec fn index_req(&self, r: &RangeFrom<usize>) -> bool { r.start <= self@.len() }
}
impl Index<RangeFrom<usize>> for BytesMut {
    type Output = [u8];
    #[verifier::external_body]
    fn index(&self, r: RangeFrom<usize>) -> (o: &[u8])
        ensures o@ == self@.subrange(r.start as int, self@.len() as int)
    { unimplemented!() }
}
impl IndexMut<RangeFrom<usize>> for BytesMut {
    /// the returned slice is the tail of the buffer; what is written into it replaces that tail
    #[verifier::external_body]
    fn index_mut(&mut self, r: RangeFrom<usize>) -> (o: &mut [u8])
        ensures
            o@ == old(self)@.subrange(r.start as int, old(self)@.len() as int),
            final(o)@.len() == o@.len(),
            final(self)@ == old(self)@.subrange(0, r.start as int) + final(o)@,
    { unimplemented!() }
}

// ---- postcard: the wire encoding of a Message is an uninterpreted total function of the value, decoding an
//      uninterpreted partial function of the bytes. Nothing is assumed about their relation except where a lemma
//      says so explicitly (postcard_roundtrip). ----
pub uninterp spec fn postcard_encode(m: Message) -> Seq<u8>;
pub uninterp spec fn postcard_decode(b: Seq<u8>) -> Option<Message>;
pub mod postcard {
    use vstd::prelude::*;
    use super::*;
    #[verifier::external_body]
    pub struct Error { _p: u8 }
    impl std::fmt::Debug for Error {
        #[verifier::external_body]
        fn fmt(&self, f: &mut std::fmt::Formatter<'_>) -> std::fmt::Result { unimplemented!() }
    }
    pub mod ser_flavors {
        use vstd::prelude::*;
        pub struct Size { _p: u8 }
        impl Default for Size {
            #[verifier::external_body]
            fn default() -> Size { unimplemented!() }
        }
    }
    /// postcard::from_bytes::<Message>: total (value or error, never a panic is postcard's documented contract
    /// for safe-Rust Deserialize impls); trailing bytes are ignored by postcard, which is folded into postcard_decode
    #[verifier::external_body]
    pub fn from_bytes(s: &[u8]) -> (r: std::result::Result<Message, Error>)
        ensures
            postcard_decode(s@) is Some ==> r == std::result::Result::<Message, Error>::Ok(postcard_decode(s@)->Some_0),
            postcard_decode(s@) is None ==> r is Err,
    { unimplemented!() }
    /// serialize_with_flavor(.., Size): the Size flavor only counts bytes and cannot fail by itself; that the
    /// Serialize impls of Message's fields do not fail is assumed (they are derived, fixed-shape data)
    #[verifier::external_body]
    pub fn serialize_with_flavor(m: &Message, f: ser_flavors::Size) -> (r: std::result::Result<usize, Error>)
        ensures r is Ok, r->Ok_0 == postcard_encode(*m).len()
    { unimplemented!() }
    /// to_slice: writes the encoding at the start of `buf`, fails when it does not fit; the rest of `buf` is kept
    #[verifier::external_body]
    pub fn to_slice<'a, 'b>(m: &'b Message, buf: &'a mut [u8]) -> (r: std::result::Result<&'a mut [u8], Error>)
        ensures
            final(buf)@.len() == old(buf)@.len(),
            old(buf)@.len() < postcard_encode(*m).len() ==> r is Err,
            r is Ok ==> postcard_encode(*m).len() <= old(buf)@.len()
                && final(buf)@.subrange(0, postcard_encode(*m).len() as int) == postcard_encode(*m)
                && final(buf)@.subrange(postcard_encode(*m).len() as int, old(buf)@.len() as int)
                    == old(buf)@.subrange(postcard_encode(*m).len() as int, old(buf)@.len() as int),
    { unimplemented!() }
}
impl From<postcard::Error> for AnyhowError {
    #[verifier::external_body]
    fn from(e: postcard::Error) -> AnyhowError { unimplemented!() }
}
