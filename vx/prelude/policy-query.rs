// ================= trusted prelude (policy): what QueryIterator::new opens (A-redb) =================
// Included after frag/store-head.vt and prelude/policy-ranges.rs (RecordsRoTbl).
// `ReadOnlyTables`: the tables of a read transaction, as far as `new` touches them (records, by-key index).
// `RecordsRange::with_bounds_static` / `RecordsByKeyRange::with_bounds` (src/store/fs/ranges.rs) are two-line wrappers
// around redb `table.range(bounds.as_ref())`; not examined. The shells only REMEMBER (ghost) which tables and which
// bounds the range was opened with; what the range later yields is the business of `next_filtered`
// (U-policy-bykey for the by-key range).

/// by-key index, read-only
#[verifier::external_body]
pub struct ByKeyRoTbl { _p: u8 }
impl ByKeyRoTbl { pub uninterp spec fn view(&self) -> Set<ByKeyId>; }

pub struct ReadOnlyTables {
    pub records: RecordsRoTbl,
    pub records_by_key: ByKeyRoTbl,
}

#[verifier::external_body]
pub struct RecordsRange { _p: u8 }
impl RecordsRange {
    /// the bounds the range was opened with
    pub uninterp spec fn bounds(&self) -> RecordsBounds;
    /// the contents of the records table it was opened on
    pub uninterp spec fn table(&self) -> Map<RecId, RecVal>;
    #[verifier::external_body]
    pub fn with_bounds_static(records: &RecordsRoTbl, bounds: RecordsBounds) -> (r: anyhow::Result<Self>)
        ensures r is Ok ==> r->Ok_0.bounds() == bounds && r->Ok_0.table() == records@
    { unimplemented!() }

    /// the row ids still to be yielded, ascending
    pub uninterp spec fn rest(&self) -> Seq<RecId>;
    /// `RecordsRange::next_filtered` (src/store/fs/ranges.rs: `self.0.next_filter_map(direction, |k, v| filter(k, v).then(|| into_entry(k, v)))`).
    /// MODEL, same as `ByKeyRange::next_try_filter_map` (prelude/policy-ranges.rs): rows are taken from the front (Asc) or the back
    /// (Desc) of `rest()`, the rows the filter rejects are skipped, the first row it accepts is returned as the entry of that row
    /// (A-entry: into_entry); None iff the range is exhausted; a redb read error ends the call with Some(Err(_)) and nothing is
    /// claimed about `rest()` after it.
    #[verifier::external_body]
    pub fn next_filtered<F: Fn(RecordsId<'_>, RecordsValue<'_>) -> bool>(&mut self, direction: &SortDirection, filter: F) -> (r: Option<anyhow::Result<SignedEntry>>)
        requires forall|k: RecordsId, v: RecordsValue| #[trigger] filter.requires((k, v)),
        ensures
            final(self).table() == old(self).table() && final(self).bounds() == old(self).bounds(),
            r is None ==> final(self).rest().len() == 0
                && (forall|i: int| 0 <= i < old(self).rest().len() ==> row_filter_says(filter, old(self).table(), #[trigger] gnth(old(self).rest(), is_asc(*direction), i), false)),
            r is Some && r->Some_0 is Ok ==> (exists|n: int| 0 <= n < old(self).rest().len() && ({
                let id = #[trigger] gnth(old(self).rest(), is_asc(*direction), n);
                &&& (forall|i: int| 0 <= i < n ==> row_filter_says(filter, old(self).table(), #[trigger] gnth(old(self).rest(), is_asc(*direction), i), false))
                &&& row_filter_says(filter, old(self).table(), id, true)
                &&& old(self).table().contains_key(id)
                &&& r->Some_0->Ok_0@ == (EntryV { id: id, val: old(self).table()[id] })
                &&& final(self).rest() == grem(old(self).rest(), is_asc(*direction), n + 1)
            })),
    { unimplemented!() }
}

/// the i-th element visited in the given direction / what remains after c elements were visited
pub open spec fn gnth<T>(rest: Seq<T>, asc: bool, i: int) -> T { if asc { rest[i] } else { rest[rest.len() - 1 - i] } }
pub open spec fn grem<T>(rest: Seq<T>, asc: bool, c: int) -> Seq<T> { if asc { rest.subrange(c, rest.len() as int) } else { rest.subrange(0, rest.len() - c) } }
/// the caller's filter, applied to (a borrowed form of) the row `id` of `table`, may return `b`
pub open spec fn row_filter_says<F: Fn(RecordsId<'_>, RecordsValue<'_>) -> bool>(filter: F, table: Map<RecId, RecVal>, id: RecId, b: bool) -> bool {
    exists|k: RecordsId, v: RecordsValue| rid(k) == id && table.contains_key(id) && rval(v) == table[id] && #[trigger] filter.ensures((k, v), b)
}

#[verifier::external_body]
pub struct RecordsByKeyRange { _p: u8 }
impl RecordsByKeyRange {
    pub uninterp spec fn bounds(&self) -> ByKeyBounds;
    pub uninterp spec fn index(&self) -> Set<ByKeyId>;
    pub uninterp spec fn table(&self) -> Map<RecId, RecVal>;
    #[verifier::external_body]
    pub fn with_bounds(records_by_key_table: ByKeyRoTbl, records_table: RecordsRoTbl, bounds: ByKeyBounds) -> (r: anyhow::Result<Self>)
        ensures r is Ok ==> r->Ok_0.bounds() == bounds && r->Ok_0.index() == records_by_key_table@ && r->Ok_0.table() == records_table@
    { unimplemented!() }

    /// the index ids still to be yielded, ascending
    pub uninterp spec fn rest(&self) -> Seq<ByKeyId>;
    /// `RecordsByKeyRange::next_filtered`: this contract is PROVED on the real text in unit U-policy-bykey
    /// (obligation `shellsync.RecordsByKeyRange.next_filtered`, where rest() = by_key_range.rest() and table() = records_table@).
    #[verifier::external_body]
    pub fn next_filtered<F: Fn(RecordsByKeyId<'_>) -> bool>(&mut self, direction: &SortDirection, filter: F) -> (r: Option<anyhow::Result<SignedEntry>>)
        requires forall|k: RecordsByKeyId| #[trigger] filter.requires((k,)),
        ensures
            final(self).table() == old(self).table(),
            r is None ==> final(self).rest().len() == 0 && (forall|i: int| 0 <= i < old(self).rest().len() ==> skipped(filter, old(self).table(), #[trigger] dir_nth(old(self).rest(), is_asc(*direction), i))),
            r is Some && r->Some_0 is Ok ==> (exists|n: int| 0 <= n < old(self).rest().len() && ({
                let id = #[trigger] dir_nth(old(self).rest(), is_asc(*direction), n);
                &&& (forall|i: int| 0 <= i < n ==> skipped(filter, old(self).table(), #[trigger] dir_nth(old(self).rest(), is_asc(*direction), i)))
                &&& filter_says(filter, id, true)
                &&& old(self).table().contains_key(bk_rec_id(id))
                &&& r->Some_0->Ok_0@ == (EntryV { id: bk_rec_id(id), val: old(self).table()[bk_rec_id(id)] })
                &&& final(self).rest() == dir_after(old(self).rest(), is_asc(*direction), n)
            })),
    { unimplemented!() }
}
