// ================= trusted prelude (policy): what QueryIterator::new opens (A-redb) =================
// Included after frag/store-head.vt and prelude/policy-ranges.rs (RecordsRoTbl).
// `ReadOnlyTables`: the tables of a read transaction, as far as `new` touches them (records, by-key index).
// `RecordsRange::with_bounds_static` / `RecordsByKeyRange::with_bounds` (src/store/fs/ranges.rs) are two-line wrappers
// around redb `table.range(bounds.as_ref())`; not examined. The shells only REMEMBER (ghost) which tables and which
// bounds the range was opened with; what the range later yields is the business of `next_filtered`
// (U-policy-bykey for the by-key range).

/// by-key index, read-only
#[verifier::external_body]
pub struct ByKeyRoTbl { _p: u8 }
impl ByKeyRoTbl { pub uninterp spec fn view(&self) -> Set<ByKeyId>; }

pub struct ReadOnlyTables {
    pub records: RecordsRoTbl,
    pub records_by_key: ByKeyRoTbl,
}

#[verifier::external_body]
pub struct RecordsRange { _p: u8 }
impl RecordsRange {
    /// the bounds the range was opened with
    pub uninterp spec fn bounds(&self) -> RecordsBounds;
    /// the contents of the records table it was opened on
    pub uninterp spec fn table(&self) -> Map<RecId, RecVal>;
    #[verifier::external_body]
    pub fn with_bounds_static(records: &RecordsRoTbl, bounds: RecordsBounds) -> (r: anyhow::Result<Self>)
        ensures r is Ok ==> r->Ok_0.bounds() == bounds && r->Ok_0.table() == records@
    { unimplemented!() }
}

#[verifier::external_body]
pub struct RecordsByKeyRange { _p: u8 }
impl RecordsByKeyRange {
    pub uninterp spec fn bounds(&self) -> ByKeyBounds;
    pub uninterp spec fn index(&self) -> Set<ByKeyId>;
    pub uninterp spec fn table(&self) -> Map<RecId, RecVal>;
    #[verifier::external_body]
    pub fn with_bounds(records_by_key_table: ByKeyRoTbl, records_table: RecordsRoTbl, bounds: ByKeyBounds) -> (r: anyhow::Result<Self>)
        ensures r is Ok ==> r->Ok_0.bounds() == bounds && r->Ok_0.index() == records_by_key_table@ && r->Ok_0.table() == records_table@
    { unimplemented!() }
}
