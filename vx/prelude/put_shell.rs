// ---- derived contract of `ranger::Store::put` on the fs store: the abstract insert of spec/putspec.rs ----
// Not a trusted shell: the contract below is PROVED in unit U-store (obligation shellsync.StoreInstance.put) from the verified postcondition of the
// real `put` (labels put.*) - this is the machine-checked link between the code and the `put_spec` / `head_spec` functions that the join lemmas of
// L-join (C02: order independence, idempotence; C13: heads) are stated over.
impl StoreInstance {
    #[verifier::external_body]
    pub fn put(&mut self, entry: SignedEntry) -> (r: Result<InsertOutcome, AnyhowError>)
        requires
            tables_wf(old(self).store.tables),
            entry@.id.wf(),
        ensures
            r is Ok ==> proj(final(self).store.tables.records@, entry@.id.ns) =~= put_spec(proj(old(self).store.tables.records@, entry@.id.ns), ent_of_entry(entry@)),
            r is Ok ==> (forall|ns2: Seq<u8>| ns2 != entry@.id.ns ==> #[trigger] proj(final(self).store.tables.records@, ns2) =~= proj(old(self).store.tables.records@, ns2)),
            r is Ok ==> hproj(final(self).store.tables.latest_per_author@, entry@.id.ns) =~= head_spec(hproj(old(self).store.tables.latest_per_author@, entry@.id.ns), proj(old(self).store.tables.records@, entry@.id.ns), ent_of_entry(entry@)),
            r is Ok ==> tables_wf(final(self).store.tables),
            r is Ok && r->Ok_0 is Inserted <==> r is Ok && !dominated_in(proj(old(self).store.tables.records@, entry@.id.ns), ent_of_entry(entry@)),
    { unimplemented!() }
}
