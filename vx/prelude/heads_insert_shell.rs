// ================= trusted prelude: AuthorHeads::insert (A-heads-insert) — NOT VERIFIED BY VERUS =================
// src/heads.rs `AuthorHeads::insert` is `self.heads.entry(author).and_modify(|t| *t = (*t).max(timestamp)).or_insert(timestamp)`.
// `BTreeMap::entry`, the `Entry` type, `and_modify` (closure over `&mut V`) and `or_insert` have no Verus specification
// and cannot be given one from outside vstd, so the function is represented by its ASSUMED contract (max-merge).
// A bounded Kani harness for this contract was attempted and abandoned: CBMC does not get through std's BTreeMap node
// code (no result within 10 minutes even with two concrete authors). The contract is exercised on the real function by
// the concrete small-domain test replay/cases/heads_encode.rs :: insert_is_max_merge (a test, not a proof).
impl AuthorHeads {
    #[verifier::external_body]
    fn insert(&mut self, author: AuthorId, timestamp: Timestamp)
        ensures final(self).heads@ == heads_put(old(self).heads@, author, timestamp)
    { unimplemented!() }
}
