// ================= trusted prelude: AuthorHeads::insert (A-heads-insert) — NOT VERIFIED BY VERUS =================
// src/heads.rs `AuthorHeads::insert` is `self.heads.entry(author).and_modify(|t| *t = (*t).max(timestamp)).or_insert(timestamp)`.
// `BTreeMap::entry`, the `Entry` type, `and_modify` (closure over `&mut V`) and `or_insert` have no Verus specification
// and cannot be given one from outside vstd, so the function is represented by its ASSUMED contract (max-merge).
// The same contract is checked on the real function, bounded to three authors, by the Kani harness
// kani/heads.harness.rs :: heads_insert_max_merge.
impl AuthorHeads {
    #[verifier::external_body]
    fn insert(&mut self, author: AuthorId, timestamp: Timestamp)
        ensures final(self).heads@ == heads_put(old(self).heads@, author, timestamp)
    { unimplemented!() }
}
