// ================= trusted prelude of the `valid` unit family (C03 / C12 direct path / C07 gate) =================
// Real structs (Record, Entry, SignedEntry, EntrySignature, RecordIdentifier, the enums) are EXTRACTED by
// frag/valid-types.vt; this file only holds shells of external crates and the crypto assumptions (A-crypto).
use std::ops::Deref;

// ---- bytes::Bytes additions (prelude/bytes.rs lacks Deref): `&self.0` of a Bytes coerces to `&[u8]` ----
impl Deref for Bytes {
    type Target = [u8];
    #[verifier::external_body]
    fn deref(&self) -> (r: &[u8]) ensures r@ == self@ { unimplemented!() }
}

// ---- iroh_blobs::Hash: newtype over the 32 bytes of a blake3 hash; `==` is equality of those bytes ----
#[derive(Clone, Copy, PartialEq, Eq)]
pub struct Hash(pub [u8; 32]);
impl Hash {
    /// iroh-blobs 0.102 src/hash.rs: `pub const EMPTY: Hash = Hash::from_bytes([175, 19, ...])`
    pub const EMPTY: Hash = Hash([
        175, 19, 73, 185, 245, 249, 161, 166, 160, 64, 77, 234, 54, 220, 201, 73, 155, 203, 37,
        201, 173, 193, 18, 183, 204, 154, 147, 202, 228, 31, 50, 98,
    ]);
    pub fn as_bytes(&self) -> (r: &[u8; 32]) ensures *r == self.0 { &self.0 }
    /// `Hash::new(data)`: blake3 of the data (uninterpreted)
    pub uninterp spec fn of_data(data: Seq<u8>) -> Hash;
    #[verifier::external_body]
    pub fn new(data: &[u8]) -> (r: Hash) ensures r == Self::of_data(data@) { unimplemented!() }
}
/// `==` on the derived PartialEq of Hash / NamespaceId (32-byte newtypes): structural equality
impl vstd::std_specs::cmp::PartialEqSpecImpl for Hash {
    open spec fn obeys_eq_spec() -> bool { true }
    open spec fn eq_spec(&self, other: &Hash) -> bool { *self == *other }
}
impl vstd::std_specs::cmp::PartialEqSpecImpl for NamespaceId {
    open spec fn obeys_eq_spec() -> bool { true }
    open spec fn eq_spec(&self, other: &NamespaceId) -> bool { *self == *other }
}
impl AsRef<[u8]> for Hash {
    #[verifier::external_body]
    fn as_ref(&self) -> (r: &[u8]) ensures r@ == self.0@ { unimplemented!() }
}

// ---- std: big-endian encoding of u64 (only its being a function of the value is used) ----
// `u64::to_be_bytes` cannot be given an assume_specification: its return type is spelled with an anonymous constant
// (`[u8; {constant#0}]`) that no written type matches. The extracted `x.to_be_bytes()` calls are therefore mapped (R8,
// logged) to this shell, whose body is the very same std call.
pub uninterp spec fn be8(x: u64) -> Seq<u8>;
#[verifier::external_body]
fn u64_to_be_bytes(x: u64) -> (r: [u8; 8])
    ensures r@ == be8(x)
{ x.to_be_bytes() }
/// little-endian / native-endian encodings: other (uninterpreted) functions of the value; nothing relates them to be8
pub uninterp spec fn le8(x: u64) -> Seq<u8>;
#[verifier::external_body]
fn u64_to_le_bytes(x: u64) -> (r: [u8; 8])
    ensures r@ == le8(x)
{ x.to_le_bytes() }
pub uninterp spec fn ne8(x: u64) -> Seq<u8>;
#[verifier::external_body]
fn u64_to_ne_bytes(x: u64) -> (r: [u8; 8])
    ensures r@ == ne8(x)
{ x.to_ne_bytes() }

// ---- ed25519 (A-crypto): everything below is an uninterpreted predicate / partial function ----
/// `PublicKey::from_bytes(id)` succeeds (the 32 bytes are a valid curve point)
pub uninterp spec fn key_parses(id: Seq<u8>) -> bool;
/// `VerifyingKey::verify_strict(msg, sig)` for the key whose compressed bytes are `pk`
pub uninterp spec fn sig_valid(pk: Seq<u8>, msg: Seq<u8>, sig: Seq<u8>) -> bool;

#[verifier::external_body]
pub struct KeyParsingError { _p: u8 }
#[verifier::external_body]
pub struct SignatureError { _p: u8 }

/// iroh::Signature (64 bytes)
#[verifier::external_body]
#[derive(Clone, Copy, PartialEq, Eq)]
pub struct Signature { _p: u8 }
impl Signature {
    pub uninterp spec fn view(&self) -> Seq<u8>;
}

/// iroh::PublicKey: abstractly its 32 compressed bytes (`from_bytes(b).as_bytes() == b`)
#[verifier::external_body]
#[derive(Clone, Copy, PartialEq, Eq)]
pub struct PublicKey { _p: u8 }
impl PublicKey {
    pub uninterp spec fn view(&self) -> Seq<u8>;
    /// iroh-base key.rs: `self.as_verifying_key().verify_strict(message, &signature.0).map_err(..)`
    #[verifier::external_body]
    pub fn verify(&self, message: &[u8], signature: &Signature) -> (r: Result<(), SignatureError>)
        ensures r is Ok <==> sig_valid(self@, message@, signature@)
    { unimplemented!() }
}


/// src/store/fs.rs `StoreInstance<'a>` (namespace + &mut Store): opaque. Its abstract view is declared in
/// prelude/valid-store.rs; the key lookups (trait PublicKeyStore) in frag/valid-sig.vt.
#[verifier::external_body]
pub struct StoreInstance { _p: u8 }

/// keys.rs `NamespaceSecret` / `Author`: secret keys, opaque
#[verifier::external_body]
pub struct NamespaceSecret { _p: u8 }
impl NamespaceSecret {
    pub uninterp spec fn spec_id(&self) -> NamespaceId;
    #[verifier::external_body]
    pub fn id(&self) -> (r: NamespaceId) ensures r == self.spec_id() { unimplemented!() }
}
impl Clone for NamespaceSecret {
    #[verifier::external_body]
    fn clone(&self) -> (r: NamespaceSecret) ensures r == *self { unimplemented!() }
}
#[verifier::external_body]
pub struct Author { _p: u8 }
impl Author {
    pub uninterp spec fn spec_id(&self) -> AuthorId;
    #[verifier::external_body]
    pub fn id(&self) -> (r: AuthorId) ensures r == self.spec_id() { unimplemented!() }
}

/// src/sync.rs `system_time_now()` (A-clock): wall clock in microseconds; assumed not within ten minutes of u64::MAX
/// (year 586_524 CE), which is the no-overflow precondition of `validate_entry`.
/// `is_clock_reading(t)`: t is a value this function has returned (uninterpreted; lets contracts say "the local clock"
/// instead of "some number").
pub uninterp spec fn is_clock_reading(t: u64) -> bool;
#[verifier::external_body]
fn system_time_now() -> (r: u64)
    ensures
        r <= u64::MAX - MAX_TIMESTAMP_FUTURE_SHIFT,
        is_clock_reading(r),
{ unimplemented!() }
