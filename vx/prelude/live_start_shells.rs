// ================= trusted prelude: shells used by `LiveActor::start_sync` / `leave` (src/engine/live.rs) (A-live-io, part 2) =================

/// `crate::actor::OpenOpts`: builder, content irrelevant here
#[verifier::external_body]
struct OpenOpts { _p: u8 }
impl Default for OpenOpts {
    #[verifier::external_body]
    fn default() -> OpenOpts { unimplemented!() }
}
impl OpenOpts {
    #[verifier::external_body]
    fn sync(self) -> OpenOpts { unimplemented!() }
    #[verifier::external_body]
    fn subscribe(self, subscribe: async_channel::Sender<ReplicaEvent>) -> OpenOpts { unimplemented!() }
}
impl<T> Clone for async_channel::Sender<T> {
    #[verifier::external_body]
    fn clone(&self) -> Self { unimplemented!() }
}

/// `SyncHandle::{open, set_sync, unsubscribe, close}` send one request to the store thread and return its answer
/// (any `Result`). The real methods take `&self` (channel send); the shells take `&mut self` ONLY so that the ghost
/// call log `calls()` can advance - Verus cannot express an effect through `&self`. Call sites (`self.sync.open(..)`
/// with `self: &mut LiveActor`) type-check identically by auto-ref. Each call appends exactly one record, whatever
/// the result (`Open` also records whether the store answered Ok). `get_sync_peers` is a read and leaves the log alone (`&self`).
impl SyncHandle {
    #[verifier::external_body]
    async fn open(&mut self, namespace: NamespaceId, opts: OpenOpts) -> (r: Result<()>)
        ensures final(self).calls() == old(self).calls().push(SyncCall::Open(namespace, r is Ok))
    { unimplemented!() }
    #[verifier::external_body]
    async fn set_sync(&mut self, namespace: NamespaceId, sync: bool) -> (r: Result<()>)
        ensures final(self).calls() == old(self).calls().push(SyncCall::SetSync(namespace, sync))
    { unimplemented!() }
    #[verifier::external_body]
    async fn unsubscribe(&mut self, namespace: NamespaceId, sender: async_channel::Sender<ReplicaEvent>) -> (r: Result<()>)
        ensures final(self).calls() == old(self).calls().push(SyncCall::Unsubscribe(namespace))
    { unimplemented!() }
    #[verifier::external_body]
    async fn close(&mut self, namespace: NamespaceId) -> (r: Result<bool>)
        ensures final(self).calls() == old(self).calls().push(SyncCall::Close(namespace))
    { unimplemented!() }
    /// real result type: `Result<Option<Vec<PeerIdBytes>>>`; the list is the shell `PeerIdList` (see below)
    #[verifier::external_body]
    async fn get_sync_peers(&self, namespace: NamespaceId) -> Result<Option<PeerIdList>>
    { unimplemented!() }
}

/// Stand-in for the `Vec<PeerIdBytes>` returned by `get_sync_peers`, its `into_iter()` and the iterator adaptor
/// `filter_map`: `Iterator::filter_map` is a provided trait method (no `assume_specification` possible) and its result
/// type `FilterMap` is outside vstd. INHERENT methods with the same names shadow the trait methods, so the body of
/// `start_sync` is taken unchanged. No contract: which addresses come out is irrelevant to the session table; the
/// closure passed to `filter_map` is still verified (body safety) as part of `start_sync`.
#[verifier::external_body]
struct PeerIdList { _p: u8 }
#[verifier::external_body]
struct PeerIdIter { _p: u8 }
#[verifier::external_body]
#[verifier::reject_recursive_types(F)]
struct PeerIdFilterMap<F> { _p: std::marker::PhantomData<F> }
impl PeerIdList {
    #[verifier::external_body]
    fn into_iter(self) -> PeerIdIter { unimplemented!() }
}
impl PeerIdIter {
    #[verifier::external_body]
    fn filter_map<F: FnMut([u8; 32]) -> Option<EndpointAddr>>(self, f: F) -> PeerIdFilterMap<F> { unimplemented!() }
}
/// `Vec::<EndpointAddr>::extend(iter)` for that adaptor, as an inherent-style extension trait would clash with std's
/// `Extend`; instead the adaptor is an `Iterator` and std's `Extend::extend` gets an assumed (contract-free) spec.
impl<F: FnMut([u8; 32]) -> Option<EndpointAddr>> Iterator for PeerIdFilterMap<F> {
    type Item = EndpointAddr;
    #[verifier::external_body]
    fn next(&mut self) -> Option<EndpointAddr> { unimplemented!() }
}

/// std `Vec::extend`: appends what the iterator yields; no contract needed here (the peer list only flows into
/// `join_peers`). Needs `#![feature(allocator_api)]` as first line of the unit (the signature names the allocator).
pub assume_specification<T, A, I> [<std::vec::Vec<T, A> as std::iter::Extend<T>>::extend] (v: &mut std::vec::Vec<T, A>, it: I)
    where A: std::alloc::Allocator, I: std::iter::IntoIterator<Item = T>;

/// `GossipState::{join, quit}` and `SubscribersMap::remove`, `MemoryLookup::add_endpoint_info`: own field only
impl GossipState {
    #[verifier::external_body]
    async fn join(&mut self, namespace: NamespaceId, bootstrap: Vec<EndpointId>) -> Result<()> { unimplemented!() }
    #[verifier::external_body]
    fn quit(&mut self, topic: &NamespaceId) { unimplemented!() }
}
impl MemoryLookup {
    #[verifier::external_body]
    fn add_endpoint_info(&self, info: EndpointAddr) { unimplemented!() }
}
impl SubscribersMap {
    #[verifier::external_body]
    fn remove(&mut self, namespace: &NamespaceId) { unimplemented!() }
}
