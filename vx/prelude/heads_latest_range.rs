// ================= trusted prelude: a redb range over the latest-per-author table (A-redb-range-latest) =================
// `redb::Range<'a, LatestPerAuthorKey, LatestPerAuthorValue>` as a cursor over a snapshot `tbl()` of the table:
// `keys()` are the keys still to be visited, ascending in the table's tuple order. `ReadableTable::range(lo..=hi)`
// starts it on exactly the keys within the inclusive bounds.
#[verifier::external_body]
pub struct LatestRange<'a> { _p: std::marker::PhantomData<&'a u8> }
impl<'a> LatestRange<'a> {
    pub uninterp spec fn keys(&self) -> Seq<LatestKey>;
    pub uninterp spec fn tbl(&self) -> Map<LatestKey, LatestVal>;

    /// `RangeExt::next_map` (src/store/fs/ranges.rs, body not examined: `self.next().map(|r| r.map_err(Into::into).map(|r| map(r.0.value(), r.1.value())))`):
    /// advance by one row; `None` at the end; otherwise the storage error or `map(key, value)` of the row passed.
    #[verifier::external_body]
    pub fn next_map<T, F: Fn(LatestPerAuthorKey<'_>, LatestPerAuthorValue<'_>) -> T>(&mut self, map: F) -> (r: Option<Result<T>>)
        requires forall|k: LatestPerAuthorKey, v: LatestPerAuthorValue| map.requires((k, v)),
        ensures
            final(self).tbl() == old(self).tbl(),
            old(self).keys().len() == 0 ==> r is None && final(self).keys() == old(self).keys(),
            old(self).keys().len() > 0 ==> r is Some && final(self).keys() == old(self).keys().drop_first(),
            r is Some && r->Some_0 is Ok ==> exists|k: LatestPerAuthorKey, v: LatestPerAuthorValue|
                lkey(k) == old(self).keys()[0] && lval(v) == old(self).tbl()[old(self).keys()[0]] && map.ensures((k, v), r->Some_0->Ok_0),
    { unimplemented!() }
}

/// keys of `t` within [lo, hi], ascending, each once
pub open spec fn latest_range_keys(keys: Seq<LatestKey>, t: Map<LatestKey, LatestVal>, lo: LatestKey, hi: LatestKey) -> bool {
    &&& (forall|k: LatestKey| #[trigger] keys.contains(k) <==> (t.contains_key(k) && latest_in_range(lo, hi, k)))
    &&& (forall|i: int, j: int| 0 <= i < j < keys.len() ==> latest_lt(#[trigger] keys[i], #[trigger] keys[j]))
}

/// `redb::ReadableTable<K, V>` restricted to what `LatestIterator::new` uses (the generic parameters are kept so that the
/// real signature `&'a impl ReadableTable<LatestPerAuthorKey<'static>, LatestPerAuthorValue<'static>>` applies unchanged)
pub trait ReadableTable<K, V> {
    spec fn rows(&self) -> Map<LatestKey, LatestVal>;
    fn range<'a, 'r>(&'a self, b: std::ops::RangeInclusive<LatestPerAuthorKey<'r>>) -> (r: std::result::Result<LatestRange<'a>, StorageError>)
        ensures
            r is Ok ==> r->Ok_0.tbl() == self.rows(),
            r is Ok ==> latest_range_keys(r->Ok_0.keys(), self.rows(), lkey(b@.start), lkey(b@.end)),
    ;
}
impl ReadableTable<LatestPerAuthorKey<'static>, LatestPerAuthorValue<'static>> for LatestTbl {
    open spec fn rows(&self) -> Map<LatestKey, LatestVal> { self@ }
    #[verifier::external_body]
    fn range<'a, 'r>(&'a self, b: std::ops::RangeInclusive<LatestPerAuthorKey<'r>>) -> (r: std::result::Result<LatestRange<'a>, StorageError>)
    { unimplemented!() }
}
