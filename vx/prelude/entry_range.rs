// ================= trusted prelude: RangeEntry accessors and the value order of entries =================
/// `impl Ord for Record` (src/sync.rs): timestamp first, then content hash bytes (proved on the real function by the
/// Kani unit U-ord); `iroh_blobs::Hash: Ord` compares the 32 hash bytes lexicographically (A-hash-ord)
pub open spec fn vlt(a: RecordV, b: RecordV) -> bool { a.ts < b.ts || (a.ts == b.ts && lex_lt(a.hash, b.hash)) }
/// a <= b in that (total) order, i.e. not (b < a)
pub open spec fn vle(a: RecordV, b: RecordV) -> bool { !vlt(b, a) }

pub proof fn lemma_vlt_asym(a: RecordV, b: RecordV)
    ensures !(vlt(a, b) && vlt(b, a))
{ lemma_lex_asym(a.hash, b.hash); }

pub proof fn lemma_vle_char(a: RecordV, b: RecordV)
    ensures vle(a, b) <==> (a.ts < b.ts || (a.ts == b.ts && lex_le(a.hash, b.hash)))
{ lemma_lex_asym(a.hash, b.hash); lemma_lex_total(a.hash, b.hash); }

impl PartialEq for Record {
    #[verifier::external_body]
    fn eq(&self, other: &Record) -> (r: bool) ensures r == (self@ == other@) { unimplemented!() }
}
impl PartialOrd for Record {
    #[verifier::external_body]
    fn partial_cmp(&self, other: &Record) -> Option<std::cmp::Ordering> { unimplemented!() }
}
impl vstd::std_specs::cmp::PartialOrdSpecImpl for Record {
    open spec fn obeys_partial_cmp_spec() -> bool { true }
    open spec fn partial_cmp_spec(&self, other: &Record) -> Option<std::cmp::Ordering> {
        if vlt(self@, other@) { Some(std::cmp::Ordering::Less) }
        else if vlt(other@, self@) { Some(std::cmp::Ordering::Greater) }
        else { Some(std::cmp::Ordering::Equal) }
    }
}

impl SignedEntry {
    /// RangeEntry::key
    #[verifier::external_body]
    pub fn key(&self) -> (r: &RecordIdentifier) ensures r@ == self@.id { unimplemented!() }
    /// RangeEntry::value
    #[verifier::external_body]
    pub fn value(&self) -> (r: &Record) ensures r@ == rec_of(self@.val) { unimplemented!() }
}
impl Clone for SignedEntry {
    #[verifier::external_body]
    fn clone(&self) -> (r: SignedEntry) ensures r@ == self@ { unimplemented!() }
}
