// ================= trusted prelude (cap-actor): shells of two `Store` functions verified on the real text in U-cap-import =================
// Both contracts are proved from the verified ones by `//@shellcheck` in units/U-cap-import.vt (same vocabulary:
// frag/cap-import-spec.vt). Needs frag/store-head.vt, frag/cap-capability.vt, frag/cap-replicainfo.vt, frag/cap-import-spec.vt.
impl Store {
    #[verifier::external_body]
    fn import_namespace(&mut self, capability: Capability) -> (r: Result<ImportNamespaceOutcome>)
        ensures
            r is Ok ==> final(self).tables.namespaces@ == ns_after_import(old(self).tables.namespaces@, capability),
            r is Ok ==> r->Ok_0 == outcome_after_import(old(self).tables.namespaces@, capability),
            r is Ok ==> import_row_kind(old(self).tables.namespaces@, final(self).tables.namespaces@, capability),
            r is Err ==> final(self).tables.namespaces@ == old(self).tables.namespaces@,
            same_but_namespaces(*old(self), *final(self)),
    { unimplemented!() }

    #[verifier::external_body]
    fn load_replica_info(&mut self, namespace_id: &NamespaceId) -> (r: Result<ReplicaInfo, OpenError>)
        ensures
            r is Ok ==> old(self).tables.namespaces@.contains_key(namespace_id.0@)
                && r->Ok_0.capability == cap_of_row(old(self).tables.namespaces@[namespace_id.0@]),
            r is Ok ==> final(self).open_replicas@ == old(self).open_replicas@.insert(cap_id(r->Ok_0.capability)),
            r is Err ==> final(self).open_replicas@ == old(self).open_replicas@,
            final(self).tables == old(self).tables,
    { unimplemented!() }
}

/// thiserror + anyhow: `OpenError` converts into anyhow::Error (value opaque)
impl From<OpenError> for AnyhowError {
    #[verifier::external_body]
    fn from(e: OpenError) -> AnyhowError { unimplemented!() }
}
