// ================= trusted prelude for src/heads.rs (A-heads) =================
// std::collections::BTreeMap / BTreeSet and std::num::NonZeroU64 are specified by vstd itself (view `@` as Map / Set,
// `get`, `len`, `is_empty`, `insert`, `iter()` usable in `for` loops, `NonZeroU64::new`); nothing of that is re-assumed here.
use std::collections::{BTreeMap, BTreeSet};
use std::num::NonZeroU64;
use vstd::std_specs::iter::IteratorSpec as _;

// `AuthorId` (src/keys.rs) derives PartialOrd/Ord on its `[u8; 32]` newtype; prelude/ids.rs only carries
// Clone/Copy/PartialEq/Eq, so the two impls are supplied here as opaque functions (their results are never inspected
// by the verified text) ...
impl PartialOrd for AuthorId {
    #[verifier::external_body]
    fn partial_cmp(&self, other: &Self) -> Option<std::cmp::Ordering> { unimplemented!() }
}
impl Ord for AuthorId {
    #[verifier::external_body]
    fn cmp(&self, other: &Self) -> std::cmp::Ordering { unimplemented!() }
}
/// ... together with the one fact vstd's BTreeMap specification needs about a key type: its Eq/PartialOrd/Ord are
/// lawful (a total order consistent with `==`). TRUSTED: holds for the derived impls on a byte-array newtype.
/// (vstd defines `key_obeys_cmp_spec::<K>()` as `laws_cmp::obeys_cmp::<K>()`, which is built from uninterpreted law
/// predicates that cannot be discharged for a user type from inside a single file.)
#[verifier::external_body]
pub proof fn axiom_author_id_ord_lawful()
    ensures vstd::std_specs::btree::key_obeys_cmp_spec::<AuthorId>()
{ }

/// `Option<&T>::copied` (std): missing from vstd
pub assume_specification<'a, T> [ std::option::Option::<&T>::copied ] (o: std::option::Option<&'a T>) -> (r: std::option::Option<T>)
    where T: std::marker::Copy,
    ensures
        o is None ==> r is None,
        o is Some ==> r == Some(*o->Some_0),
;
