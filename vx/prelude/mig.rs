// ================= trusted prelude (mig): redb database / write transaction as seen by the migrations (A-redb tx) =================
// Model
//   * `Database` carries the committed content as ghost state. redb mutates it through `&Database` (interior
//     mutability); Verus cannot attach effects to a shared reference, so the shell is used through `&mut Database`
//     (signature rule R3 `db: &Database => db: &mut Database` in run_migration / run_migrations).
//   * `begin_write()` hands out a `WriteTransaction` that keeps the `&mut Database` until it is committed or dropped.
//     Dropping it (abort) leaves the committed content as it was - this is not an assumption of the shell but what Verus
//     derives for the `&mut` field; `commit()` replaces the committed content by the transaction's final content.
//   * Tables are written through `&WriteTransaction` (interior mutability again). `open_table(DEF)` returns the table
//     shell of prelude/tables.rs as `&mut`; what the table holds when that borrow ends is the prophecy
//     `tx.st.fin().<table>` (Verus resolves `final(r)` when the handle is last used, exactly the moment redb's `Table`
//     is dropped and its writes become part of the transaction). `tx.st.base()` is the content at `begin_write`.
//     Assumption: a table is opened at most once per transaction (redb returns `TableAlreadyOpen` otherwise); tables that
//     are never opened do not appear in a migration's contract (no handle, no write).
//   * Table definitions are distinct zero-sized shell types, so that `open_table(RECORDS_TABLE)` etc. pick the shell type
//     by trait dispatch (`OpenTable<Def>`).

/// committed / transactional content of the database as far as the migrations are concerned
pub struct DbContent {
    pub records: Map<RecId, RecVal>,
    pub by_key: Set<ByKeyId>,
    pub latest: Map<LatestKey, LatestVal>,
    pub namespaces: Map<Seq<u8>, (u8, Seq<u8>)>,
    /// the `namespaces-1` table (None: the table does not exist)
    pub namespaces_v1: Option<Map<Seq<u8>, Seq<u8>>>,
}

pub struct Database { pub content: Ghost<DbContent> }
impl Database {
    pub open spec fn view(&self) -> DbContent { self.content@ }
}

/// per-transaction ghost values: content at begin, and (prophecy) content of the opened tables when they are released
#[verifier::external_body]
pub struct TxState { _p: u8 }
impl TxState {
    pub uninterp spec fn base(&self) -> DbContent;
    pub uninterp spec fn fin(&self) -> DbContent;
}

pub struct WriteTransaction<'a> { pub db: &'a mut Database, pub st: TxState }

impl Database {
    /// Database::begin_write
    #[verifier::external_body]
    pub fn begin_write(&mut self) -> (r: std::result::Result<WriteTransaction<'_>, StorageError>)
        ensures
            r is Ok ==> *r->Ok_0.db == *old(self) && *final(r->Ok_0.db) == *final(self) && r->Ok_0.st.base() == old(self)@,
            r is Err ==> *final(self) == *old(self),
    { unimplemented!() }
}

impl<'a> WriteTransaction<'a> {
    /// WriteTransaction::commit: on success the committed content is the transaction's final content.
    /// (On a commit error nothing is claimed about the database.)
    #[verifier::external_body]
    pub fn commit(self) -> (r: std::result::Result<(), StorageError>)
        ensures r is Ok ==> final(self.db)@ == self.st.fin(),
    { unimplemented!() }

    /// WriteTransaction::list_tables: handles of the existing tables
    #[verifier::external_body]
    pub fn list_tables(&self) -> (r: std::result::Result<TableHandles, StorageError>)
        ensures r is Ok ==> (r->Ok_0.has_name(NAMESPACES_V1_NAME()) <==> self.st.base().namespaces_v1 is Some),
    { unimplemented!() }

}

/// WriteTransaction::delete_table, by table definition (trait dispatch as for `open_table`): the deleted table is gone when the
/// transaction is released. (A deleted capability table reads as empty.)
pub trait DeleteTable<D> {
    spec fn deleted(&self, d: D) -> bool;
    fn delete_table(&self, d: D) -> (r: std::result::Result<bool, StorageError>)
        ensures r is Ok ==> self.deleted(d);
}
impl<'a> DeleteTable<NamespacesV1TableDef> for WriteTransaction<'a> {
    open spec fn deleted(&self, d: NamespacesV1TableDef) -> bool { self.st.fin().namespaces_v1 is None }
    #[verifier::external_body]
    fn delete_table(&self, d: NamespacesV1TableDef) -> (r: std::result::Result<bool, StorageError>) { unimplemented!() }
}
impl<'a> DeleteTable<NamespacesTableDef> for WriteTransaction<'a> {
    open spec fn deleted(&self, d: NamespacesTableDef) -> bool { self.st.fin().namespaces =~= Map::<Seq<u8>, (u8, Seq<u8>)>::empty() }
    #[verifier::external_body]
    fn delete_table(&self, d: NamespacesTableDef) -> (r: std::result::Result<bool, StorageError>) { unimplemented!() }
}

pub uninterp spec fn NAMESPACES_V1_NAME() -> Seq<char>;

#[verifier::external_body]
pub struct UntypedTableHandle { _p: u8 }
impl UntypedTableHandle {
    pub uninterp spec fn name_spec(&self) -> Seq<char>;
    #[verifier::external_body]
    pub fn name(&self) -> (r: &str) ensures r@ == self.name_spec() { unimplemented!() }
}

/// the iterator returned by list_tables; only `.any(pred)` is used
#[verifier::external_body]
pub struct TableHandles { _p: u8 }
impl TableHandles {
    pub uninterp spec fn has_name(&self, n: Seq<char>) -> bool;
    /// Iterator::any for a predicate that compares the handle's name with a fixed name `n`
    /// (the closure contract must say so: `b == (handle.name_spec() == n)`)
    #[verifier::external_body]
    pub fn any<F: Fn(UntypedTableHandle) -> bool>(self, f: F) -> (r: bool)
        requires forall|h: UntypedTableHandle| f.requires((h,)),
        ensures forall|n: Seq<char>| (forall|h: UntypedTableHandle, b: bool| f.ensures((h,), b) ==> b == (h.name_spec() == n)) ==> r == self.has_name(n),
    { unimplemented!() }
}

// ---- table definitions as distinct zero-sized types ----
pub struct RecordsTableDef;
pub struct ByKeyTableDef;
pub struct LatestTableDef;
pub struct NamespacesTableDef;
pub struct NamespacesV1TableDef;
pub const RECORDS_TABLE: RecordsTableDef = RecordsTableDef;
pub const RECORDS_BY_KEY_TABLE: ByKeyTableDef = ByKeyTableDef;
pub const LATEST_PER_AUTHOR_TABLE: LatestTableDef = LatestTableDef;
pub const NAMESPACES_TABLE: NamespacesTableDef = NamespacesTableDef;
pub const NAMESPACES_TABLE_V1: NamespacesV1TableDef = NamespacesV1TableDef;
impl NamespacesV1TableDef {
    /// TableHandle::name
    #[verifier::external_body]
    pub fn name(&self) -> (r: &str) ensures r@ == NAMESPACES_V1_NAME() { unimplemented!() }
}

/// the v1 namespaces table: ns id -> secret bytes
#[verifier::external_body]
pub struct NamespacesV1Tbl { _p: u8 }
impl NamespacesV1Tbl {
    pub uninterp spec fn view(&self) -> Map<Seq<u8>, Seq<u8>>;
}

pub trait OpenTable<D> {
    type T;
    /// `t`: the table as handed out, `tf`: the table when the handle is released
    spec fn opened(&self, d: D, t: &Self::T, tf: &Self::T) -> bool;
    /// WriteTransaction::open_table
    fn open_table(&self, d: D) -> (r: std::result::Result<&mut Self::T, StorageError>)
        ensures r is Ok ==> self.opened(d, r->Ok_0, final(r->Ok_0));
}
impl<'a> OpenTable<RecordsTableDef> for WriteTransaction<'a> {
    type T = RecordsTbl;
    open spec fn opened(&self, d: RecordsTableDef, t: &RecordsTbl, tf: &RecordsTbl) -> bool {
        t@ == self.st.base().records && tf@ == self.st.fin().records
    }
    #[verifier::external_body]
    fn open_table(&self, d: RecordsTableDef) -> (r: std::result::Result<&mut RecordsTbl, StorageError>) { unimplemented!() }
}
impl<'a> OpenTable<ByKeyTableDef> for WriteTransaction<'a> {
    type T = ByKeyTbl;
    open spec fn opened(&self, d: ByKeyTableDef, t: &ByKeyTbl, tf: &ByKeyTbl) -> bool {
        t@ == self.st.base().by_key && tf@ == self.st.fin().by_key
    }
    #[verifier::external_body]
    fn open_table(&self, d: ByKeyTableDef) -> (r: std::result::Result<&mut ByKeyTbl, StorageError>) { unimplemented!() }
}
impl<'a> OpenTable<LatestTableDef> for WriteTransaction<'a> {
    type T = LatestTbl;
    open spec fn opened(&self, d: LatestTableDef, t: &LatestTbl, tf: &LatestTbl) -> bool {
        t@ == self.st.base().latest && tf@ == self.st.fin().latest
    }
    #[verifier::external_body]
    fn open_table(&self, d: LatestTableDef) -> (r: std::result::Result<&mut LatestTbl, StorageError>) { unimplemented!() }
}
impl<'a> OpenTable<NamespacesTableDef> for WriteTransaction<'a> {
    type T = NamespacesTbl;
    open spec fn opened(&self, d: NamespacesTableDef, t: &NamespacesTbl, tf: &NamespacesTbl) -> bool {
        t@ == self.st.base().namespaces && tf@ == self.st.fin().namespaces
    }
    #[verifier::external_body]
    fn open_table(&self, d: NamespacesTableDef) -> (r: std::result::Result<&mut NamespacesTbl, StorageError>) { unimplemented!() }
}
impl<'a> OpenTable<NamespacesV1TableDef> for WriteTransaction<'a> {
    type T = NamespacesV1Tbl;
    /// opening a table that does not exist creates it empty
    open spec fn opened(&self, d: NamespacesV1TableDef, t: &NamespacesV1Tbl, tf: &NamespacesV1Tbl) -> bool {
        t@ == (match self.st.base().namespaces_v1 { Some(m) => m, None => Map::<Seq<u8>, Seq<u8>>::empty() }) && self.st.fin().namespaces_v1 == Some(tf@)
    }
    #[verifier::external_body]
    fn open_table(&self, d: NamespacesV1TableDef) -> (r: std::result::Result<&mut NamespacesV1Tbl, StorageError>) { unimplemented!() }
}

// ---- full-table iteration (ReadableTable::iter): every row exactly once, ascending ----
pub type RecordsRow = (RecKeyGuard, RecValGuard);
pub type RecordsItem = std::result::Result<RecordsRow, StorageError>;

/// `s` lists the keys of `m`, each exactly once, ascending in table order
pub open spec fn rec_listing(s: Seq<RecId>, m: Map<RecId, RecVal>) -> bool {
    &&& (forall|i: int, j: int| 0 <= i < j < s.len() ==> rec_lt(#[trigger] s[i], #[trigger] s[j]) && s[i] != s[j])
    &&& (forall|i: int| 0 <= i < s.len() ==> #[trigger] m.contains_key(s[i]))
    &&& (forall|id: RecId| m.contains_key(id) ==> exists|i: int| 0 <= i < s.len() && #[trigger] s[i] == id)
}
/// item i is the row of key s[i] or a storage error
pub open spec fn rec_items_of(items: Seq<RecordsItem>, s: Seq<RecId>, m: Map<RecId, RecVal>) -> bool {
    &&& items.len() == s.len()
    &&& (forall|i: int| 0 <= i < items.len() && (#[trigger] items[i]) is Ok ==> items[i]->Ok_0.0@ == s[i] && items[i]->Ok_0.1@ == m[s[i]])
}
pub open spec fn rec_items_list_map(items: Seq<RecordsItem>, m: Map<RecId, RecVal>) -> bool {
    exists|s: Seq<RecId>| rec_listing(s, m) && #[trigger] rec_items_of(items, s, m)
}

#[verifier::external_body]
pub struct RecordsIter { _p: u8 }
impl RecordsIter {
    pub uninterp spec fn rest(&self) -> Seq<RecordsItem>;
}
impl Iterator for RecordsIter {
    type Item = RecordsItem;
    #[verifier::external_body]
    fn next(&mut self) -> (r: Option<RecordsItem>) { unimplemented!() }
}
impl vstd::std_specs::iter::IteratorSpecImpl for RecordsIter {
    open spec fn obeys_prophetic_iter_laws(&self) -> bool { true }
    open spec fn remaining(&self) -> Seq<RecordsItem> { self.rest() }
    open spec fn will_return_none(&self) -> bool { true }
    open spec fn decrease(&self) -> Option<nat> { Some(self.rest().len()) }
    open spec fn peek(&self, i: int) -> Option<RecordsItem> { if 0 <= i < self.rest().len() { Some(self.rest()[i]) } else { None } }
}

impl RecordsTbl {
    /// ReadableTable::iter. Size assumption: the number of rows fits `usize` (redb counts rows in u64).
    #[verifier::external_body]
    pub fn iter(&self) -> (r: std::result::Result<RecordsIter, StorageError>)
        ensures r is Ok ==> rec_items_list_map(r->Ok_0.rest(), self@) && r->Ok_0.rest().len() <= usize::MAX,
    { unimplemented!() }
}

impl LatestTbl {
    /// ReadableTableMetadata::is_empty
    #[verifier::external_body]
    pub fn is_empty(&self) -> (r: std::result::Result<bool, StorageError>)
        ensures r is Ok ==> (r->Ok_0 <==> self@ =~= Map::<LatestKey, LatestVal>::empty())
    { unimplemented!() }
}

// ---- v1 namespaces table iteration (migration 002): every row exactly once ----
#[verifier::external_body]
pub struct SecretValGuard { _p: u8 }
impl SecretValGuard {
    pub uninterp spec fn view(&self) -> Seq<u8>;
    #[verifier::external_body]
    pub fn value(&self) -> (r: &[u8; 32]) ensures r@ == self@ { unimplemented!() }
}
#[verifier::external_body]
pub struct NsKeyGuard { _p: u8 }
impl NsKeyGuard {
    pub uninterp spec fn view(&self) -> Seq<u8>;
}
pub type NsV1Item = std::result::Result<(NsKeyGuard, SecretValGuard), StorageError>;
/// `s` lists the keys of the v1 table, each exactly once
pub open spec fn v1_listing(s: Seq<Seq<u8>>, m: Map<Seq<u8>, Seq<u8>>) -> bool {
    &&& (forall|i: int, j: int| 0 <= i < j < s.len() ==> #[trigger] s[i] != #[trigger] s[j])
    &&& (forall|i: int| 0 <= i < s.len() ==> #[trigger] m.contains_key(s[i]))
    &&& (forall|k: Seq<u8>| m.contains_key(k) ==> exists|i: int| 0 <= i < s.len() && #[trigger] s[i] == k)
}
/// item i is the row of key s[i] or a storage error
pub open spec fn v1_items_of(items: Seq<NsV1Item>, s: Seq<Seq<u8>>, m: Map<Seq<u8>, Seq<u8>>) -> bool {
    &&& items.len() == s.len()
    &&& (forall|i: int| 0 <= i < items.len() && (#[trigger] items[i]) is Ok ==> items[i]->Ok_0.0@ == s[i] && items[i]->Ok_0.1@ == m[s[i]])
}
#[verifier::external_body]
pub struct NsV1Iter { _p: u8 }
impl NsV1Iter {
    pub uninterp spec fn rest(&self) -> Seq<NsV1Item>;
}
impl Iterator for NsV1Iter {
    type Item = NsV1Item;
    #[verifier::external_body]
    fn next(&mut self) -> (r: Option<NsV1Item>) { unimplemented!() }
}
impl vstd::std_specs::iter::IteratorSpecImpl for NsV1Iter {
    open spec fn obeys_prophetic_iter_laws(&self) -> bool { true }
    open spec fn remaining(&self) -> Seq<NsV1Item> { self.rest() }
    open spec fn will_return_none(&self) -> bool { true }
    open spec fn decrease(&self) -> Option<nat> { Some(self.rest().len()) }
    open spec fn peek(&self, i: int) -> Option<NsV1Item> { if 0 <= i < self.rest().len() { Some(self.rest()[i]) } else { None } }
}
impl NamespacesV1Tbl {
    /// ReadableTable::iter. Size assumption as for the records table.
    #[verifier::external_body]
    pub fn iter(&self) -> (r: std::result::Result<NsV1Iter, StorageError>)
        ensures r is Ok ==> r->Ok_0.rest().len() <= usize::MAX
            && (exists|s: Seq<Seq<u8>>| v1_listing(s, self@) && #[trigger] v1_items_of(r->Ok_0.rest(), s, self@)),
    { unimplemented!() }
}

// ---- capability shells used by migration 002: the contracts proved on the real text in U-cap-merge (cap.id.*, cap.raw.*), restricted to
// write capabilities; proved from them by //@shellcheck in U-cap-merge ----
#[verifier::external_body]
pub struct NamespaceSecret { _p: u8 }
impl NamespaceSecret {
    pub uninterp spec fn spec_id(&self) -> NamespaceId;
    pub uninterp spec fn spec_to_bytes(&self) -> Seq<u8>;
    pub uninterp spec fn spec_from_bytes(b: Seq<u8>) -> NamespaceSecret;
    /// A-crypto-2 (b), as in prelude/cap_shells.rs
    #[verifier::external_body]
    pub fn from_bytes(bytes: &[u8; 32]) -> (r: NamespaceSecret)
        ensures r == NamespaceSecret::spec_from_bytes(bytes@), r.spec_to_bytes() == bytes@
    { unimplemented!() }
}
pub enum Capability { Write(NamespaceSecret), Read(NamespaceId) }
impl Capability {
    #[verifier::external_body]
    pub fn id(&self) -> (r: NamespaceId)
        ensures *self is Write ==> r == self->Write_0.spec_id()
    { unimplemented!() }
    #[verifier::external_body]
    pub fn raw(&self) -> (r: (u8, [u8; 32]))
        ensures *self is Write ==> r.0 == 1 && r.1@ == self->Write_0.spec_to_bytes()
    { unimplemented!() }
}
