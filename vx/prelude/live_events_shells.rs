// ================= trusted prelude: shells used by `on_sync_report`, `on_replica_event`, `start_download` (src/engine/live.rs) (A-live-io, part 3) =================

/// `AuthorHeads::decode` (src/heads.rs; its real text is the subject of the heads units): a partial function of the bytes
uninterp spec fn heads_decode(bytes: Seq<u8>) -> Option<AuthorHeads>;
impl AuthorHeads {
    #[verifier::external_body]
    fn decode(bytes: &[u8]) -> (r: Result<AuthorHeads>)
        ensures
            r is Ok <==> heads_decode(bytes@) is Some,
            r is Ok ==> r->Ok_0 == heads_decode(bytes@)->Some_0,
    { unimplemented!() }
}

/// `SyncHandle::has_news_for_us`: asks the store thread (Store::has_news_for_us, units U-heads*). `&mut self` only so
/// that the ghost call log can advance (see prelude/live_start_shells.rs); records the question and whether the
/// answer was `Ok(Some(_))`.
impl SyncHandle {
    #[verifier::external_body]
    async fn has_news_for_us(&mut self, namespace: NamespaceId, heads: AuthorHeads) -> (r: Result<Option<std::num::NonZeroU64>>)
        ensures final(self).calls() == old(self).calls().push(SyncCall::HasNewsForUs(namespace, heads, r is Ok && r->Ok_0 is Some))
    { unimplemented!() }
}

/// `GossipState::broadcast`: hands one message for the document's swarm to the gossip layer
impl GossipState {
    #[verifier::external_body]
    async fn broadcast(&mut self, namespace: &NamespaceId, message: Bytes) -> (unit: ())
        ensures final(self).sent() == old(self).sent().push(GossipMsg::Swarm(*namespace, message@))
    { unimplemented!() }
}

impl From<KeyParsingError> for AnyhowError {
    #[verifier::external_body]
    fn from(e: KeyParsingError) -> AnyhowError { unimplemented!() }
}

/// `SignedEntry::content_hash`: a function of the entry
impl SignedEntry {
    uninterp spec fn spec_content_hash(&self) -> Hash;
    #[verifier::external_body]
    fn content_hash(&self) -> (r: Hash) ensures r == self.spec_content_hash() { unimplemented!() }
}

/// `Hash` as a `HashSet` key: `Hash`/`Eq` agree and are deterministic (blake3 hash = 32 bytes, derived impls) - needed by
/// vstd's `HashSet` specifications (`missing_hashes`)
pub mod live_hash_key_axiom {
    use super::*;
    #[verifier::external_body]
    pub broadcast proof fn axiom_hash_key_model()
        ensures #[trigger] vstd::std_specs::hash::obeys_key_model::<Hash>()
    {}
}
broadcast use live_hash_key_axiom::axiom_hash_key_model;

/// `QueuedHashes` (live.rs; `HashMap::entry` API inside, not extractable): ghost view = the queued (hash, document) pairs
impl QueuedHashes {
    spec fn has_hash(&self, h: Hash) -> bool { exists|n: NamespaceId| self.queued().contains((h, n)) }
    #[verifier::external_body]
    fn contains_hash(&self, hash: &Hash) -> (r: bool) ensures r == self.has_hash(*hash) { unimplemented!() }
    #[verifier::external_body]
    fn insert(&mut self, hash: Hash, namespace: NamespaceId)
        ensures final(self).queued() =~= old(self).queued().insert((hash, namespace))
    { unimplemented!() }
}

// ---- `start_download`: blob store, provider registry, downloader ----

/// `iroh_blobs::api::Store::blobs().status(hash)`: ghost `blob_complete(h)` = "the store answers Ok(Complete) for h"
/// (a function of the blob store's state, which `start_download` does not change)
enum BlobStatus { NotFound, Partial { size: Option<u64> }, Complete { size: u64 } }
#[verifier::external_body]
struct BlobsRpcError { _p: u8 }
#[verifier::external_body]
struct Blobs { _p: u8 }
impl Store {
    uninterp spec fn blob_complete(&self, h: Hash) -> bool;
    #[verifier::external_body]
    fn blobs(&self) -> (r: &Blobs) ensures forall|h: Hash| #[trigger] r.blob_complete(h) == self.blob_complete(h) { unimplemented!() }
}
impl Blobs {
    uninterp spec fn blob_complete(&self, h: Hash) -> bool;
    #[verifier::external_body]
    async fn status(&self, hash: Hash) -> (r: std::result::Result<BlobStatus, BlobsRpcError>)
        ensures (r is Ok && r->Ok_0 is Complete) <==> self.blob_complete(hash)
    { unimplemented!() }
}

/// `self.hash_providers.0.lock().expect("poisoned").entry(hash).or_default().insert(node)`: registers `node` as a
/// provider of `hash` in the shared registry. Inherent methods named like the std ones (Mutex / HashMap entry API /
/// HashSet); the registry's contents are not modelled (they only influence WHERE the downloader fetches from).
#[verifier::external_body]
struct ProvidersLockResult { _p: u8 }
#[verifier::external_body]
struct ProvidersGuard { _p: u8 }
#[verifier::external_body]
struct ProvidersEntry { _p: u8 }
#[verifier::external_body]
struct ProvidersNodeSet { _p: u8 }
impl ProvidersCell {
    #[verifier::external_body]
    fn lock(&self) -> ProvidersLockResult { unimplemented!() }
}
impl ProvidersLockResult {
    #[verifier::external_body]
    fn expect(self, msg: &str) -> ProvidersGuard { unimplemented!() }
}
impl ProvidersGuard {
    #[verifier::external_body]
    fn entry(self, key: Hash) -> ProvidersEntry { unimplemented!() }
}
impl ProvidersEntry {
    #[verifier::external_body]
    fn or_default(self) -> ProvidersNodeSet { unimplemented!() }
}
impl ProvidersNodeSet {
    #[verifier::external_body]
    fn insert(self, node: PublicKey) -> bool { unimplemented!() }
}
impl Clone for ProviderNodes {
    #[verifier::external_body]
    fn clone(&self) -> ProviderNodes { unimplemented!() }
}

/// downloader: `download_with_opts(req)` issues one download request. `&mut self` only so that the ghost request
/// log can advance (real: `&self`, channel send).
#[verifier::external_body]
struct HashAndFormat { _p: u8 }
impl HashAndFormat {
    uninterp spec fn spec_hash(&self) -> Hash;
    #[verifier::external_body]
    fn raw(hash: Hash) -> (r: HashAndFormat) ensures r.spec_hash() == hash { unimplemented!() }
}
enum SplitStrategy { None, Split }
#[verifier::external_body]
struct DownloadRequest { _p: u8 }
impl DownloadRequest {
    uninterp spec fn spec_hash(&self) -> Hash;
    #[verifier::external_body]
    fn new(request: HashAndFormat, providers: ProviderNodes, strategy: SplitStrategy) -> (r: DownloadRequest)
        ensures r.spec_hash() == request.spec_hash()
    { unimplemented!() }
}
#[verifier::external_body]
struct DownloadError { _p: u8 }
/// the eventual outcome of one download (arrives later, inside the spawned task)
#[verifier::external_body]
async fn download_outcome() -> std::result::Result<(), DownloadError> { unimplemented!() }
impl Downloader {
    uninterp spec fn requests(&self) -> Seq<Hash>;
    #[verifier::external_body]
    fn download_with_opts(&mut self, req: DownloadRequest) -> (r: impl std::future::Future<Output = std::result::Result<(), DownloadError>>)
        ensures final(self).requests() == old(self).requests().push(req.spec_hash())
    { download_outcome() }
}
