// ================= trusted prelude (codec connect unit): iroh::Endpoint / EndpointAddr for the dialling side =================
// (included after prelude/codec_conn.rs)
/// iroh::EndpointAddr: the peer's id plus opaque addressing information
#[verifier::external_body] pub struct AddrInfoShell { _p: u8 }
pub struct EndpointAddr { pub id: PublicKey, pub addrs: AddrInfoShell }
#[verifier::external_body] pub struct DialError { _p: u8 }
impl From<DialError> for AnyhowError { #[verifier::external_body] fn from(e: DialError) -> AnyhowError { unimplemented!() } }
#[verifier::external_body] pub struct Endpoint { _p: u8 }
impl Endpoint {
    /// iroh::Endpoint::connect: may fail; success is the `connect_ok` field of the network prophecy
    #[verifier::external_body]
    pub async fn connect<A>(&self, addr: EndpointAddr, alpn: A) -> (r: std::result::Result<ConnectionShell, DialError>)
        ensures r is Ok <==> net_fate().connect_ok
    { unimplemented!() }
}
/// crate::ALPN (`&'static [u8]` in src/net.rs; a reference-typed const is not accepted by Verus): the protocol id bytes "/iroh-sync/1";
/// its value plays no role in any obligation
pub const ALPN: [u8; 12] = [47, 105, 114, 111, 104, 45, 115, 121, 110, 99, 47, 49];
