// ================= trusted prelude (codec connection unit): iroh connection / streams, metrics, tracing spans, clock =================
// (included after AcceptError, Message, SyncCodec, BobState have been extracted)

// ---- std::time::Duration / Instant::elapsed. `later - earlier` on Durations panics on underflow; both operands here
//      are successive `elapsed()` readings of the same monotonic Instant (std guarantees monotonicity), so the
//      subtraction shell has no precondition: TRUSTED assumption A-monotonic-clock. ----
pub assume_specification [ std::time::Instant::elapsed ] (i: &std::time::Instant) -> std::time::Duration;
/// TRUSTED A-monotonic-clock: Duration subtraction never underflows where the codec uses it (later.elapsed() - earlier.elapsed()
/// of one monotonic Instant)
#[verifier::external_body]
pub broadcast proof fn axiom_duration_sub_ok(a: std::time::Duration, b: std::time::Duration)
    ensures #[trigger] <std::time::Duration as vstd::std_specs::ops::SubSpec<std::time::Duration>>::sub_req(a, b)
{}
pub assume_specification [ <std::time::Duration as Clone>::clone ] (a: &std::time::Duration) -> std::time::Duration;
pub use std::time::Duration;

// ---- tracing spans: `error_span!(..)` evaluates to a span; entering it runs the closure and nothing else ----
macro_rules! error_span {
    ($($t:tt)*) => { Span::shell_span() };
}
impl Span {
    #[verifier::external_body]
    pub fn shell_span() -> Span { unimplemented!() }
    /// tracing::Span::in_scope: runs `f` inside the span and returns its result
    #[verifier::external_body]
    pub fn in_scope<F: FnOnce() -> T, T>(&self, f: F) -> (r: T)
        requires f.requires(())
        ensures f.ensures((), r)
    { unimplemented!() }
}
impl Clone for Span {
    #[verifier::external_body]
    fn clone(&self) -> Span { unimplemented!() }
}
/// tracing::Instrument::instrument: the wrapped future polls the inner one inside the span and resolves to the same
/// value; modelled as the identity on the future
pub trait Instrument: Sized {
    fn instrument(self, span: Span) -> (r: Self)
        ensures r == self;
}
impl<F: Future> Instrument for F {
    fn instrument(self, span: Span) -> (r: Self) { self }
}

// ---- iroh_metrics counters ----
pub struct Counter { _p: u8 }
impl Counter {
    #[verifier::external_body]
    pub fn inc(&self) -> u64 { unimplemented!() }
}
pub struct Metrics {
    pub sync_via_accept_success: Counter,
    pub sync_via_accept_failure: Counter,
    pub sync_via_connect_success: Counter,
    pub sync_via_connect_failure: Counter,
}

// ---- iroh::endpoint::Connection and its streams: every operation may fail, none panics ----
#[verifier::external_body] pub struct ConnectionError { _p: u8 }
#[verifier::external_body] pub struct ClosedStream { _p: u8 }
#[verifier::external_body] pub struct StoppedError { _p: u8 }
#[verifier::external_body] pub struct ReadToEndError { _p: u8 }
impl From<ConnectionError> for AnyhowError { #[verifier::external_body] fn from(e: ConnectionError) -> AnyhowError { unimplemented!() } }
impl From<ClosedStream> for AnyhowError { #[verifier::external_body] fn from(e: ClosedStream) -> AnyhowError { unimplemented!() } }
impl From<StoppedError> for AnyhowError { #[verifier::external_body] fn from(e: StoppedError) -> AnyhowError { unimplemented!() } }
impl From<ReadToEndError> for AnyhowError { #[verifier::external_body] fn from(e: ReadToEndError) -> AnyhowError { unimplemented!() } }

// ---- prophecy of the network's behaviour during ONE execution of a connection wrapper: whether each network step
//      (dial, open the stream pair, finish, stopped, read_to_end) will succeed. Nothing is assumed about it. Every step's
//      shell reads its own field, so the model is meaningful for functions that perform each step at most once
//      (connect_and_sync, handle_connection: by inspection of the extracted text; the vacuity twins guard against
//      contradictory use). ----
pub struct NetFate { pub connect_ok: bool, pub open_ok: bool, pub finish_ok: bool, pub stopped_ok: bool, pub read_ok: bool }
pub uninterp spec fn net_fate() -> NetFate;
pub open spec fn dial_ok(f: NetFate) -> bool { f.connect_ok && f.open_ok }
pub open spec fn close_ok(f: NetFate) -> bool { f.finish_ok && f.stopped_ok && f.read_ok }

#[verifier::external_body] pub struct SendStream { _p: u8 }
#[verifier::external_body] pub struct RecvStream { _p: u8 }
impl AsyncWrite for SendStream {}
impl AsyncRead for RecvStream {}
// explicit so that Verus can see the (auto-trait) bound `Unpin` on the concrete stream types
impl Unpin for SendStream {}
impl Unpin for RecvStream {}
impl SendStream {
    #[verifier::external_body]
    pub fn finish(&mut self) -> (r: std::result::Result<(), ClosedStream>)
        ensures r is Ok <==> net_fate().finish_ok
    { unimplemented!() }
    #[verifier::external_body]
    pub async fn stopped(&self) -> (r: std::result::Result<Option<u64>, StoppedError>)
        ensures r is Ok <==> net_fate().stopped_ok
    { unimplemented!() }
}
impl RecvStream {
    #[verifier::external_body]
    pub async fn read_to_end(&mut self, size_limit: usize) -> (r: std::result::Result<Vec<u8>, ReadToEndError>)
        ensures r is Ok <==> net_fate().read_ok
    { unimplemented!() }
}
#[verifier::external_body]
pub struct ConnectionShell { _p: u8 }
impl ConnectionShell {
    pub uninterp spec fn peer(&self) -> PublicKey;
    #[verifier::external_body]
    pub fn remote_id(&self) -> (r: PublicKey) ensures r == self.peer() { unimplemented!() }
    #[verifier::external_body]
    pub async fn accept_bi(&self) -> std::result::Result<(SendStream, RecvStream), ConnectionError> { unimplemented!() }
    #[verifier::external_body]
    pub async fn open_bi(&self) -> (r: std::result::Result<(SendStream, RecvStream), ConnectionError>)
        ensures r is Ok <==> net_fate().open_ok
    { unimplemented!() }
}
pub mod iroh {
    pub mod endpoint {
        pub type Connection = super::super::ConnectionShell;
    }
}
impl Clone for SyncOutcome {
    #[verifier::external_body]
    fn clone(&self) -> (r: Self) ensures r == *self { unimplemented!() }
}
