// ---- trusted shell (mig): std::collections::HashMap as used by migration 001 (included INSIDE the module that holds the
// extracted function, so that the name shadows nothing else). The shell type is generic (the code names
// `HashMap<([u8; 32], [u8; 32]), (u64, Vec<u8>)>`), its operations exist for that instantiation only and are specified on the
// abstract view `Map<LatestKey, LatestVal>` (a (namespace, author) pair of byte arrays is its pair of byte strings; a
// (timestamp, key bytes) value is `LatestVal`). Operations (A-std HashMap):
//   new: empty;  len: number of keys;  into_iter: every (key, value) pair exactly once, in unspecified order;
//   entry(k).and_modify(f).or_insert_with(g): if k is present its value is updated in place by f, else g() is inserted;
//   nothing else changes. The map content after the chain is the prophecy `Entry::fin` (the `&mut` of `or_insert_with` is
//   resolved by Verus when it is dropped). ----
pub type HeadKey = ([u8; 32], [u8; 32]);
pub type HeadVal = (u64, Vec<u8>);
pub open spec fn head_key_view(k: HeadKey) -> LatestKey { LatestKey { ns: k.0@, author: k.1@ } }
pub open spec fn head_val_view(v: HeadVal) -> LatestVal { LatestVal { ts: v.0, key: v.1@ } }

#[verifier::external_body]
#[verifier::reject_recursive_types(K)]
#[verifier::reject_recursive_types(V)]
pub struct HashMap<K, V> { _k: core::marker::PhantomData<(K, V)> }
#[verifier::external_body]
#[verifier::reject_recursive_types(K)]
#[verifier::reject_recursive_types(V)]
pub struct Entry<'a, K, V> { _k: core::marker::PhantomData<&'a mut (K, V)> }

impl HashMap<HeadKey, HeadVal> {
    pub uninterp spec fn view(&self) -> Map<LatestKey, LatestVal>;

    #[verifier::external_body]
    pub fn new() -> (r: Self) ensures r@ == Map::<LatestKey, LatestVal>::empty() { unimplemented!() }

    #[verifier::external_body]
    pub fn entry(&mut self, k: HeadKey) -> (e: Entry<'_, HeadKey, HeadVal>)
        ensures
            e.key() == head_key_view(k),
            e.before() == old(self)@,
            e.slot() == (if old(self)@.contains_key(head_key_view(k)) { Some(old(self)@[head_key_view(k)]) } else { None::<LatestVal> }),
            final(self)@ == e.fin(),
    { unimplemented!() }

    #[verifier::external_body]
    pub fn len(&self) -> (r: usize) ensures r == self@.dom().len() { unimplemented!() }

    /// HashMap::insert: the key maps to the new value, whatever it held before (the old value is returned)
    #[verifier::external_body]
    pub fn insert(&mut self, k: HeadKey, v: HeadVal) -> (r: Option<HeadVal>)
        ensures
            final(self)@ == old(self)@.insert(head_key_view(k), head_val_view(v)),
            r is Some <==> old(self)@.contains_key(head_key_view(k)),
            r is Some ==> head_val_view(r->Some_0) == old(self)@[head_key_view(k)],
    { unimplemented!() }

    /// HashMap::get
    #[verifier::external_body]
    pub fn get(&self, k: &HeadKey) -> (r: Option<&HeadVal>)
        ensures
            r is Some <==> self@.contains_key(head_key_view(*k)),
            r is Some ==> head_val_view(*r->Some_0) == self@[head_key_view(*k)],
    { unimplemented!() }

    /// HashMap::contains_key
    #[verifier::external_body]
    pub fn contains_key(&self, k: &HeadKey) -> (r: bool) ensures r == self@.contains_key(head_key_view(*k)) { unimplemented!() }
}

impl<'a> Entry<'a, HeadKey, HeadVal> {
    pub uninterp spec fn key(&self) -> LatestKey;
    /// the map when `entry` was called
    pub uninterp spec fn before(&self) -> Map<LatestKey, LatestVal>;
    /// current value of the slot (None: vacant)
    pub uninterp spec fn slot(&self) -> Option<LatestVal>;
    /// prophecy: the map when the entry chain is finished
    pub uninterp spec fn fin(&self) -> Map<LatestKey, LatestVal>;

    #[verifier::external_body]
    pub fn and_modify<F: FnOnce(&mut HeadVal)>(self, f: F) -> (r: Self)
        requires forall|m: &mut HeadVal| f.requires((m,)),
        ensures
            r.key() == self.key(), r.before() == self.before(), r.fin() == self.fin(),
            self.slot() is None ==> r.slot() is None,
            self.slot() is Some ==> exists|m: &mut HeadVal| head_val_view(*m) == self.slot()->Some_0 && #[trigger] f.ensures((m,), ()) && r.slot() == Some(head_val_view(*final(m))),
    { unimplemented!() }

    #[verifier::external_body]
    pub fn or_insert_with<F: FnOnce() -> HeadVal>(self, f: F) -> (r: &'a mut HeadVal)
        requires f.requires(()),
        ensures
            self.slot() is Some ==> head_val_view(*r) == self.slot()->Some_0,
            self.slot() is None ==> f.ensures((), *r),
            self.fin() == self.before().insert(self.key(), head_val_view(*final(r))),
    { unimplemented!() }
}

#[verifier::external_body]
#[verifier::reject_recursive_types(K)]
#[verifier::reject_recursive_types(V)]
pub struct HashMapIntoIter<K, V> { _k: core::marker::PhantomData<(K, V)> }
impl<K, V> HashMapIntoIter<K, V> {
    pub uninterp spec fn rest(&self) -> Seq<(K, V)>;
}
impl<K, V> Iterator for HashMapIntoIter<K, V> {
    type Item = (K, V);
    #[verifier::external_body]
    fn next(&mut self) -> (r: Option<(K, V)>) { unimplemented!() }
}
impl<K, V> vstd::std_specs::iter::IteratorSpecImpl for HashMapIntoIter<K, V> {
    open spec fn obeys_prophetic_iter_laws(&self) -> bool { true }
    open spec fn remaining(&self) -> Seq<(K, V)> { self.rest() }
    open spec fn will_return_none(&self) -> bool { true }
    open spec fn decrease(&self) -> Option<nat> { Some(self.rest().len()) }
    open spec fn peek(&self, i: int) -> Option<(K, V)> { if 0 <= i < self.rest().len() { Some(self.rest()[i]) } else { None } }
}

/// the pairs of `items` are exactly the entries of `m`, each key once
pub open spec fn head_items_of(items: Seq<(HeadKey, HeadVal)>, m: Map<LatestKey, LatestVal>) -> bool {
    &&& (forall|i: int, j: int| 0 <= i < j < items.len() ==> head_key_view((#[trigger] items[i]).0) != head_key_view((#[trigger] items[j]).0))
    &&& (forall|i: int| 0 <= i < items.len() ==> #[trigger] m.contains_key(head_key_view(items[i].0)) && m[head_key_view(items[i].0)] == head_val_view(items[i].1))
    &&& (forall|k: LatestKey| m.contains_key(k) ==> exists|i: int| 0 <= i < items.len() && head_key_view((#[trigger] items[i]).0) == k)
}

impl IntoIterator for HashMap<HeadKey, HeadVal> {
    type Item = (HeadKey, HeadVal);
    type IntoIter = HashMapIntoIter<HeadKey, HeadVal>;
    #[verifier::external_body]
    fn into_iter(self) -> (r: HashMapIntoIter<HeadKey, HeadVal>)
        ensures head_items_of(r.rest(), self@)
    { unimplemented!() }
}
