// ---- trusted shell (mig): std::collections::HashMap as used by migration 001 (included INSIDE the module that holds the
// extracted function so that the name shadows nothing else). Only what the function calls; the contents are not
// specified (the rebuild loop of migration 001 is outside the verified contract, see U-mig-skip). ----
#[verifier::external_body]
#[verifier::reject_recursive_types(K)]
#[verifier::reject_recursive_types(V)]
pub struct HashMap<K, V> { _k: core::marker::PhantomData<(K, V)> }
#[verifier::external_body]
#[verifier::reject_recursive_types(K)]
#[verifier::reject_recursive_types(V)]
pub struct Entry<'a, K, V> { _k: core::marker::PhantomData<&'a mut (K, V)> }
impl<K, V> HashMap<K, V> {
    #[verifier::external_body]
    pub fn new() -> Self { unimplemented!() }
    #[verifier::external_body]
    pub fn entry(&mut self, k: K) -> Entry<'_, K, V> { unimplemented!() }
    #[verifier::external_body]
    pub fn len(&self) -> usize { unimplemented!() }
}
impl<'a, K, V> Entry<'a, K, V> {
    #[verifier::external_body]
    pub fn and_modify<F: FnOnce(&mut V)>(self, f: F) -> Self { unimplemented!() }
    #[verifier::external_body]
    pub fn or_insert_with<F: FnOnce() -> V>(self, f: F) -> &'a mut V { unimplemented!() }
}
#[verifier::external_body]
#[verifier::reject_recursive_types(K)]
#[verifier::reject_recursive_types(V)]
pub struct HashMapIntoIter<K, V> { _k: core::marker::PhantomData<(K, V)> }
impl<K, V> HashMapIntoIter<K, V> {
    pub uninterp spec fn rest(&self) -> Seq<(K, V)>;
}
impl<K, V> Iterator for HashMapIntoIter<K, V> {
    type Item = (K, V);
    #[verifier::external_body]
    fn next(&mut self) -> (r: Option<(K, V)>) { unimplemented!() }
}
impl<K, V> vstd::std_specs::iter::IteratorSpecImpl for HashMapIntoIter<K, V> {
    open spec fn obeys_prophetic_iter_laws(&self) -> bool { true }
    open spec fn remaining(&self) -> Seq<(K, V)> { self.rest() }
    open spec fn will_return_none(&self) -> bool { true }
    open spec fn decrease(&self) -> Option<nat> { Some(self.rest().len()) }
    open spec fn peek(&self, i: int) -> Option<(K, V)> { if 0 <= i < self.rest().len() { Some(self.rest()[i]) } else { None } }
}
impl<K, V> IntoIterator for HashMap<K, V> {
    type Item = (K, V);
    type IntoIter = HashMapIntoIter<K, V>;
    #[verifier::external_body]
    fn into_iter(self) -> HashMapIntoIter<K, V> { unimplemented!() }
}
