// ================= trusted prelude: assumed specifications of std functions vstd does not cover (A-std) =================
pub assume_specification<T, P> [ std::option::Option::<T>::filter ] (o: std::option::Option<T>, p: P) -> (r: std::option::Option<T>)
    where P: std::ops::FnOnce(&T,) -> bool + std::marker::Destruct, T: std::marker::Destruct,
    requires o is Some ==> p.requires((&o->Some_0,)),
    ensures
        o is None ==> r is None,
        o is Some ==> ((r == o && p.ensures((&o->Some_0,), true)) || (r is None && p.ensures((&o->Some_0,), false))),
;

pub assume_specification<T> [ <[T]>::reverse ] (s: &mut [T])
    ensures final(s)@ == old(s)@.reverse();

pub assume_specification<T> [ <[T] as AsRef<[T]>>::as_ref ] (s: &[T]) -> (r: &[T])
    ensures r@ == s@;

pub assume_specification<T: Clone> [ <[T]>::to_vec ] (s: &[T]) -> (r: Vec<T>)
    ensures r@ == s@;
