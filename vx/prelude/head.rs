#![allow(unused_imports, dead_code, unused_variables, unused_mut, unused_assignments, unreachable_code)]
use vstd::prelude::*;
use std::time::{Instant, SystemTime};
use vstd::std_specs::iter::IteratorSpec;

verus! {

// ================= trusted prelude: common shells =================
#[verifier::external_body]
#[verifier::external_type_specification]
pub struct ExSystemTime(std::time::SystemTime);

#[verifier::external_body]
#[verifier::external_type_specification]
pub struct ExInstant(std::time::Instant);

pub assume_specification [ std::time::SystemTime::now ]() -> std::time::SystemTime;
pub assume_specification [ std::time::Instant::now ]() -> std::time::Instant;

/// anyhow::Error: opaque
#[verifier::external_body]
pub struct AnyhowError { _p: u8 }
impl AnyhowError {
    #[verifier::external_body]
    pub fn msg() -> AnyhowError { unimplemented!() }
}
pub type Result<T, E = AnyhowError> = std::result::Result<T, E>;
/// so that `anyhow::Result<T>` / `anyhow::Error` in extracted signatures resolve to the shells above
pub mod anyhow {
    pub type Result<T, E = super::AnyhowError> = std::result::Result<T, E>;
    pub type Error = super::AnyhowError;
}

/// std Result::and_then (A-std): the closure runs on the Ok value; an Err passes through
pub assume_specification<T, E, U, F: FnOnce(T) -> std::result::Result<U, E>> [std::result::Result::<T, E>::and_then::<U, F>] (x: std::result::Result<T, E>, op: F) -> (r: std::result::Result<U, E>)
    requires x is Ok ==> op.requires((x->Ok_0,)),
    ensures
        x is Ok ==> op.ensures((x->Ok_0,), r),
        x is Err ==> r is Err;

/// std Result::or (A-std)
pub assume_specification<T, E, F> [ std::result::Result::<T, E>::or::<F> ] (a: std::result::Result<T, E>, b: std::result::Result<T, F>) -> (r: std::result::Result<T, F>)
    where T: std::marker::Destruct, E: std::marker::Destruct, F: std::marker::Destruct,
    ensures
        a is Ok ==> r == std::result::Result::<T, F>::Ok(a->Ok_0),
        a is Err ==> r == b,
;
