// ================= trusted prelude (codec units): tokio_util::codec::{FramedRead, FramedWrite} over SyncCodec =================
// (included after `Message` and `SyncCodec` have been extracted)
//
// A remote peer is an arbitrary, unknown, possibly infinite sequence of frames: `stream_frame(r, i)` is what the i-th
// poll of a FramedRead built on the byte stream `r` yields (None = end of stream, Some(Err) = decode / io error,
// Some(Ok(m)) = a decoded message). Nothing at all is assumed about this sequence: out-of-order, duplicated or
// missing handshake, abort, garbage, early close are all instances. (That the SyncCodec decoder produces such a
// frame sequence without panicking is the subject of unit U-codec-frame.)
pub type Frame = Option<Result<Message, AnyhowError>>;
pub uninterp spec fn stream_frame<R>(r: R, i: nat) -> Frame;

#[verifier::external_body]
#[verifier::reject_recursive_types(R)]
pub struct FramedRead<R> { _p: std::marker::PhantomData<R> }
#[verifier::external_body]
#[verifier::reject_recursive_types(W)]
pub struct FramedWrite<W> { _p: std::marker::PhantomData<W> }

impl<R> FramedRead<R> {
    /// the frame the i-th call of `next` yields
    pub uninterp spec fn frames(&self) -> spec_fn(nat) -> Frame;
    /// number of `next` calls so far
    pub uninterp spec fn pos(&self) -> nat;

    #[verifier::external_body]
    pub fn new(r: R, c: SyncCodec) -> (fr: Self)
        ensures fr.pos() == 0, forall|i: nat| (#[trigger] (fr.frames())(i)) == stream_frame(r, i)
    { unimplemented!() }

    /// tokio_stream::StreamExt::next on the framed reader
    #[verifier::external_body]
    pub async fn next(&mut self) -> (f: Frame)
        ensures
            f == (old(self).frames())(old(self).pos()),
            final(self).pos() == old(self).pos() + 1,
            final(self).frames() == old(self).frames(),
    { unimplemented!() }
}

impl<W> FramedWrite<W> {
    /// messages handed to `send` that were reported as sent
    pub uninterp spec fn sent(&self) -> Seq<Message>;

    #[verifier::external_body]
    pub fn new(w: W, c: SyncCodec) -> (fw: Self)
        ensures fw.sent() == Seq::<Message>::empty()
    { unimplemented!() }

    /// n0_future::SinkExt::send on the framed writer: may fail (peer gone); on success the message is appended
    #[verifier::external_body]
    pub async fn send(&mut self, m: Message) -> (r: Result<(), AnyhowError>)
        ensures
            r is Ok ==> final(self).sent() == old(self).sent().push(m),
            r is Err ==> final(self).sent() == old(self).sent(),
    { unimplemented!() }
}
