// ================= trusted prelude (codec units): tokio_util::codec::{FramedRead, FramedWrite} over SyncCodec =================
// (included after `Message` and `SyncCodec` have been extracted)
//
// A remote peer is an arbitrary, unknown, possibly infinite sequence of frames: `stream_frame(r, i)` is what the i-th
// poll of a FramedRead built on the byte stream `r` yields (None = end of stream, Some(Err) = decode / io error,
// Some(Ok(m)) = a decoded message). Nothing at all is assumed about this sequence: out-of-order, duplicated or
// missing handshake, abort, garbage, early close are all instances. (That the SyncCodec decoder produces such a
// frame sequence without panicking is the subject of unit U-codec-frame.)
pub type Frame = Option<Result<Message, AnyhowError>>;
pub uninterp spec fn stream_frame<R>(r: R, i: nat) -> Frame;

#[verifier::external_body]
#[verifier::reject_recursive_types(R)]
pub struct FramedRead<R> { _p: std::marker::PhantomData<R> }
#[verifier::external_body]
#[verifier::reject_recursive_types(W)]
pub struct FramedWrite<W> { _p: std::marker::PhantomData<W> }

impl<R> FramedRead<R> {
    /// the frame the i-th call of `next` yields
    pub uninterp spec fn frames(&self) -> spec_fn(nat) -> Frame;
    /// number of `next` calls so far
    pub uninterp spec fn pos(&self) -> nat;

    #[verifier::external_body]
    pub fn new(r: R, c: SyncCodec) -> (fr: Self)
        ensures fr.pos() == 0, forall|i: nat| (#[trigger] (fr.frames())(i)) == stream_frame(r, i)
    { unimplemented!() }

    /// tokio_stream::StreamExt::next on the framed reader
    #[verifier::external_body]
    pub async fn next(&mut self) -> (f: Frame)
        ensures
            f == (old(self).frames())(old(self).pos()),
            final(self).pos() == old(self).pos() + 1,
            final(self).frames() == old(self).frames(),
    { unimplemented!() }
}

/// `a` is a prefix of `b`
pub open spec fn msgs_prefix(a: Seq<Message>, b: Seq<Message>) -> bool {
    a.len() <= b.len() && forall|i: int| 0 <= i < a.len() ==> a[i] == b[i]
}
/// every message of `s` from index `from` on is a Sync message
pub open spec fn msgs_all_sync(s: Seq<Message>, from: int) -> bool {
    forall|i: int| from <= i < s.len() ==> (#[trigger] s[i]) is Sync
}
impl<W> FramedWrite<W> {
    /// frames that have been written out to the byte stream (flushed), in order
    pub uninterp spec fn sent(&self) -> Seq<Message>;
    /// frames accepted by the sink (encoded into its write buffer) but not flushed yet; they never reach the peer unless a
    /// later `flush`/`send` succeeds (dropping the writer does not flush)
    pub uninterp spec fn buffered(&self) -> Seq<Message>;

    #[verifier::external_body]
    pub fn new(w: W, c: SyncCodec) -> (fw: Self)
        ensures fw.sent() == Seq::<Message>::empty(), fw.buffered() == Seq::<Message>::empty()
    { unimplemented!() }

    /// SinkExt::feed = poll_ready + start_send: the frame is appended to the buffer; nothing is flushed except what
    /// poll_ready decides to write out under backpressure (so earlier buffered frames may move to `sent`, in order)
    #[verifier::external_body]
    pub async fn feed(&mut self, m: Message) -> (r: Result<(), AnyhowError>)
        ensures
            msgs_prefix(old(self).sent(), final(self).sent()),
            r is Ok ==> final(self).sent() + final(self).buffered() =~= (old(self).sent() + old(self).buffered()).push(m),
            r is Ok ==> final(self).buffered().len() >= 1,
    { unimplemented!() }

    /// SinkExt::flush: on success everything buffered has been written out
    #[verifier::external_body]
    pub async fn flush(&mut self) -> (r: Result<(), AnyhowError>)
        ensures
            msgs_prefix(old(self).sent(), final(self).sent()),
            r is Ok ==> final(self).sent() =~= old(self).sent() + old(self).buffered(),
            r is Ok ==> final(self).buffered() =~= Seq::<Message>::empty(),
    { unimplemented!() }

    /// SinkExt::send = feed + flush: may fail (peer gone); on success the frame and everything buffered before it is out
    #[verifier::external_body]
    pub async fn send(&mut self, m: Message) -> (r: Result<(), AnyhowError>)
        ensures
            msgs_prefix(old(self).sent(), final(self).sent()),
            r is Ok ==> final(self).sent() =~= (old(self).sent() + old(self).buffered()).push(m),
            r is Ok ==> final(self).buffered() =~= Seq::<Message>::empty(),
    { unimplemented!() }
}
