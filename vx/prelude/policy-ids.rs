// ================= trusted prelude (policy): equality of author ids (addition to prelude/ids.rs) =================
// src/keys.rs: `#[derive(.., PartialEq, Eq, ..)] pub struct AuthorId([u8; 32])` - the derived `==` compares the
// 32 bytes. Verus attaches no specification to a derived `PartialEq`; this states it.
impl vstd::std_specs::cmp::PartialEqSpecImpl for AuthorId {
    open spec fn obeys_eq_spec() -> bool { true }
    open spec fn eq_spec(&self, other: &AuthorId) -> bool { self.0@ =~= other.0@ }
}
