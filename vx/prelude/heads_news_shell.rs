// ================= AuthorHeads::has_news_for with the contract proved on the real text in unit U-heads (heads.has_news_for.*) =================
impl AuthorHeads {
    #[verifier::external_body]
    fn has_news_for(&self, other: &Self) -> (r: Option<NonZeroU64>)
        ensures
            nz_is(r, news_authors(self.heads@, other.heads@).len()),
            r is None <==> (forall|a: AuthorId| self.heads@.contains_key(a) ==> other.heads@.contains_key(a) && self.heads@[a] <= other.heads@[a]),
    { unimplemented!() }
}
