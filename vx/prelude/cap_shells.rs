// ================= trusted prelude (cap): NamespaceSecret, CapabilityKind <-> u8, NamespaceId::from (A-crypto-2) =================
// NamespaceSecret (src/keys.rs) wraps an ed25519 signing key. It is opaque here: the id derived from it and its
// 32-byte serialisation are uninterpreted functions of the secret. Assumed (A-crypto-2): to_bytes / from_bytes are
// mutually inverse on 32-byte strings (both are the identity on the 32-byte ed25519 seed in ed25519-dalek).
// Nothing is assumed about `id` (in particular not that it is injective).

#[verifier::external_body]
pub struct NamespaceSecret { _p: u8 }

impl NamespaceSecret {
    pub uninterp spec fn spec_id(&self) -> NamespaceId;
    pub uninterp spec fn spec_to_bytes(&self) -> Seq<u8>;
    pub uninterp spec fn spec_from_bytes(b: Seq<u8>) -> NamespaceSecret;

    #[verifier::external_body]
    pub fn id(&self) -> (r: NamespaceId)
        ensures r == self.spec_id()
    { unimplemented!() }

    #[verifier::external_body]
    pub fn to_bytes(&self) -> (r: [u8; 32])
        ensures r@ == self.spec_to_bytes(), NamespaceSecret::spec_from_bytes(r@) == *self  // second clause: A-crypto-2 (a)
    { unimplemented!() }

    #[verifier::external_body]
    pub fn from_bytes(bytes: &[u8; 32]) -> (r: NamespaceSecret)
        ensures r == NamespaceSecret::spec_from_bytes(bytes@), r.spec_to_bytes() == bytes@  // second clause: A-crypto-2 (b)
    { unimplemented!() }
}

impl Clone for NamespaceSecret {
    #[verifier::external_body]
    fn clone(&self) -> (r: NamespaceSecret) ensures r == *self { unimplemented!() }
}

/// A-crypto-2 (a): from_bytes(to_bytes(s)) == s, and the serialisation has 32 bytes
#[verifier::external_body]
pub proof fn axiom_secret_bytes_roundtrip(s: NamespaceSecret)
    ensures
        s.spec_to_bytes().len() == 32,
        NamespaceSecret::spec_from_bytes(s.spec_to_bytes()) == s,
{ }

/// A-crypto-2 (b): to_bytes(from_bytes(b)) == b for every 32-byte string
#[verifier::external_body]
pub proof fn axiom_bytes_secret_roundtrip(b: Seq<u8>)
    requires b.len() == 32,
    ensures NamespaceSecret::spec_from_bytes(b).spec_to_bytes() == b,
{ }

/// `impl From<&[u8; 32]> for NamespaceId` (src/keys.rs: `Self(*value)`)
impl From<&[u8; 32]> for NamespaceId {
    fn from(value: &[u8; 32]) -> (r: NamespaceId)
        ensures r.0 == *value
    { NamespaceId(*value) }
}

/// `num_enum::TryFromPrimitiveError<CapabilityKind>`: opaque, convertible into anyhow::Error
#[verifier::external_body]
pub struct TryFromPrimitiveError { _p: u8 }
impl From<TryFromPrimitiveError> for AnyhowError {
    #[verifier::external_body]
    fn from(e: TryFromPrimitiveError) -> AnyhowError { unimplemented!() }
}

/// std::mem::replace (A-std): stores `src` in `dest`, returns the previous value
pub assume_specification<T> [ std::mem::replace ] (dest: &mut T, src: T) -> (r: T)
    ensures *final(dest) == src, r == *old(dest);

/// `==` / `!=` on NamespaceId (derived PartialEq over the 32 bytes in src/keys.rs and in prelude/ids.rs): structural equality
impl vstd::std_specs::cmp::PartialEqSpecImpl for NamespaceId {
    open spec fn obeys_eq_spec() -> bool { true }
    open spec fn eq_spec(&self, other: &NamespaceId) -> bool { *self == *other }
}
impl vstd::std_specs::convert::FromSpecImpl<&[u8; 32]> for NamespaceId {
    open spec fn obeys_from_spec() -> bool { true }
    open spec fn from_spec(v: &[u8; 32]) -> NamespaceId { NamespaceId(*v) }
}
