// ---- RecordsRange::next / all_static (src/store/fs/ranges.rs) for the content-hash iterator (A-redb) ----
impl<'a> RecordsRange<'a> {
    /// Iterator::next of RecordsRange: the next row mapped through into_entry (or a storage error standing in for it)
    #[verifier::external_body]
    pub fn next(&mut self) -> (r: Option<Result<SignedEntry>>)
        requires old(self).wf(),
        ensures
            final(self).wf(), final(self).table() == old(self).table(),
            old(self).ids().len() == 0 ==> r is None && final(self).ids() == old(self).ids(),
            old(self).ids().len() > 0 ==> r == Some(old(self).items()[0]) && final(self).ids() == old(self).ids().skip(1) && final(self).items() == old(self).items().skip(1),
    { unimplemented!() }
}
impl RecordsRange<'static> {
    /// `records.range::<RecordsId>(..)`: every row of the table in ascending order
    #[verifier::external_body]
    pub fn all_static(records: &RecordsTbl) -> (r: Result<RecordsRange<'static>>)
        ensures r is Ok ==> r->Ok_0.table() == records@ && r->Ok_0.wf() && is_full_scan(r->Ok_0.ids(), records@)
    { unimplemented!() }
}
pub open spec fn is_full_scan(rows: Seq<RecId>, m: Map<RecId, RecVal>) -> bool {
    &&& (forall|i: int, j: int| 0 <= i < j < rows.len() ==> rec_lt(#[trigger] rows[i], #[trigger] rows[j]))
    &&& (forall|i: int| 0 <= i < rows.len() ==> m.contains_key(#[trigger] rows[i]))
    &&& (forall|id: RecId| m.contains_key(id) ==> exists|i: int| 0 <= i < rows.len() && #[trigger] rows[i] == id)
}
/// `ReadOnlyTables` of a snapshot: same table views as the transaction that was committed for it
pub struct ReadOnlyTables { pub records: RecordsTbl }
impl Store {
    /// `Store::snapshot_owned`: flushes the current write transaction and opens a read transaction on the result
    #[verifier::external_body]
    pub fn snapshot_owned(&mut self) -> (r: Result<ReadOnlyTables>)
        ensures final(self).tables == old(self).tables, final(self).open_replicas == old(self).open_replicas,
            r is Ok ==> r->Ok_0.records@ == old(self).tables.records@
    { unimplemented!() }
}
