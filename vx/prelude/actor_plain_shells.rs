// ---- shells for the closure-less arms of Actor::on_replica_action (unit U-actor-arms-plain) ----
/// tokio oneshot::Sender<T>; `will_send()` is the prophecy "the value this sender is consumed with" (as in U-actor-reply)
#[verifier::external_body]
#[verifier::reject_recursive_types(T)]
pub struct OneshotSender<T> { _p: core::marker::PhantomData<T> }
impl<T> OneshotSender<T> {
    #[verifier::prophetic]
    pub uninterp spec fn will_send(&self) -> Option<T>;
}
pub mod oneshot { pub type Sender<T> = super::OneshotSender<T>; }
#[verifier::external_body]
pub struct SendReplyError { _p: u8 }
/// `send_reply` (src/actor.rs): contract proved on the real text in U-actor-reply (actor.reply.send_reply-sends-the-value)
#[verifier::external_body]
pub fn send_reply<T>(sender: oneshot::Sender<T>, value: T) -> (r: std::result::Result<(), SendReplyError>)
    ensures sender.will_send() == Some(value)
{ unimplemented!() }

/// one call of a store operation that needs no open document: (document, succeeded)
pub struct PeerCall { pub ns: NamespaceId, pub peer: PeerIdBytes, pub ok: bool }
impl Store {
    /// ghost log of `register_useful_peer` calls
    pub uninterp spec fn peer_calls(&self) -> Seq<PeerCall>;
    /// Store::register_useful_peer (fs.rs; verified in U-peers): fails for an unknown document; does not touch the open set
    #[verifier::external_body]
    pub fn register_useful_peer(&mut self, namespace: NamespaceId, peer: PeerIdBytes) -> (r: Result<()>)
        ensures
            final(self).peer_calls() == old(self).peer_calls().push(PeerCall { ns: namespace, peer: peer, ok: r is Ok }),
            final(self).open_set() == old(self).open_set(),
    { unimplemented!() }
    pub uninterp spec fn spec_policy(&self, ns: NamespaceId) -> Option<DownloadPolicy>;
    pub uninterp spec fn policy_calls(&self) -> Seq<(NamespaceId, DownloadPolicy, bool)>;
    /// Store::set_download_policy (fs.rs; verified in U-policy-store)
    #[verifier::external_body]
    pub fn set_download_policy(&mut self, namespace: &NamespaceId, policy: DownloadPolicy) -> (r: Result<()>)
        ensures
            final(self).policy_calls() == old(self).policy_calls().push((*namespace, policy, r is Ok)),
            final(self).open_set() == old(self).open_set(),
    { unimplemented!() }
    /// Store::get_download_policy (fs.rs; verified in U-policy-store): a read
    #[verifier::external_body]
    pub fn get_download_policy(&mut self, namespace: &NamespaceId) -> (r: Result<DownloadPolicy>)
        ensures store_same(*old(self), *final(self)), r is Ok ==> old(self).spec_policy(*namespace) == Some(r->Ok_0)
    { unimplemented!() }
}
#[verifier::external_body]
pub struct DownloadPolicy { _p: u8 }
#[verifier::external_body]
pub struct AuthorHeads { _p: u8 }
/// std::num::NonZeroU64 (opaque)
#[verifier::external_body]
pub struct NonZeroU64 { _p: u8 }
impl Store {
    /// what `has_news_for_us` answers on the current contents (verified on the real text in U-heads2-store)
    pub uninterp spec fn spec_news(&self, ns: NamespaceId, heads: AuthorHeads) -> Option<NonZeroU64>;
    /// Store::has_news_for_us (fs.rs): a read of the heads table
    #[verifier::external_body]
    pub fn has_news_for_us(&mut self, namespace: NamespaceId, heads: &AuthorHeads) -> (r: Result<Option<NonZeroU64>>)
        ensures store_same(*old(self), *final(self)), r is Ok ==> r->Ok_0 == old(self).spec_news(namespace, *heads)
    { unimplemented!() }
}
