// ================= trusted prelude: postcard on `Vec<(Timestamp, AuthorId)>` (A-postcard-heads) =================
// `postcard::from_bytes::<Vec<(u64, AuthorId)>>` is a deterministic partial function of the input bytes:
// uninterpreted `postcard_heads_decodes` / `postcard_heads_items`. Nothing else is assumed about the format here.
pub uninterp spec fn postcard_heads_decodes(bytes: Seq<u8>) -> bool;
pub uninterp spec fn postcard_heads_items(bytes: Seq<u8>) -> Seq<(u64, AuthorId)>;

#[verifier::external_body]
pub struct PostcardError { _p: u8 }
impl From<PostcardError> for AnyhowError {
    #[verifier::external_body]
    fn from(e: PostcardError) -> AnyhowError { unimplemented!() }
}
pub mod postcard {
    use super::*;
    #[verifier::external_body]
    pub fn from_bytes(bytes: &[u8]) -> (r: std::result::Result<Vec<(u64, AuthorId)>, PostcardError>)
        ensures
            r is Ok <==> postcard_heads_decodes(bytes@),
            r is Ok ==> r->Ok_0@ == postcard_heads_items(bytes@),
    { unimplemented!() }
}
