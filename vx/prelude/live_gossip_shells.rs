// ================= trusted prelude: iroh-gossip receiver side as seen by `receive_loop` (src/engine/gossip.rs) (A-gossip-recv) =================

/// `iroh_gossip::api::DeliveryScope::is_direct`: did the message come straight from its origin (neighbour scope / hop 0)
#[verifier::external_body]
struct DeliveryScope { _p: u8 }
impl DeliveryScope {
    uninterp spec fn spec_is_direct(&self) -> bool;
    #[verifier::external_body]
    fn is_direct(&self) -> (r: bool) ensures r == self.spec_is_direct() { unimplemented!() }
}
/// `iroh_gossip::api::Message`
struct Message { content: Bytes, scope: DeliveryScope, delivered_from: PublicKey }
/// `iroh_gossip::api::Event`
enum Event { NeighborUp(PublicKey), NeighborDown(PublicKey), Received(Message), Lagged }

#[verifier::external_body]
struct ApiError { _p: u8 }
impl From<ApiError> for AnyhowError {
    #[verifier::external_body]
    fn from(e: ApiError) -> AnyhowError { unimplemented!() }
}

/// `GossipReceiver`: a stream of events. Ghost views: `received()` = the events handed out so far, `failed()` = the
/// stream reported an error, `spec_neighbors()` = the neighbours known when asked. `try_next` may return anything
/// (termination of the loop is not claimed).
#[verifier::external_body]
struct GossipReceiver { _p: u8 }
#[verifier::external_body]
pub struct NeighborIter { _p: u8 }
impl NeighborIter { pub uninterp spec fn rest(&self) -> Seq<PublicKey>; }
impl Iterator for NeighborIter {
    type Item = PublicKey;
    #[verifier::external_body]
    fn next(&mut self) -> (r: Option<PublicKey>) { unimplemented!() }
}
impl vstd::std_specs::iter::IteratorSpecImpl for NeighborIter {
    open spec fn obeys_prophetic_iter_laws(&self) -> bool { true }
    open spec fn remaining(&self) -> Seq<PublicKey> { self.rest() }
    open spec fn will_return_none(&self) -> bool { true }
    open spec fn decrease(&self) -> Option<nat> { Some(self.rest().len()) }
    open spec fn peek(&self, i: int) -> Option<PublicKey> { if 0 <= i < self.rest().len() { Some(self.rest()[i]) } else { None } }
}
impl GossipReceiver {
    uninterp spec fn received(&self) -> Seq<Event>;
    uninterp spec fn failed(&self) -> bool;
    uninterp spec fn spec_neighbors(&self) -> Seq<PublicKey>;
    #[verifier::external_body]
    fn neighbors(&self) -> (r: NeighborIter) ensures r.rest() == self.spec_neighbors() { unimplemented!() }
    #[verifier::external_body]
    async fn try_next(&mut self) -> (r: std::result::Result<Option<Event>, ApiError>)
        ensures
            final(self).spec_neighbors() == old(self).spec_neighbors(),
            (r is Ok && r->Ok_0 is Some) ==> final(self).received() == old(self).received().push(r->Ok_0->Some_0),
            !(r is Ok && r->Ok_0 is Some) ==> final(self).received() == old(self).received(),
            r is Err ==> final(self).failed(),
    { unimplemented!() }
}

/// `SyncHandle::insert_remote`: hands one entry to the store thread (Replica::insert_remote_entry, units U-valid-*);
/// any result. `&mut self` only so that the ghost call log can advance.
impl SyncHandle {
    #[verifier::external_body]
    async fn insert_remote(&mut self, namespace: NamespaceId, entry: SignedEntry, from: PeerIdBytes, content_status: ContentStatus) -> (r: Result<()>)
        ensures final(self).calls() == old(self).calls().push(SyncCall::InsertRemote(namespace, entry, from, content_status))
    { unimplemented!() }
}
