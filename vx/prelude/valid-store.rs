// ================= trusted prelude (valid family, unit C): the replica's collaborators as shells =================
// Needs the extracted types of frag/valid-types.vt (SignedEntry, Entry, Event, InsertOutcome).

/// store.rs `DownloadPolicy` (enum over Vec<FilterKind>): opaque; `matches` is proved in the policy units
#[verifier::external_body]
pub struct DownloadPolicy { _p: u8 }
pub uninterp spec fn default_policy() -> DownloadPolicy;
impl Default for DownloadPolicy {
    #[verifier::external_body]
    fn default() -> (r: DownloadPolicy) ensures r == default_policy() { unimplemented!() }
}
impl DownloadPolicy {
    /// uninterpreted verdict of a policy on an entry (store.rs `DownloadPolicy::matches`)
    uninterp spec fn spec_matches(&self, entry: Entry) -> bool;
    #[verifier::external_body]
    fn matches(&self, entry: &Entry) -> (r: bool) ensures r == self.spec_matches(*entry) { unimplemented!() }
}

/// std `Result::unwrap_or_default` (A-std)
pub assume_specification<T: Default, E> [ Result::<T, E>::unwrap_or_default ] (res: Result<T, E>) -> (r: T)
    ensures
        res is Ok ==> r == res->Ok_0,
        res is Err ==> T::default.ensures((), r),
;

// ---- StoreInstance: abstract view = (opaque table state, log of put calls, log of policy reads) ----
#[verifier::external_body]
pub struct StoreState { _p: u8 }
/// what a `put` call answered
enum PutResult { Inserted(usize), NotInserted, Failed }
struct PutRec { entry: SignedEntry, result: PutResult }
struct StoreView {
    /// all tables (records, indexes, heads, policies ...) as one opaque value
    state: StoreState,
    /// every call of `put` so far, with its argument and answer
    puts: Seq<PutRec>,
    /// every call of `get_download_policy` so far: namespace asked, Some(policy) or None on a read error
    policy_reads: Seq<(NamespaceId, Option<DownloadPolicy>)>,
}
spec fn put_result(r: Result<InsertOutcome, AnyhowError>) -> PutResult {
    match r {
        Ok(InsertOutcome::Inserted { removed }) => PutResult::Inserted(removed),
        Ok(InsertOutcome::NotInserted) => PutResult::NotInserted,
        Err(_) => PutResult::Failed,
    }
}
/// the policy row of a namespace in a table state (default when there is no row; store/fs.rs get_download_policy)
uninterp spec fn stored_policy(s: StoreState, ns: NamespaceId) -> DownloadPolicy;

impl StoreInstance {
    uninterp spec fn view(&self) -> StoreView;

    /// ranger.rs `Store::put` for StoreInstance (the reconciliation-store insert; its full contract is unit U-put).
    /// Assumed here: answers Inserted{removed} / NotInserted / Err; the table state changes only on Inserted.
    #[verifier::external_body]
    fn put(&mut self, entry: SignedEntry) -> (r: Result<InsertOutcome, AnyhowError>)
        ensures
            final(self)@.puts == old(self)@.puts.push(PutRec { entry, result: put_result(r) }),
            final(self)@.policy_reads == old(self)@.policy_reads,
            !(r is Ok && r->Ok_0 is Inserted) ==> final(self)@.state == old(self)@.state,
    { unimplemented!() }

    /// `DownloadPolicyStore::get_download_policy`: reads the policy table; no table changes. May fail (I/O).
    #[verifier::external_body]
    fn get_download_policy(&mut self, namespace: &NamespaceId) -> (r: Result<DownloadPolicy, AnyhowError>)
        ensures
            final(self)@.state == old(self)@.state,
            final(self)@.puts == old(self)@.puts,
            final(self)@.policy_reads == old(self)@.policy_reads.push((*namespace, match r { Ok(p) => Some(p), Err(_) => None })),
            r is Ok ==> r->Ok_0 == stored_policy(old(self)@.state, *namespace),
    { unimplemented!() }
}

/// async_channel::Sender<T>: opaque
pub mod async_channel {
    #[verifier::external_body]
    #[verifier::reject_recursive_types(T)]
    pub struct Sender<T> { _p: std::marker::PhantomData<T> }
}
/// sync.rs `struct Subscribers(Vec<async_channel::Sender<Event>>)` is the REAL struct (extracted in
/// frag/valid-replica-types.vt). Its ghost view is the sequence of events handed to `send` so far (each is delivered to
/// every live subscriber channel: async channels, outside the verifier). `send` itself (iterator adaptors over async
/// sends, drops closed channels) is a shell.
impl Subscribers {
    uninterp spec fn view(&self) -> Seq<Event>;
    // (the return value is named because this Verus version drops the `final(self)` clauses of an async fn whose
    //  unit return is left unnamed)
    #[verifier::external_body]
    async fn send(&mut self, event: Event) -> (r: ())
        ensures final(self)@ == old(self)@.push(event)
    { unimplemented!() }
}

/// `ContentStatusCallback = Arc<dyn Fn(Hash) -> BoxFuture<ContentStatus> + Send + Sync>`: opaque
#[verifier::external_body]
pub struct ContentStatusCallback { _p: u8 }

/// keys.rs / sync.rs `EntrySignature::from_entry` (ed25519 signing of `entry.to_vec()` with both secrets): crypto, opaque
impl EntrySignature {
    #[verifier::external_body]
    fn from_entry(entry: &Entry, namespace: &NamespaceSecret, author: &Author) -> EntrySignature { unimplemented!() }
}

/// `#[derive(Clone)]` on SignedEntry: Verus attaches no specification to derived Clone impls of non-Copy types. The
/// extracted `entry.clone()` is mapped (R8, logged) to this shell, whose body is that very call. Assumed: the derived
/// (field-wise) clone is an equal value; for the `Bytes` inside the id this means the same byte string.
#[verifier::external_body]
fn clone_signed_entry(e: &SignedEntry) -> (r: SignedEntry)
    ensures r == *e
{ e.clone() }
