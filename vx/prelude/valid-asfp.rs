// ================= trusted prelude (valid family, unit U-asfp): blake3 hasher, id bytes as slices, be8 facts =================

/// blake3 1.x `Hasher` / `Hash`: the hasher is abstractly the concatenation of everything fed to `update`;
/// `finalize` is an uninterpreted function of that input (collision resistance of blake3 stays trusted, A-crypto).
pub mod blake3 {
    use super::*;
    #[verifier::external_body]
    pub struct Hasher { _p: u8 }
    #[verifier::external_body]
    pub struct Hash { _p: u8 }
    /// the 32 output bytes of blake3 over `input`
    pub uninterp spec fn hash_of(input: Seq<u8>) -> Seq<u8>;
    impl Hash {
        pub uninterp spec fn view(&self) -> Seq<u8>;
    }
    impl Hasher {
        /// everything fed so far
        pub uninterp spec fn view(&self) -> Seq<u8>;
        #[verifier::external_body]
        pub fn new() -> (r: Hasher) ensures r@ == Seq::<u8>::empty() { unimplemented!() }
        /// appends; returns `&mut Self` for chaining (the extracted calls ignore it)
        #[verifier::external_body]
        pub fn update(&mut self, input: &[u8]) -> (r: &mut Hasher)
            ensures final(self)@ == old(self)@ + input@
        { unimplemented!() }
        #[verifier::external_body]
        pub fn finalize(&self) -> (r: Hash) ensures r@ == hash_of(self@) { unimplemented!() }
    }
    /// blake3: `impl From<Hash> for [u8; 32]` (the 32 output bytes)
    impl From<Hash> for [u8; 32] {
        #[verifier::external_body]
        fn from(h: Hash) -> (r: [u8; 32]) ensures r@ == h@ { unimplemented!() }
    }
    impl vstd::std_specs::convert::FromSpecImpl<Hash> for [u8; 32] {
        open spec fn obeys_from_spec() -> bool { false }
        uninterp spec fn from_spec(h: Hash) -> [u8; 32];
    }
}

/// keys.rs `impl AsRef<[u8]> for NamespaceId / AuthorId` (`&self.0`)
impl AsRef<[u8]> for NamespaceId {
    #[verifier::external_body]
    fn as_ref(&self) -> (r: &[u8]) ensures r@ == self.0@ { unimplemented!() }
}
impl AsRef<[u8]> for AuthorId {
    #[verifier::external_body]
    fn as_ref(&self) -> (r: &[u8]) ensures r@ == self.0@ { unimplemented!() }
}

/// big-endian encoding of u64 (std `to_be_bytes`): eight bytes, and distinct values have distinct encodings.
/// TRUSTED fact about `be8` (which prelude/valid-core.rs leaves uninterpreted).
#[verifier::external_body]
pub proof fn axiom_be8_len_injective()
    ensures
        forall|x: u64| (#[trigger] be8(x)).len() == 8,
        forall|x: u64, y: u64| #[trigger] be8(x) == #[trigger] be8(y) ==> x == y,
{ }
