// ================= trusted prelude (actor2): std::collections::HashMap<NamespaceId, V> with the matched entry API (A-std HashMap) =================
// Used by `OpenReplicas` (src/actor.rs): `get_mut`, `contains_key`, `entry` matched on `hash_map::Entry::{Vacant, Occupied}`,
// `VacantEntry::insert`, `OccupiedEntry::get_mut`, `OccupiedEntry::remove_entry`.
//
// Model. The map is opaque; its content is the abstract `Map<NamespaceId, V>` (`view`). The key type is fixed to
// `NamespaceId` (a newtype over [u8; 32] with derived Eq/Hash, i.e. key identity == structural equality).
// An entry is a *transparent* struct that owns the `&'a mut HashMap` for the lifetime of the entry plus the key.
// That way nothing has to be assumed about an entry that is dropped without being used (e.g. the `?` early return in
// `open_with`, or the `false` branch of `close`): Verus itself resolves the `&mut` field, i.e. the map the caller sees
// afterwards is the map the entry last held. Each operation is the std-documented one:
//   entry(k):                 Occupied iff k is present (the map is not changed by taking the entry)
//   VacantEntry::insert(v):   k -> v is added, nothing else changes; returns `&'a mut` to the stored value (what the
//                             caller leaves there is what the map holds)
//   OccupiedEntry::get_mut(): `&mut` to the stored value; what the caller leaves there is what the map holds under k
//   OccupiedEntry::remove_entry(): k is removed, nothing else changes; returns the (key, value) pair
//   HashMap::get_mut(k):      Some(&mut stored value) iff present; None leaves the map as it was
//   HashMap::contains_key(k): k is present
#[verifier::external_body]
#[verifier::reject_recursive_types(K)]
#[verifier::reject_recursive_types(V)]
pub struct HashMap<K, V> { _k: core::marker::PhantomData<(K, V)> }

impl<V> HashMap<NamespaceId, V> {
    pub uninterp spec fn view(&self) -> Map<NamespaceId, V>;

    #[verifier::external_body]
    pub fn contains_key(&self, k: &NamespaceId) -> (r: bool)
        ensures r == self@.contains_key(*k)
    { unimplemented!() }

    #[verifier::external_body]
    pub fn get_mut(&mut self, k: &NamespaceId) -> (r: Option<&mut V>)
        ensures
            r is Some <==> old(self)@.contains_key(*k),
            r is Some ==> *r->Some_0 == old(self)@[*k] && final(self)@ == old(self)@.insert(*k, *final(r->Some_0)),
            r is None ==> final(self)@ == old(self)@,
    { unimplemented!() }

    #[verifier::external_body]
    pub fn entry(&mut self, k: NamespaceId) -> (e: hash_map::Entry<'_, NamespaceId, V>)
        ensures
            e is Occupied <==> old(self)@.contains_key(k),
            e is Occupied ==> e->Occupied_0.key == k && e->Occupied_0.map@ == old(self)@ && final(e->Occupied_0.map)@ == final(self)@,
            e is Vacant ==> e->Vacant_0.key == k && e->Vacant_0.map@ == old(self)@ && final(e->Vacant_0.map)@ == final(self)@,
    { unimplemented!() }
}

pub mod hash_map {
    use vstd::prelude::*;
    use super::*;

    #[verifier::reject_recursive_types(K)]
    #[verifier::reject_recursive_types(V)]
    pub enum Entry<'a, K, V> {
        Occupied(OccupiedEntry<'a, K, V>),
        Vacant(VacantEntry<'a, K, V>),
    }
    /// holds the map borrow while the entry lives; `key` is absent from `map@`
    #[verifier::reject_recursive_types(K)]
    #[verifier::reject_recursive_types(V)]
    pub struct VacantEntry<'a, K, V> { pub map: &'a mut HashMap<K, V>, pub key: K }
    /// holds the map borrow while the entry lives; `key` is present in `map@`
    #[verifier::reject_recursive_types(K)]
    #[verifier::reject_recursive_types(V)]
    pub struct OccupiedEntry<'a, K, V> { pub map: &'a mut HashMap<K, V>, pub key: K }

    impl<'a, V> VacantEntry<'a, NamespaceId, V> {
        #[verifier::external_body]
        pub fn insert(self, value: V) -> (r: &'a mut V)
            requires !old(self.map)@.contains_key(self.key),
            ensures
                *r == value,
                final(self.map)@ == old(self.map)@.insert(self.key, *final(r)),
        { unimplemented!() }
    }

    impl<'a, V> OccupiedEntry<'a, NamespaceId, V> {
        #[verifier::external_body]
        pub fn get_mut(&mut self) -> (r: &mut V)
            requires old(self).map@.contains_key(old(self).key),
            ensures
                *r == old(self).map@[old(self).key],
                final(self).key == old(self).key,
                final(self).map@ == old(self).map@.insert(old(self).key, *final(r)),
                *final(final(self).map) == *final(old(self).map),
        { unimplemented!() }

        #[verifier::external_body]
        pub fn remove_entry(self) -> (r: (NamespaceId, V))
            requires old(self.map)@.contains_key(self.key),
            ensures
                r.0 == self.key,
                r.1 == old(self.map)@[self.key],
                final(self.map)@ == old(self.map)@.remove(self.key),
        { unimplemented!() }
    }
}
