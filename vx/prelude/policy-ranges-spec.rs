// ================= spec vocabulary of the range shells (verified definitions; shared by prelude/policy-ranges.rs and U-range-ext) =================
/// the i-th id to be visited in the given direction
pub open spec fn dir_nth(rest: Seq<ByKeyId>, asc: bool, i: int) -> ByKeyId {
    if asc { rest[i] } else { rest[rest.len() - 1 - i] }
}
/// what remains after visiting ids 0..=n in the given direction
pub open spec fn dir_after(rest: Seq<ByKeyId>, asc: bool, n: int) -> Seq<ByKeyId> {
    if asc { rest.subrange(n + 1, rest.len() as int) } else { rest.subrange(0, rest.len() - 1 - n) }
}
pub open spec fn is_asc(d: SortDirection) -> bool { d is Asc }

/// `f` applied to (a borrowed form of) index id `id` may return `o`
pub open spec fn fm_returns<T, F: Fn(RecordsByKeyId<'_>, ()) -> Option<anyhow::Result<T>>>(f: F, id: ByKeyId, o: Option<anyhow::Result<T>>) -> bool {
    exists|k: RecordsByKeyId| bkid(k) == id && #[trigger] f.ensures((k, ()), o)
}

