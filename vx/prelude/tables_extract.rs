// ---- extract_from_if: the returned iterator removes the rows it yields; `count()` consumes it completely.
// Modelled with a prophecy: the table's final view equals `iter.final_view()`, which `count()` resolves to
// "all rows of the range for which the predicate holds are removed". An iterator that is dropped without being
// consumed leaves `final_view()` unconstrained, so nothing can be concluded about the table (redb: "values not
// read from the iterator will not be removed").
#[verifier::external_body]
#[verifier::reject_recursive_types(F)]
pub struct ExtractIter<'a, F> { _p: std::marker::PhantomData<&'a mut F> }
impl<'a, F> ExtractIter<'a, F> {
    pub uninterp spec fn base(&self) -> Map<RecId, RecVal>;
    pub uninterp spec fn final_view(&self) -> Map<RecId, RecVal>;
    pub uninterp spec fn bounds(&self) -> RecBoundsRef;
    pub uninterp spec fn pred(&self) -> F;
}
pub open spec fn extract_hits<F: Fn(RecordsId<'_>, RecordsValue<'_>) -> bool>(f: F, id: RecId, v: RecVal) -> bool {
    exists|k: RecordsId, w: RecordsValue| rid(k) == id && rval(w) == v && f.ensures((k, w), true)
}
pub open spec fn extract_misses<F: Fn(RecordsId<'_>, RecordsValue<'_>) -> bool>(f: F, id: RecId, v: RecVal) -> bool {
    exists|k: RecordsId, w: RecordsValue| rid(k) == id && rval(w) == v && f.ensures((k, w), false)
}
impl RecordsTbl {
    #[verifier::external_body]
    pub fn extract_from_if<'a, F: Fn(RecordsId<'_>, RecordsValue<'_>) -> bool>(&'a mut self, b: RecBoundsRef, f: F) -> (r: std::result::Result<ExtractIter<'a, F>, StorageError>)
        requires forall|k: RecordsId, w: RecordsValue| f.requires((k, w)),
        ensures
            r is Ok ==> r->Ok_0.base() == old(self)@ && r->Ok_0.bounds() == b && r->Ok_0.pred() == f && final(self)@ == r->Ok_0.final_view(),
            r is Err ==> final(self)@ == old(self)@,
    { unimplemented!() }
}
impl<'a, F: Fn(RecordsId<'_>, RecordsValue<'_>) -> bool> ExtractIter<'a, F> {
    /// Iterator::count on the extracting iterator: consumes it (removing every hit) and returns the number of hits.
    /// Storage errors while iterating are counted as items by the real code (`iter.count()` counts `Err` items too);
    /// the model has no mid-iteration failure.
    #[verifier::external_body]
    pub fn count(self) -> (n: usize)
        ensures
            forall|id: RecId| #[trigger] self.final_view().contains_key(id) <==> (self.base().contains_key(id) && !(self.bounds().contains(id) && extract_hits(self.pred(), id, self.base()[id]))),
            forall|id: RecId| #[trigger] self.final_view().contains_key(id) ==> self.final_view()[id] == self.base()[id],
            forall|id: RecId| #[trigger] self.base().contains_key(id) && self.bounds().contains(id) ==> (extract_hits(self.pred(), id, self.base()[id]) || extract_misses(self.pred(), id, self.base()[id])),
            n == self.base().dom().filter(|id: RecId| self.bounds().contains(id) && extract_hits(self.pred(), id, self.base()[id])).len(),
    { unimplemented!() }
}
