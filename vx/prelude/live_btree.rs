// ================= trusted prelude: key order of the 32-byte ids used as `BTreeMap` keys (A-btree-key) =================
// vstd specifies `std::collections::BTreeMap` (view = `Map<K, V>`; contains_key / get / get_mut / remove / insert)
// under the condition that the key type's `Ord` is a total order consistent with `==`. `NamespaceId` and
// `PublicKey` derive / implement `Ord` over their 32 key bytes in the real crates (src/keys.rs, iroh-base): assumed.
impl PartialOrd for NamespaceId {
    #[verifier::external_body]
    fn partial_cmp(&self, other: &Self) -> Option<std::cmp::Ordering> { unimplemented!() }
}
impl Ord for NamespaceId {
    #[verifier::external_body]
    fn cmp(&self, other: &Self) -> std::cmp::Ordering { unimplemented!() }
}
impl PartialOrd for PublicKey {
    #[verifier::external_body]
    fn partial_cmp(&self, other: &Self) -> Option<std::cmp::Ordering> { unimplemented!() }
}
impl Ord for PublicKey {
    #[verifier::external_body]
    fn cmp(&self, other: &Self) -> std::cmp::Ordering { unimplemented!() }
}
pub mod live_key_axioms {
    use super::*;
    #[verifier::external_body]
    pub broadcast proof fn axiom_namespace_id_key_order()
        ensures #[trigger] vstd::std_specs::btree::key_obeys_cmp_spec::<NamespaceId>()
    {}
    #[verifier::external_body]
    pub broadcast proof fn axiom_public_key_key_order()
        ensures #[trigger] vstd::std_specs::btree::key_obeys_cmp_spec::<PublicKey>()
    {}
}
broadcast use {live_key_axioms::axiom_namespace_id_key_order, live_key_axioms::axiom_public_key_key_order};
