// ================= trusted prelude (policy): the by-key index range and the read-only records table (A-redb) =================
// Included after frag/store-head.vt and the extracted `pub enum SortDirection` (extract it with `rules: -R9`).
//
// `RecordsRoTbl`: redb ReadOnlyTable of the records table; `get(&key)` is a map lookup (same model as RecordsTbl::get,
// the key is passed by reference here).
//
// `ByKeyRange`: redb `Range<'static, RecordsByKeyId, ()>` over the by-key index together with the two methods of the
// extension trait RangeExt (src/store/fs/ranges.rs) that next_filtered uses. `rest()` are the index ids still to be
// yielded, ascending. MODEL (not verified: `next_filter_map` is a `loop` with `break <value>`, which Verus cannot
// take): `next_try_filter_map(direction, f)` takes ids from the front (Asc) or the back (Desc) of `rest()`, applies
// `f` to each, skips the ids for which `f` returns None, and stops at the first id for which `f` returns Some(x),
// returning Some(x); if the range is exhausted it returns None. A redb read error ends the call with Some(Err(_));
// nothing is claimed about `rest()` after an Err.
#[verifier::external_body]
pub struct RecordsRoTbl { _p: u8 }
impl RecordsRoTbl {
    pub uninterp spec fn view(&self) -> Map<RecId, RecVal>;
    #[verifier::external_body]
    pub fn get(&self, key: &RecordsId<'_>) -> (r: std::result::Result<Option<RecValGuard>, StorageError>)
        ensures r is Ok ==> (match r->Ok_0 {
            Some(g) => self@.contains_key(rid(*key)) && g@ == self@[rid(*key)],
            None => !self@.contains_key(rid(*key)),
        })
    { unimplemented!() }
}

//@include prelude/policy-ranges-spec.rs

#[verifier::external_body]
pub struct ByKeyRange { _p: u8 }
impl ByKeyRange {
    pub uninterp spec fn rest(&self) -> Seq<ByKeyId>;

    #[verifier::external_body]
    pub fn next_try_filter_map<T, F: Fn(RecordsByKeyId<'_>, ()) -> Option<anyhow::Result<T>>>(&mut self, direction: &SortDirection, f: F) -> (r: Option<anyhow::Result<T>>)
        requires forall|k: RecordsByKeyId| #[trigger] f.requires((k, ())),
        ensures
            r is None ==> final(self).rest().len() == 0
                && (forall|i: int| 0 <= i < old(self).rest().len() ==> fm_returns(f, #[trigger] dir_nth(old(self).rest(), is_asc(*direction), i), None::<anyhow::Result<T>>)),
            r is Some && r->Some_0 is Ok ==> (exists|n: int| 0 <= n < old(self).rest().len()
                && (forall|i: int| 0 <= i < n ==> fm_returns(f, #[trigger] dir_nth(old(self).rest(), is_asc(*direction), i), None::<anyhow::Result<T>>))
                && fm_returns(f, #[trigger] dir_nth(old(self).rest(), is_asc(*direction), n), r)
                && final(self).rest() == dir_after(old(self).rest(), is_asc(*direction), n)),
    { unimplemented!() }
}

/// std: Result<Option<T>, E>::transpose (A-std)
pub assume_specification<T, E> [std::result::Result::<std::option::Option<T>, E>::transpose] (x: std::result::Result<std::option::Option<T>, E>) -> (r: std::option::Option<std::result::Result<T, E>>)
    ensures r == (match x {
        Ok(Some(v)) => Some(Ok::<T, E>(v)),
        Ok(None) => None::<std::result::Result<T, E>>,
        Err(e) => Some(Err::<T, E>(e)),
    });

/// std: Option<Result<T, E>>::transpose (A-std)
pub assume_specification<T, E> [std::option::Option::<std::result::Result<T, E>>::transpose] (x: std::option::Option<std::result::Result<T, E>>) -> (r: std::result::Result<std::option::Option<T>, E>)
    ensures r == (match x {
        Some(Ok(v)) => Ok::<Option<T>, E>(Some(v)),
        None => Ok::<Option<T>, E>(None),
        Some(Err(e)) => Err::<Option<T>, E>(e),
    });

/// the records-table key an index id points to
pub open spec fn bk_rec_id(id: ByKeyId) -> RecId { RecId { ns: id.ns, author: id.author, key: id.key } }

/// the caller's filter, applied to (a borrowed form of) index id `id`, may return `b`
pub open spec fn filter_says<F: Fn(RecordsByKeyId<'_>) -> bool>(filter: F, id: ByKeyId, b: bool) -> bool {
    exists|k: RecordsByKeyId| bkid(k) == id && #[trigger] filter.ensures((k,), b)
}
/// an index id that next_filtered passes over: rejected by the filter, or stale (its record row does not exist)
pub open spec fn skipped<F: Fn(RecordsByKeyId<'_>) -> bool>(filter: F, table: Map<RecId, RecVal>, id: ByKeyId) -> bool {
    filter_says(filter, id, false) || (filter_says(filter, id, true) && !table.contains_key(bk_rec_id(id)))
}

