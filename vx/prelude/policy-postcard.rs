// ================= trusted prelude: postcard encoding of a download policy (A-postcard) =================
// Included AFTER the extracted `enum DownloadPolicy` and spec/policy-view.rs.
// postcard::to_stdvec / from_bytes are not examined. Assumed: encoding is a function of the abstract policy value
// (pc_enc), decoding is a partial function of the bytes (pc_dec), and decoding inverts encoding (axiom_pc_roundtrip).
// Serialisation may fail (Err); deserialisation fails exactly on byte strings that are not an encoding.

pub uninterp spec fn pc_enc(p: PolicyV) -> Seq<u8>;
pub uninterp spec fn pc_dec(b: Seq<u8>) -> Option<PolicyV>;

/// A-postcard: `from_bytes(to_stdvec(p)) == p` for every policy value
#[verifier::external_body]
pub broadcast proof fn axiom_pc_roundtrip(p: PolicyV)
    ensures #[trigger] pc_dec(pc_enc(p)) == Some(p)
{
}

/// so that the real call text `postcard::to_stdvec(&policy)?` / `postcard::from_bytes(..)?` resolves
pub mod postcard {
    use super::*;

    /// postcard::Error: opaque, convertible into anyhow::Error
    #[verifier::external_body]
    pub struct Error { _p: u8 }

    #[verifier::external_body]
    pub(super) fn to_stdvec(value: &DownloadPolicy) -> (r: std::result::Result<Vec<u8>, Error>)
        ensures r is Ok ==> r->Ok_0@ == pc_enc(policy_view(*value))
    { unimplemented!() }

    #[verifier::external_body]
    pub(super) fn from_bytes(s: &[u8]) -> (r: std::result::Result<DownloadPolicy, Error>)
        ensures
            r is Ok ==> pc_dec(s@) == Some(policy_view(r->Ok_0)),
            r is Err <==> pc_dec(s@) is None,
    { unimplemented!() }
}
impl From<postcard::Error> for AnyhowError {
    #[verifier::external_body]
    fn from(e: postcard::Error) -> AnyhowError { unimplemented!() }
}
