// ================= trusted prelude: redb tables as ghost maps (A-redb) =================
// A table is a finite map ordered by the tuple order of its key type; get/insert/remove are map operations;
// range(b) yields exactly the rows within b ascending; retain_in / extract_from_if remove exactly the rows in b
// for which the predicate holds. A commit is modelled as a ghost snapshot of the contents (`Store::committed`); durability itself (redb) is trusted. On an Err result of a
// single table operation the table is assumed unchanged.

/// redb::StorageError / TableError / CommitError: opaque, convertible into anyhow::Error
#[verifier::external_body]
pub struct StorageError { _p: u8 }
impl From<StorageError> for AnyhowError {
    #[verifier::external_body]
    fn from(e: StorageError) -> AnyhowError { unimplemented!() }
}

/// value of a records row: (timestamp, namespace signature, author signature, len, hash)
pub struct RecVal { pub ts: u64, pub ns_sig: Seq<u8>, pub author_sig: Seq<u8>, pub len: u64, pub hash: Seq<u8> }

pub type RecordsId<'a> = (&'a [u8; 32], &'a [u8; 32], &'a [u8]);
pub type RecordsValue<'a> = (u64, &'a [u8; 64], &'a [u8; 64], u64, &'a [u8; 32]);
pub type RecordsByKeyId<'a> = (&'a [u8; 32], &'a [u8], &'a [u8; 32]);
pub type LatestPerAuthorKey<'a> = (&'a [u8; 32], &'a [u8; 32]);
pub type LatestPerAuthorValue<'a> = (u64, &'a [u8]);
pub type Nanos = u64;
pub type PeerIdBytes = [u8; 32];

pub open spec fn rid(k: RecordsId) -> RecId { RecId { ns: k.0@, author: k.1@, key: k.2@ } }
pub open spec fn rval(v: RecordsValue) -> RecVal { RecVal { ts: v.0, ns_sig: v.1@, author_sig: v.2@, len: v.3, hash: v.4@ } }
pub open spec fn bkid(k: RecordsByKeyId) -> ByKeyId { ByKeyId { ns: k.0@, key: k.1@, author: k.2@ } }

/// (namespace, author) key of the latest-per-author table
pub struct LatestKey { pub ns: Seq<u8>, pub author: Seq<u8> }
pub struct LatestVal { pub ts: u64, pub key: Seq<u8> }
pub open spec fn lkey(k: LatestPerAuthorKey) -> LatestKey { LatestKey { ns: k.0@, author: k.1@ } }
pub open spec fn lval(v: LatestPerAuthorValue) -> LatestVal { LatestVal { ts: v.0, key: v.1@ } }

// ---- bounds handed to range / retain_in / extract_from_if (result of `bounds.as_ref()`) ----
#[verifier::external_body]
pub struct RecBoundsRef { _p: u8 }
impl RecBoundsRef { pub uninterp spec fn contains(&self, id: RecId) -> bool; }
#[verifier::external_body]
pub struct ByKeyBoundsRef { _p: u8 }
impl ByKeyBoundsRef { pub uninterp spec fn contains(&self, id: ByKeyId) -> bool; }

// ---- access guards ----
#[verifier::external_body]
pub struct RecValGuard { _p: u8 }
impl RecValGuard {
    pub uninterp spec fn view(&self) -> RecVal;
    #[verifier::external_body]
    pub fn value(&self) -> (r: RecordsValue<'_>) ensures rval(r) == self@ { unimplemented!() }
}
#[verifier::external_body]
pub struct RecKeyGuard { _p: u8 }
impl RecKeyGuard {
    pub uninterp spec fn view(&self) -> RecId;
    #[verifier::external_body]
    pub fn value(&self) -> (r: RecordsId<'_>) ensures rid(r) == self@ { unimplemented!() }
}
#[verifier::external_body]
pub struct ByKeyKeyGuard { _p: u8 }
impl ByKeyKeyGuard {
    pub uninterp spec fn view(&self) -> ByKeyId;
    #[verifier::external_body]
    pub fn value(&self) -> (r: RecordsByKeyId<'_>) ensures bkid(r) == self@ { unimplemented!() }
}
#[verifier::external_body]
pub struct LatestValGuard { _p: u8 }
impl LatestValGuard {
    pub uninterp spec fn view(&self) -> LatestVal;
    #[verifier::external_body]
    pub fn value(&self) -> (r: LatestPerAuthorValue<'_>) ensures lval(r) == self@ { unimplemented!() }
}
#[verifier::external_body]
pub struct NsValGuard { _p: u8 }
impl NsValGuard {
    pub uninterp spec fn view(&self) -> (u8, Seq<u8>);
    #[verifier::external_body]
    pub fn value(&self) -> (r: (u8, &[u8; 32])) ensures r.0 == self@.0, r.1@ == self@.1 { unimplemented!() }
}
#[verifier::external_body]
pub struct BytesValGuard { _p: u8 }
impl BytesValGuard {
    pub uninterp spec fn view(&self) -> Seq<u8>;
    #[verifier::external_body]
    pub fn value(&self) -> (r: &[u8]) ensures r@ == self@ { unimplemented!() }
}

// ---- records table ----
#[verifier::external_body]
pub struct RecordsTbl { _p: u8 }
impl RecordsTbl {
    pub uninterp spec fn view(&self) -> Map<RecId, RecVal>;

    #[verifier::external_body]
    pub fn get(&self, key: RecordsId<'_>) -> (r: std::result::Result<Option<RecValGuard>, StorageError>)
        ensures r is Ok ==> (match r->Ok_0 {
            Some(g) => self@.contains_key(rid(key)) && g@ == self@[rid(key)],
            None => !self@.contains_key(rid(key)),
        })
    { unimplemented!() }

    #[verifier::external_body]
    pub fn insert(&mut self, key: RecordsId<'_>, value: RecordsValue<'_>) -> (r: std::result::Result<Option<RecValGuard>, StorageError>)
        ensures
            r is Ok ==> final(self)@ == old(self)@.insert(rid(key), rval(value)),
            r is Err ==> final(self)@ == old(self)@,
    { unimplemented!() }

    /// `retain_in(range, |k, v| false)`: the only form used by the code (remove every row in the range)
    #[verifier::external_body]
    pub fn retain_in<F: Fn(RecordsId<'_>, RecordsValue<'_>) -> bool>(&mut self, b: RecBoundsRef, f: F) -> (r: std::result::Result<(), StorageError>)
        requires forall|k: RecordsId, v: RecordsValue, o: bool| f.ensures((k, v), o) ==> o == false,
        ensures
            r is Ok ==> (forall|id: RecId| #[trigger] final(self)@.contains_key(id) <==> (old(self)@.contains_key(id) && !b.contains(id))),
            r is Ok ==> (forall|id: RecId| #[trigger] final(self)@.contains_key(id) ==> final(self)@[id] == old(self)@[id]),
            r is Err ==> final(self)@ == old(self)@,
    { unimplemented!() }

    #[verifier::external_body]
    pub fn is_empty(&self) -> (r: std::result::Result<bool, StorageError>)
        ensures r is Ok ==> (r->Ok_0 <==> self@.dom() =~= Set::<RecId>::empty())
    { unimplemented!() }
}

// ---- by-key index table: a set of ids ----
#[verifier::external_body]
pub struct ByKeyTbl { _p: u8 }
impl ByKeyTbl {
    pub uninterp spec fn view(&self) -> Set<ByKeyId>;

    #[verifier::external_body]
    pub fn insert(&mut self, key: RecordsByKeyId<'_>, value: ()) -> (r: std::result::Result<Option<()>, StorageError>)
        ensures
            r is Ok ==> final(self)@ == old(self)@.insert(bkid(key)),
            r is Err ==> final(self)@ == old(self)@,
    { unimplemented!() }

    #[verifier::external_body]
    pub fn retain_in<F: Fn(RecordsByKeyId<'_>, ()) -> bool>(&mut self, b: ByKeyBoundsRef, f: F) -> (r: std::result::Result<(), StorageError>)
        requires forall|k: RecordsByKeyId, v: (), o: bool| f.ensures((k, v), o) ==> o == false,
        ensures
            r is Ok ==> (forall|id: ByKeyId| #[trigger] final(self)@.contains(id) <==> (old(self)@.contains(id) && !b.contains(id))),
            r is Err ==> final(self)@ == old(self)@,
    { unimplemented!() }

    #[verifier::external_body]
    pub fn is_empty(&self) -> (r: std::result::Result<bool, StorageError>)
        ensures r is Ok ==> (r->Ok_0 <==> self@ =~= Set::<ByKeyId>::empty())
    { unimplemented!() }
}

// ---- namespaces table: ns id -> (kind, 32 bytes) ----
#[verifier::external_body]
pub struct NamespacesTbl { _p: u8 }
impl NamespacesTbl {
    pub uninterp spec fn view(&self) -> Map<Seq<u8>, (u8, Seq<u8>)>;

    #[verifier::external_body]
    pub fn get(&self, key: &[u8; 32]) -> (r: std::result::Result<Option<NsValGuard>, StorageError>)
        ensures r is Ok ==> (match r->Ok_0 {
            Some(g) => self@.contains_key(key@) && g@ == self@[key@],
            None => !self@.contains_key(key@),
        })
    { unimplemented!() }

    #[verifier::external_body]
    pub fn insert(&mut self, key: &[u8; 32], value: (u8, &[u8; 32])) -> (r: std::result::Result<Option<NsValGuard>, StorageError>)
        ensures
            r is Ok ==> final(self)@ == old(self)@.insert(key@, (value.0, value.1@)),
            r is Err ==> final(self)@ == old(self)@,
    { unimplemented!() }

    #[verifier::external_body]
    pub fn remove(&mut self, key: &[u8; 32]) -> (r: std::result::Result<Option<NsValGuard>, StorageError>)
        ensures
            r is Ok ==> final(self)@ == old(self)@.remove(key@),
            r is Err ==> final(self)@ == old(self)@,
    { unimplemented!() }

    /// ReadableTableMetadata::is_empty
    #[verifier::external_body]
    pub fn is_empty(&self) -> (r: std::result::Result<bool, StorageError>)
        ensures r is Ok ==> (r->Ok_0 <==> self@ =~= Map::<Seq<u8>, (u8, Seq<u8>)>::empty())
    { unimplemented!() }
}

// ---- latest-per-author table ----
#[verifier::external_body]
pub struct LatestTbl { _p: u8 }
impl LatestTbl {
    pub uninterp spec fn view(&self) -> Map<LatestKey, LatestVal>;

    #[verifier::external_body]
    pub fn get(&self, key: LatestPerAuthorKey<'_>) -> (r: std::result::Result<Option<LatestValGuard>, StorageError>)
        ensures r is Ok ==> (match r->Ok_0 {
            Some(g) => self@.contains_key(lkey(key)) && g@ == self@[lkey(key)],
            None => !self@.contains_key(lkey(key)),
        })
    { unimplemented!() }

    #[verifier::external_body]
    pub fn insert(&mut self, key: LatestPerAuthorKey<'_>, value: LatestPerAuthorValue<'_>) -> (r: std::result::Result<Option<LatestValGuard>, StorageError>)
        ensures
            r is Ok ==> final(self)@ == old(self)@.insert(lkey(key), lval(value)),
            r is Err ==> final(self)@ == old(self)@,
    { unimplemented!() }

    /// `retain_in(start..=end, |k, v| false)` over the tuple order (ns, author)
    #[verifier::external_body]
    pub fn retain_in<F: Fn(LatestPerAuthorKey<'_>, LatestPerAuthorValue<'_>) -> bool>(&mut self, b: std::ops::RangeInclusive<LatestPerAuthorKey<'_>>, f: F) -> (r: std::result::Result<(), StorageError>)
        requires forall|k: LatestPerAuthorKey, v: LatestPerAuthorValue, o: bool| f.ensures((k, v), o) ==> o == false,
        ensures
            r is Ok ==> (forall|id: LatestKey| #[trigger] final(self)@.contains_key(id) <==> (old(self)@.contains_key(id) && !latest_in_range(lkey(b@.start), lkey(b@.end), id))),
            r is Ok ==> (forall|id: LatestKey| #[trigger] final(self)@.contains_key(id) ==> final(self)@[id] == old(self)@[id]),
            r is Err ==> final(self)@ == old(self)@,
    { unimplemented!() }
}

pub open spec fn latest_lt(a: LatestKey, b: LatestKey) -> bool { lex_lt(a.ns, b.ns) || (a.ns =~= b.ns && lex_lt(a.author, b.author)) }
pub open spec fn latest_le(a: LatestKey, b: LatestKey) -> bool { (a.ns =~= b.ns && a.author =~= b.author) || latest_lt(a, b) }
pub open spec fn latest_in_range(lo: LatestKey, hi: LatestKey, id: LatestKey) -> bool { latest_le(lo, id) && latest_le(id, hi) }

// ---- download policy table: ns id -> postcard bytes ----
#[verifier::external_body]
pub struct PolicyTbl { _p: u8 }
impl PolicyTbl {
    pub uninterp spec fn view(&self) -> Map<Seq<u8>, Seq<u8>>;

    #[verifier::external_body]
    pub fn get(&self, key: &[u8; 32]) -> (r: std::result::Result<Option<BytesValGuard>, StorageError>)
        ensures r is Ok ==> (match r->Ok_0 {
            Some(g) => self@.contains_key(key@) && g@ == self@[key@],
            None => !self@.contains_key(key@),
        })
    { unimplemented!() }

    #[verifier::external_body]
    pub fn insert(&mut self, key: &[u8; 32], value: &[u8]) -> (r: std::result::Result<Option<BytesValGuard>, StorageError>)
        ensures
            r is Ok ==> final(self)@ == old(self)@.insert(key@, value@),
            r is Err ==> final(self)@ == old(self)@,
    { unimplemented!() }

    #[verifier::external_body]
    pub fn remove(&mut self, key: &[u8; 32]) -> (r: std::result::Result<Option<BytesValGuard>, StorageError>)
        ensures
            r is Ok ==> final(self)@ == old(self)@.remove(key@),
            r is Err ==> final(self)@ == old(self)@,
    { unimplemented!() }

    /// ReadableTableMetadata::is_empty
    #[verifier::external_body]
    pub fn is_empty(&self) -> (r: std::result::Result<bool, StorageError>)
        ensures r is Ok ==> (r->Ok_0 <==> self@ =~= Map::<Seq<u8>, Seq<u8>>::empty())
    { unimplemented!() }
}

// ---- namespace peers multimap: ns id -> set of (nanos, peer) ordered ascending ----
#[verifier::external_body]
pub struct PeersTbl { _p: u8 }
impl PeersTbl {
    pub uninterp spec fn view(&self) -> Map<Seq<u8>, Set<(u64, Seq<u8>)>>;
    pub open spec fn values(&self, ns: Seq<u8>) -> Set<(u64, Seq<u8>)> {
        if self@.contains_key(ns) { self@[ns] } else { Set::empty() }
    }

    #[verifier::external_body]
    pub fn remove_all(&mut self, key: &[u8; 32]) -> (r: std::result::Result<(), StorageError>)
        ensures
            r is Ok ==> final(self)@ == old(self)@.remove(key@),
            r is Err ==> final(self)@ == old(self)@,
    { unimplemented!() }
}

// ---- authors table ----
#[verifier::external_body]
pub struct AuthorsTbl { _p: u8 }
impl AuthorsTbl {
    pub uninterp spec fn view(&self) -> Map<Seq<u8>, Seq<u8>>;
}

/// `HashSet<NamespaceId>` of open replicas: abstract finite set with the std contains/insert/remove contracts (A-std)
#[verifier::external_body]
pub struct OpenSet { _p: u8 }
impl OpenSet {
    pub uninterp spec fn view(&self) -> Set<NamespaceId>;
    #[verifier::external_body]
    pub fn contains(&self, k: &NamespaceId) -> (r: bool) ensures r == self@.contains(*k) { unimplemented!() }
    #[verifier::external_body]
    pub fn insert(&mut self, k: NamespaceId) -> (r: bool)
        ensures final(self)@ == old(self)@.insert(k), r == !old(self)@.contains(k)
    { unimplemented!() }
    #[verifier::external_body]
    pub fn remove(&mut self, k: &NamespaceId) -> (r: bool)
        ensures final(self)@ == old(self)@.remove(*k), r == old(self)@.contains(*k)
    { unimplemented!() }
}

pub struct Tables {
    pub records: RecordsTbl,
    pub records_by_key: ByKeyTbl,
    pub namespaces: NamespacesTbl,
    pub latest_per_author: LatestTbl,
    pub namespace_peers: PeersTbl,
    pub download_policy: PolicyTbl,
    pub authors: AuthorsTbl,
}

/// contents of all tables: what a commit makes durable
pub struct TablesV {
    pub records: Map<RecId, RecVal>,
    pub records_by_key: Set<ByKeyId>,
    pub namespaces: Map<Seq<u8>, (u8, Seq<u8>)>,
    pub latest_per_author: Map<LatestKey, LatestVal>,
    pub namespace_peers: Map<Seq<u8>, Set<(u64, Seq<u8>)>>,
    pub download_policy: Map<Seq<u8>, Seq<u8>>,
    pub authors: Map<Seq<u8>, Seq<u8>>,
}
pub open spec fn tv(t: Tables) -> TablesV {
    TablesV { records: t.records@, records_by_key: t.records_by_key@, namespaces: t.namespaces@, latest_per_author: t.latest_per_author@,
              namespace_peers: t.namespace_peers@, download_policy: t.download_policy@, authors: t.authors@ }
}

/// `Store`: the tables of the current write transaction plus the set of open replicas, and (ghost) the contents made durable by
/// the last commit - what a store reopened after a crash shows (atomicity of a redb commit: trusted, A-redb).
/// `modify(f)` (src/store/fs.rs) opens/reuses the write transaction - which may fail before `f` runs - and then runs
/// `f` exactly once on the tables, returning its result (rule R4 inlines it as `modify_begin()?; let tables = tables_mut(); ..`).
/// Opening/reusing the transaction in `modify` and `tables` may first commit it when it is older than MAX_COMMIT_DELAY: the clock
/// is not an input, so the shells allow the commit at every such access (`commit_step`); `modify_continue` never commits.
/// These three shells carry the contracts proved on the real `tables`, `modify`, `modify_continue`, `modify_impl` in unit U-tx.
pub struct Store {
    pub tables: Tables,
    pub open_replicas: OpenSet,
    pub committed: Ghost<TablesV>,
}

/// same live contents (tables of the current transaction, open replicas)
pub open spec fn same_data(a: Store, b: Store) -> bool { a.tables == b.tables && a.open_replicas == b.open_replicas }
/// nothing became durable, or exactly the contents at that moment did
pub open spec fn commit_step(a: Store, b: Store) -> bool { b.committed@ == a.committed@ || b.committed@ == tv(a.tables) }

impl Store {
    #[verifier::external_body]
    pub fn modify_begin(&mut self) -> (r: Result<()>)
        ensures same_data(*old(self), *final(self)), commit_step(*old(self), *final(self))
    { unimplemented!() }

    #[verifier::external_body]
    pub fn modify_continue_begin(&mut self) -> (r: Result<()>)
        ensures *final(self) == *old(self)
    { unimplemented!() }

    pub fn tables_mut(&mut self) -> (r: &mut Tables)
        ensures *r == old(self).tables, final(self).open_replicas == old(self).open_replicas, final(self).committed == old(self).committed, *final(r) == final(self).tables
    { &mut self.tables }

    /// `Store::tables()`: read access to the tables of the current transaction (may fail to open it)
    #[verifier::external_body]
    pub fn tables(&mut self) -> (r: Result<&Tables>)
        ensures same_data(*old(self), *final(self)), commit_step(*old(self), *final(self)), r is Ok ==> *r->Ok_0 == old(self).tables
    { unimplemented!() }

    pub fn as_mut(&mut self) -> (r: &mut Store)
        ensures *r == *old(self), *final(r) == *final(self)
    { self }
}
