// ================= trusted prelude (cap): what `HashSet<NamespaceId>` (Store::open_replicas) needs =================
// prelude/ids.rs derives only Clone/Copy/PartialEq/Eq for NamespaceId; src/keys.rs also derives Hash over the 32 bytes.
impl std::hash::Hash for NamespaceId {
    #[verifier::external_body]
    fn hash<H: std::hash::Hasher>(&self, state: &mut H) { unimplemented!() }
}

/// A-std-hash: the derived Hash/Eq of NamespaceId (a newtype over [u8; 32]) are deterministic and consistent, so vstd's
/// HashSet/HashMap model applies to it (same form as vstd's own axioms for the primitive key types).
#[verifier::external_body]
pub broadcast proof fn axiom_namespace_id_obeys_key_model()
    ensures #[trigger] vstd::std_specs::hash::obeys_key_model::<NamespaceId>(),
{ }
