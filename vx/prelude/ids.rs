// ================= prelude: 32-byte ids (same representation as src/keys.rs: newtype over [u8; 32]) =================
#[derive(Clone, Copy, PartialEq, Eq)]
pub struct NamespaceId(pub [u8; 32]);
#[derive(Clone, Copy, PartialEq, Eq)]
pub struct AuthorId(pub [u8; 32]);
impl NamespaceId {
    pub fn to_bytes(&self) -> (r: [u8; 32]) ensures r == self.0 { self.0 }
    pub fn as_bytes(&self) -> (r: &[u8; 32]) ensures *r == self.0 { &self.0 }
}
impl AuthorId {
    pub fn to_bytes(&self) -> (r: [u8; 32]) ensures r == self.0 { self.0 }
    pub fn as_bytes(&self) -> (r: &[u8; 32]) ensures *r == self.0 { &self.0 }
}
