// ================= trusted prelude (policy): `any` / `all` of a slice iterator (A-std) =================
// vstd specifies `<[T]>::iter` (the iterator's `remaining()` are references to the slice elements in order) but not
// the adaptors. Assumed from the std documentation of Iterator::any / Iterator::all: the closure is applied to
// the remaining elements in order, stopping at the first `true` (any) / first `false` (all); the result is `true`
// iff the closure returned `true` for some (any) / every (all) element it was applied to. The closure is pure in
// Verus (no captured mutable state), so the elements it was not applied to do not matter.
// The specification of a trait-impl method may not mention `remaining()` (definition cycle in Verus), hence the
// uninterpreted `slice_iter_rest` tied to `remaining()` by a separate axiom. A trait-impl method may not declare
// `requires`; the closures passed in the verified code have no precondition.

pub uninterp spec fn slice_iter_rest<'a, T>(it: std::slice::Iter<'a, T>) -> Seq<&'a T>;

#[verifier::external_body]
pub broadcast proof fn axiom_slice_iter_rest<'a, T>(it: std::slice::Iter<'a, T>)
    ensures #[trigger] slice_iter_rest(it) == it.remaining()
{}

pub assume_specification<'a, T, F: FnMut(&'a T) -> bool> [ <std::slice::Iter<'a, T> as Iterator>::any ] (it: &mut std::slice::Iter<'a, T>, f: F) -> (r: bool)
    where std::slice::Iter<'a, T>: Sized
    ensures
        r ==> exists|i: int| 0 <= i < slice_iter_rest(*old(it)).len() && f.ensures((#[trigger] slice_iter_rest(*old(it))[i],), true),
        !r ==> forall|i: int| 0 <= i < slice_iter_rest(*old(it)).len() ==> f.ensures((#[trigger] slice_iter_rest(*old(it))[i],), false),
;

pub assume_specification<'a, T, F: FnMut(&'a T) -> bool> [ <std::slice::Iter<'a, T> as Iterator>::all ] (it: &mut std::slice::Iter<'a, T>, f: F) -> (r: bool)
    where std::slice::Iter<'a, T>: Sized
    ensures
        r ==> forall|i: int| 0 <= i < slice_iter_rest(*old(it)).len() ==> f.ensures((#[trigger] slice_iter_rest(*old(it))[i],), true),
        !r ==> exists|i: int| 0 <= i < slice_iter_rest(*old(it)).len() && f.ensures((#[trigger] slice_iter_rest(*old(it))[i],), false),
;
