// ================= trusted prelude: entries as abstract values (used by store-level units) =================
// A SignedEntry is abstractly (id, value) with value = (timestamp, ns signature, author signature, len, hash).
// The accessors below are the assumed contracts of the trivial getters in src/sync.rs.

pub struct EntryV { pub id: RecId, pub val: RecVal }

pub uninterp spec fn empty_hash() -> Seq<u8>;
pub open spec fn val_is_empty(v: RecVal) -> bool { v.hash == empty_hash() }

#[verifier::external_body]
pub struct Hash { _p: u8 }
impl Hash {
    pub uninterp spec fn view(&self) -> Seq<u8>;
    #[verifier::external_body]
    pub fn as_bytes(&self) -> (r: &[u8; 32]) ensures r@ == self@ { unimplemented!() }
}
#[verifier::external_body]
pub struct Signature { _p: u8 }
impl Signature {
    pub uninterp spec fn view(&self) -> Seq<u8>;
    #[verifier::external_body]
    pub fn to_bytes(&self) -> (r: [u8; 64]) ensures r@ == self@ { unimplemented!() }
}
#[verifier::external_body]
pub struct EntrySignature { _p: u8 }
impl EntrySignature {
    pub uninterp spec fn ns_sig(&self) -> Seq<u8>;
    pub uninterp spec fn author_sig(&self) -> Seq<u8>;
    #[verifier::external_body]
    pub fn namespace(&self) -> (r: &Signature) ensures r@ == self.ns_sig() { unimplemented!() }
    #[verifier::external_body]
    pub fn author(&self) -> (r: &Signature) ensures r@ == self.author_sig() { unimplemented!() }
}

#[verifier::external_body]
pub struct RecordIdentifier { _p: u8 }
impl RecordIdentifier {
    pub uninterp spec fn view(&self) -> RecId;
    #[verifier::external_body]
    pub fn namespace(&self) -> (r: NamespaceId) ensures r.0@ == self@.ns { unimplemented!() }
    #[verifier::external_body]
    pub fn author(&self) -> (r: AuthorId) ensures r.0@ == self@.author { unimplemented!() }
    #[verifier::external_body]
    pub fn key(&self) -> (r: &[u8]) ensures r@ == self@.key { unimplemented!() }
    #[verifier::external_body]
    pub fn key_bytes(&self) -> (r: Bytes) ensures r@ == self@.key { unimplemented!() }
    #[verifier::external_body]
    pub fn to_byte_tuple(&self) -> (r: ([u8; 32], [u8; 32], Bytes)) ensures owned_rec(r) == self@ { unimplemented!() }
    #[verifier::external_body]
    pub fn as_byte_tuple(&self) -> (r: (&[u8; 32], &[u8; 32], &[u8])) ensures rid(r) == self@ { unimplemented!() }
    #[verifier::external_body]
    pub fn new(namespace: &[u8; 32], author: &[u8; 32], key: &[u8]) -> (r: RecordIdentifier)
        ensures r@ == (RecId { ns: namespace@, author: author@, key: key@ })
    { unimplemented!() }
}

#[verifier::external_body]
pub struct SignedEntry { _p: u8 }
impl SignedEntry {
    pub uninterp spec fn view(&self) -> EntryV;
    #[verifier::external_body]
    pub fn id(&self) -> (r: &RecordIdentifier) ensures r@ == self@.id { unimplemented!() }
    #[verifier::external_body]
    pub fn content_hash(&self) -> (r: Hash) ensures r@ == self@.val.hash { unimplemented!() }
    #[verifier::external_body]
    pub fn content_len(&self) -> (r: u64) ensures r == self@.val.len { unimplemented!() }
    #[verifier::external_body]
    pub fn timestamp(&self) -> (r: u64) ensures r == self@.val.ts { unimplemented!() }
    #[verifier::external_body]
    pub fn signature(&self) -> (r: &EntrySignature) ensures r.ns_sig() == self@.val.ns_sig, r.author_sig() == self@.val.author_sig { unimplemented!() }
    #[verifier::external_body]
    pub fn is_empty(&self) -> (r: bool) ensures r == val_is_empty(self@.val) { unimplemented!() }
}

/// `into_entry(key, value)` (src/store/fs.rs): rebuilds a SignedEntry from a records row
#[verifier::external_body]
pub fn into_entry(key: RecordsId<'_>, value: RecordsValue<'_>) -> (r: SignedEntry)
    ensures r@ == (EntryV { id: rid(key), val: rval(value) })
{ unimplemented!() }

/// `Record` (value compared by the newest-wins rule): abstractly (hash, len, timestamp)
pub struct RecordV { pub hash: Seq<u8>, pub len: u64, pub ts: u64 }
pub open spec fn rec_of(v: RecVal) -> RecordV { RecordV { hash: v.hash, len: v.len, ts: v.ts } }

#[verifier::external_body]
pub struct Record { _p: u8 }
impl Record {
    pub uninterp spec fn view(&self) -> RecordV;
    #[verifier::external_body]
    pub fn new(hash: Hash, len: u64, timestamp: u64) -> (r: Record)
        ensures r@ == (RecordV { hash: hash@, len: len, ts: timestamp })
    { unimplemented!() }
}
impl From<&[u8; 32]> for Hash {
    #[verifier::external_body]
    fn from(b: &[u8; 32]) -> (r: Hash) ensures r@ == b@ { unimplemented!() }
}
