// ================= trusted prelude: redb transactions as seen by `Store` (src/store/fs.rs) - unit U-tx (A-redb-tx) =================
// The contents of ALL tables of the database are one abstract value `ContentsV`; what the individual tables hold is
// the business of prelude/tables.rs. Modelled: which contents a transaction starts from, what a commit makes durable.
// Trusted (redb): a write transaction starts from the last committed contents, `commit` atomically makes the
// transaction's contents the committed ones or fails leaving them as they were, dropping a write transaction
// without commit discards its writes; a read transaction shows the committed contents at the time it was begun.

/// abstract contents of all tables
pub struct ContentsV { pub id: int }

/// anyhow::Error: opaque (same shell as prelude/head.rs, which this self-contained unit does not include because it
/// imports `std::time::Instant`, while the age check here needs a module-local `Instant`/`Duration` model)
#[verifier::external_body]
pub struct AnyhowError { _p: u8 }
pub type Result<T, E = AnyhowError> = std::result::Result<T, E>;
pub mod anyhow {
    pub type Result<T, E = super::AnyhowError> = std::result::Result<T, E>;
    pub type Error = super::AnyhowError;
}

/// redb error types and their conversion into anyhow::Error (`?`): opaque
#[verifier::external_body]
pub struct TransactionError { _p: u8 }
#[verifier::external_body]
pub struct TableError { _p: u8 }
#[verifier::external_body]
pub struct CommitError { _p: u8 }
impl From<TransactionError> for AnyhowError {
    #[verifier::external_body]
    fn from(e: TransactionError) -> AnyhowError { unimplemented!() }
}
impl From<TableError> for AnyhowError {
    #[verifier::external_body]
    fn from(e: TableError) -> AnyhowError { unimplemented!() }
}
impl From<CommitError> for AnyhowError {
    #[verifier::external_body]
    fn from(e: CommitError) -> AnyhowError { unimplemented!() }
}

/// `std::time::{Duration, Instant}` as far as the age check `w.since.elapsed() > MAX_COMMIT_DELAY` needs them:
/// a duration is a number of milliseconds, `elapsed()` returns an arbitrary duration (the clock is not an input).
#[derive(Clone, Copy)]
pub struct Duration { pub ms: u64 }
impl Duration {
    pub open spec fn spec_from_millis(ms: u64) -> Duration { Duration { ms } }
    #[verifier::when_used_as_spec(spec_from_millis)]
    pub const fn from_millis(ms: u64) -> (r: Duration) ensures r == Self::spec_from_millis(ms) { Duration { ms } }
}
impl PartialEq for Duration {
    fn eq(&self, other: &Duration) -> (r: bool) ensures r == (self.ms == other.ms) { self.ms == other.ms }
}
impl PartialOrd for Duration {
    fn partial_cmp(&self, other: &Duration) -> (r: Option<std::cmp::Ordering>) { self.ms.partial_cmp(&other.ms) }
}
impl vstd::std_specs::cmp::PartialEqSpecImpl for Duration {
    open spec fn obeys_eq_spec() -> bool { true }
    open spec fn eq_spec(&self, other: &Duration) -> bool { self.ms == other.ms }
}
impl vstd::std_specs::cmp::PartialOrdSpecImpl for Duration {
    open spec fn obeys_partial_cmp_spec() -> bool { true }
    open spec fn partial_cmp_spec(&self, other: &Duration) -> Option<std::cmp::Ordering> {
        if self.ms < other.ms { Some(std::cmp::Ordering::Less) } else if self.ms == other.ms { Some(std::cmp::Ordering::Equal) } else { Some(std::cmp::Ordering::Greater) }
    }
}
/// `crate::actor::MAX_COMMIT_DELAY` (`Duration::from_millis(500)` in the source). Hand-written: Verus checks a `const`
/// initialiser in spec mode and rejects the call of the exec `from_millis` there, so the item cannot be extracted.
/// The value plays no role: `elapsed()` is arbitrary, both outcomes of the age check are explored.
pub const MAX_COMMIT_DELAY: Duration = Duration { ms: 500 };
#[derive(Clone, Copy)]
pub struct Instant { pub t: u64 }
impl Instant {
    #[verifier::external_body]
    pub fn elapsed(&self) -> Duration { unimplemented!() }
}

/// `std::mem::take`: returns the old value, leaves `T::default()`
pub assume_specification<T: std::default::Default> [std::mem::take] (x: &mut T) -> (r: T)
    ensures r == *old(x), T::default.ensures((), *final(x));

/// hypothesis "redb reports no storage error" (begin_write / opening the tables / commit all succeed). Used only as the
/// antecedent of clauses that separate a failing OPERATION (its closure returned Err) from a failing storage layer.
pub uninterp spec fn storage_ok() -> bool;

/// `redb::Database`: ghost field = the durable contents (what a store reopened after a crash shows)
pub struct Database { pub committed: Ghost<ContentsV> }
#[verifier::external_body]
pub struct WriteTransaction { _p: u8 }
impl WriteTransaction { pub uninterp spec fn base(&self) -> ContentsV; }
#[verifier::external_body]
pub struct ReadTransaction { _p: u8 }
impl ReadTransaction { pub uninterp spec fn base(&self) -> ContentsV; }
impl Database {
    #[verifier::external_body]
    pub fn begin_write(&self) -> (r: std::result::Result<WriteTransaction, TransactionError>)
        ensures r is Ok ==> r->Ok_0.base() == self.committed@, storage_ok() ==> r is Ok
    { unimplemented!() }
    #[verifier::external_body]
    pub fn begin_read(&self) -> (r: std::result::Result<ReadTransaction, TransactionError>)
        ensures r is Ok ==> r->Ok_0.base() == self.committed@
    { unimplemented!() }
}

/// `Tables` (src/store/fs/tables.rs): the open tables of a write transaction; view = their contents
#[verifier::external_body]
pub struct Tables { _p: u8 }
impl Tables { pub uninterp spec fn view(&self) -> ContentsV; }

/// `ReadOnlyTables`: the tables of a read transaction
#[verifier::external_body]
pub struct ReadOnlyTables { _p: u8 }
impl ReadOnlyTables {
    pub uninterp spec fn view(&self) -> ContentsV;
    #[verifier::external_body]
    pub fn new(tx: ReadTransaction) -> (r: std::result::Result<ReadOnlyTables, TableError>)
        ensures r is Ok ==> r->Ok_0@ == tx.base()
    { unimplemented!() }
}

/// `TransactionAndTables` (self-referential cell: write transaction + its open tables) with the real exec field
/// `since`. View = current contents of the transaction's tables.
#[verifier::external_body]
pub struct TxCell { _p: u8 }
impl TxCell { pub uninterp spec fn contents(&self) -> ContentsV; }
pub struct TransactionAndTables { pub inner: TxCell, pub since: Instant }
impl TransactionAndTables {
    pub open spec fn view(&self) -> ContentsV { self.inner.contents() }

    /// opens the tables of a fresh write transaction: contents = what the transaction started from; `since` = now (arbitrary)
    #[verifier::external_body]
    pub fn new(tx: WriteTransaction) -> (r: std::result::Result<TransactionAndTables, TableError>)
        ensures r is Ok ==> r->Ok_0@ == tx.base(), storage_ok() ==> r is Ok
    { unimplemented!() }

    #[verifier::external_body]
    pub fn tables(&self) -> (r: &Tables)
        ensures r@ == self@
    { unimplemented!() }

    /// runs `f` exactly once on the tables; whatever `f` leaves in them is the transaction's contents afterwards
    /// (also when `f` returns Err); the age is untouched
    #[verifier::external_body]
    pub fn with_tables_mut<T, F: FnOnce(&mut Tables) -> anyhow::Result<T>>(&mut self, f: F) -> (r: anyhow::Result<T>)
        requires forall|x: &mut Tables| (*x)@ == old(self)@ ==> f.requires((x,)),
        ensures
            exists|x: &mut Tables| (*x)@ == old(self)@ && #[trigger] f.ensures((x,), r) && (*final(x))@ == final(self)@,
            final(self).since == old(self).since,
    { unimplemented!() }

    /// `commit(self)` of the real type acts on the database the transaction was begun on (interior mutability of
    /// redb); rule R8c passes that database explicitly so that its ghost durable contents can change:
    /// Ok => exactly this transaction's contents are durable; Err => durable contents unchanged.
    #[verifier::external_body]
    pub fn commit_in(self, db: &mut Database) -> (r: std::result::Result<(), CommitError>)
        ensures
            r is Ok ==> final(db).committed@ == self@,
            r is Err ==> final(db).committed@ == old(db).committed@,
            storage_ok() ==> r is Ok,
    { unimplemented!() }
}

/// `MemPublicKeyStore`: key cache, irrelevant here
#[verifier::external_body]
pub struct MemPublicKeyStore { _p: u8 }
