// ---- trusted shell (heads2): std::collections::BTreeMap as used by src/heads.rs (A-std BTreeMap entry API). Included INSIDE the
// module that holds the extracted `struct AuthorHeads` and its functions, so that the unchanged source text
// `BTreeMap<AuthorId, Timestamp>`, `self.heads.entry(author).and_modify(|t| ..).or_insert(timestamp)` and `self.heads.iter()`
// resolves to this shell (a module-local item shadows the glob-imported std name); nothing outside the module sees it.
// vstd specifies std's BTreeMap (view, get, len, insert, iter) but not `entry` / `Entry::and_modify` / `Entry::or_insert`,
// and an `assume_specification` cannot be given for them from outside vstd (the previous finding, prelude/heads_insert_shell.rs).
// The shell is generic; its abstract view is the finite map `Map<K, V>`. Operations, written from the std documentation:
//   new                       "Makes a new, empty BTreeMap."
//   entry(key)                "Gets the given key's corresponding entry in the map for in-place manipulation."
//   Entry::and_modify(f)      "Provides in-place mutable access to an occupied entry before any potential inserts into the map."
//                             (vacant: untouched; occupied: the value is handed to `f` as `&mut V` exactly once)
//   Entry::or_insert(default) "Ensures a value is in the entry by inserting the default if empty, and returns a mutable
//                             reference to the value in the entry."
//   iter                      "Gets an iterator over the entries of the map, sorted by key." (each entry exactly once)
// The map content when the entry chain is finished is the prophecy `Entry::fin`: the `&mut V` returned by `or_insert` is the
// only handle left on the map; when it is dropped (Verus resolves `*final(r) == *r`) the map is `before` with the slot of `key`
// holding that value, and nothing else changed. ----
#[verifier::external_body]
#[verifier::reject_recursive_types(K)]
#[verifier::reject_recursive_types(V)]
pub struct BTreeMap<K, V> { _k: core::marker::PhantomData<(K, V)> }

/// std::collections::btree_map::Entry
#[verifier::external_body]
#[verifier::reject_recursive_types(K)]
#[verifier::reject_recursive_types(V)]
pub struct Entry<'a, K, V> { _k: core::marker::PhantomData<&'a mut (K, V)> }

// `AuthorHeads` derives Clone / PartialEq / Eq (kept by the extractor): opaque, their results are never inspected
impl<K, V> Clone for BTreeMap<K, V> {
    #[verifier::external_body]
    fn clone(&self) -> Self { unimplemented!() }
}
impl<K, V> PartialEq for BTreeMap<K, V> {
    #[verifier::external_body]
    fn eq(&self, other: &Self) -> bool { unimplemented!() }
}
impl<K, V> Eq for BTreeMap<K, V> {}

impl<K, V> BTreeMap<K, V> {
    pub uninterp spec fn view(&self) -> Map<K, V>;

    #[verifier::external_body]
    pub fn new() -> (r: Self)
        ensures r@ == Map::<K, V>::empty()
    { unimplemented!() }

    #[verifier::external_body]
    pub fn entry(&mut self, key: K) -> (e: Entry<'_, K, V>)
        where K: Ord
        ensures
            e.key() == key,
            e.before() == old(self)@,
            e.slot() == (if old(self)@.contains_key(key) { Some(old(self)@[key]) } else { None::<V> }),
            final(self)@ == e.fin(),
    { unimplemented!() }
}

impl<'a, K, V> Entry<'a, K, V> {
    /// the key the entry was created for
    pub uninterp spec fn key(&self) -> K;
    /// the map when `entry` was called
    pub uninterp spec fn before(&self) -> Map<K, V>;
    /// current value of the slot (None: vacant)
    pub uninterp spec fn slot(&self) -> Option<V>;
    /// prophecy: the map when the entry chain is finished
    pub uninterp spec fn fin(&self) -> Map<K, V>;

    #[verifier::external_body]
    pub fn and_modify<F: FnOnce(&mut V)>(self, f: F) -> (r: Self)
        requires forall|m: &mut V| f.requires((m,)),
        ensures
            r.key() == self.key(), r.before() == self.before(), r.fin() == self.fin(),
            self.slot() is None ==> r.slot() is None,
            self.slot() is Some ==> exists|m: &mut V| *m == self.slot()->Some_0 && #[trigger] f.ensures((m,), ()) && r.slot() == Some(*final(m)),
    { unimplemented!() }

    #[verifier::external_body]
    pub fn or_insert(self, default: V) -> (r: &'a mut V)
        ensures
            self.slot() is Some ==> *r == self.slot()->Some_0,
            self.slot() is None ==> *r == default,
            self.fin() == self.before().insert(self.key(), *final(r)),
    { unimplemented!() }
}

impl BTreeMap<AuthorId, u64> {
    /// the iterator type is std's (`AuthorHeads::iter` names it in its signature); vstd specifies its `remaining()`.
    /// `enumerates`: every row of the map exactly once (the key order is not needed by src/heads.rs and not stated).
    #[verifier::external_body]
    pub fn iter(&self) -> (r: std::collections::btree_map::Iter<'_, AuthorId, u64>)
        ensures
            enumerates(r.remaining(), self@),
            r.obeys_prophetic_iter_laws() && r.decrease() is Some,
    { unimplemented!() }
}
