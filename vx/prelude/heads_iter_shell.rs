// ================= AuthorHeads::iter with the contract proved on the real text in unit U-heads (heads.iter.*) =================
impl AuthorHeads {
    #[verifier::external_body]
    fn iter(&self) -> (r: std::collections::btree_map::Iter<'_, AuthorId, Timestamp>)
        ensures
            enumerates(r.remaining(), self.heads@),
            r.obeys_prophetic_iter_laws() && r.decrease() is Some,
    { unimplemented!() }
}
