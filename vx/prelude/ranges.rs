// ================= trusted prelude: redb range scans over the records table (A-redb) =================
/// `rows` is the ascending sequence of exactly the keys of `m` that lie within the range `inb` (A-redb: what
/// `range(b)` yields)
pub open spec fn is_scan(rows: Seq<RecId>, m: Map<RecId, RecVal>, b: RecBoundsRef) -> bool {
    &&& (forall|i: int, j: int| 0 <= i < j < rows.len() ==> rec_lt(#[trigger] rows[i], #[trigger] rows[j]))
    &&& (forall|i: int| 0 <= i < rows.len() ==> m.contains_key(#[trigger] rows[i]) && b.contains(rows[i]))
    &&& (forall|id: RecId| m.contains_key(id) && b.contains(id) ==> exists|i: int| 0 <= i < rows.len() && #[trigger] rows[i] == id)
}

/// `redb::Range` over the records table. Every item is either the next row or a storage error standing in for it.
#[verifier::external_body]
pub struct RedbRecRange<'a> { _p: std::marker::PhantomData<&'a u8> }

pub type RedbRangeItem = std::result::Result<(RecKeyGuard, RecValGuard), StorageError>;

/// item i of a scan over `rows` of table `m` is row i (or an error)
pub open spec fn item_is_row(it: RedbRangeItem, m: Map<RecId, RecVal>, id: RecId) -> bool {
    it is Ok ==> it->Ok_0.0@ == id && it->Ok_0.1@ == m[id]
}

impl<'a> RedbRecRange<'a> {
    /// table view the scan was opened on
    pub uninterp spec fn table(&self) -> Map<RecId, RecVal>;
    /// ids still to be yielded (front to back)
    pub uninterp spec fn rows(&self) -> Seq<RecId>;

    #[verifier::external_body]
    pub fn next(&mut self) -> (r: Option<RedbRangeItem>)
        ensures
            final(self).table() == old(self).table(),
            old(self).rows().len() == 0 ==> r is None && final(self).rows() == old(self).rows(),
            old(self).rows().len() > 0 ==> r is Some && item_is_row(r->Some_0, old(self).table(), old(self).rows()[0]) && final(self).rows() == old(self).rows().skip(1),
    { unimplemented!() }
}

impl RecordsTbl {
    #[verifier::external_body]
    pub fn range<'a>(&'a self, b: RecBoundsRef) -> (r: std::result::Result<RedbRecRange<'a>, StorageError>)
        ensures r is Ok ==> r->Ok_0.table() == self@ && is_scan(r->Ok_0.rows(), self@, b)
    { unimplemented!() }
}
