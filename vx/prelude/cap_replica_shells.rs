// ================= trusted prelude (cap): opaque fields of ReplicaInfo (src/sync.rs) =================
/// event subscribers: not part of the capability property
#[verifier::external_body]
pub struct Subscribers { _p: u8 }
impl Default for Subscribers {
    #[verifier::external_body]
    fn default() -> Subscribers { unimplemented!() }
}
/// `ContentStatusCallback` = Arc<dyn Fn(Hash) -> BoxFuture<ContentStatus>>: opaque
#[verifier::external_body]
pub struct ContentStatusCallback { _p: u8 }
