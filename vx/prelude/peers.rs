// ================= trusted prelude (peers): multimap operations of the namespace-peers table (A-redb multimap) =================
// The table `NAMESPACE_PEERS_TABLE: MultimapTableDefinition<&[u8; 32], (Nanos, &PeerIdBytes)>` is modelled (prelude/tables.rs)
// as `Map<ns, Set<(nanos, peer)>>`; a key without values does not exist. This file adds the operations the store code calls.
//   * `get(ns)` returns an iterator over the values of `ns` in ASCENDING order of redb's tuple order on (u64, [u8; 32]),
//     i.e. by nanos, ties by the bytes of the peer id; every stored value exactly once. Each item is either the guard of
//     that value or a storage error (positions after an error are never inspected by the code under verification).
//   * `insert(ns, v)` / `remove(ns, v)` add / delete one value; on Err the table is unchanged.
//   * the iterator is double ended (`.rev()` in get_sync_peers): `next_back` yields the same items from the other end.

/// one stored value of the peers multimap: (nanos, peer id bytes)
pub type PeerRow = (u64, Seq<u8>);

/// redb's order on the value type `(u64, &[u8; 32])`: component-wise, u64 numerically, byte arrays lexicographically
pub open spec fn peer_row_lt(a: PeerRow, b: PeerRow) -> bool {
    a.0 < b.0 || (a.0 == b.0 && lex_lt(a.1, b.1))
}

/// `s` lists exactly the values in `set`, strictly ascending
pub open spec fn peers_listing(s: Seq<PeerRow>, set: Set<PeerRow>) -> bool {
    &&& (forall|i: int, j: int| 0 <= i < j < s.len() ==> #[trigger] peer_row_lt(s[i], s[j]))
    &&& (forall|i: int| 0 <= i < s.len() ==> #[trigger] set.contains(s[i]))
    &&& (forall|e: PeerRow| set.contains(e) ==> exists|i: int| 0 <= i < s.len() && #[trigger] s[i] == e)
}

/// access guard of one multimap value
#[verifier::external_body]
pub struct PeerValGuard { _p: u8 }
impl PeerValGuard {
    pub uninterp spec fn view(&self) -> PeerRow;
    #[verifier::external_body]
    pub fn value(&self) -> (r: (u64, &[u8; 32])) ensures r.0 == self@.0, r.1@ == self@.1 { unimplemented!() }
}

pub type PeerItem = std::result::Result<PeerValGuard, StorageError>;

/// the items of a value iterator correspond position by position to the listing `s`
pub open spec fn peer_items_of(items: Seq<PeerItem>, s: Seq<PeerRow>) -> bool {
    &&& items.len() == s.len()
    &&& (forall|i: int| 0 <= i < items.len() && (#[trigger] items[i]) is Ok ==> items[i]->Ok_0@ == s[i])
}

/// the items enumerate `set` ascending
pub open spec fn peer_items_list_set(items: Seq<PeerItem>, set: Set<PeerRow>) -> bool {
    exists|s: Seq<PeerRow>| peers_listing(s, set) && #[trigger] peer_items_of(items, s)
}

/// redb::MultimapValue: iterator over the values of one key
#[verifier::external_body]
pub struct PeerValues { _p: u8 }
impl PeerValues {
    /// the items this iterator will still yield, front to back
    pub uninterp spec fn rest(&self) -> Seq<PeerItem>;
}
impl Iterator for PeerValues {
    type Item = PeerItem;
    #[verifier::external_body]
    fn next(&mut self) -> (r: Option<PeerItem>) { unimplemented!() }
}
impl DoubleEndedIterator for PeerValues {
    #[verifier::external_body]
    fn next_back(&mut self) -> (r: Option<PeerItem>) { unimplemented!() }
}
impl vstd::std_specs::iter::IteratorSpecImpl for PeerValues {
    open spec fn obeys_prophetic_iter_laws(&self) -> bool { true }
    open spec fn remaining(&self) -> Seq<PeerItem> { self.rest() }
    open spec fn will_return_none(&self) -> bool { true }
    open spec fn decrease(&self) -> Option<nat> { Some(self.rest().len()) }
    open spec fn peek(&self, i: int) -> Option<PeerItem> { if 0 <= i < self.rest().len() { Some(self.rest()[i]) } else { None } }
}
impl vstd::std_specs::iter::DoubleEndedIteratorSpecImpl for PeerValues {
    open spec fn peek_back(&self, i: int) -> Option<PeerItem> { if 0 <= i < self.rest().len() { Some(self.rest()[self.rest().len() - 1 - i]) } else { None } }
}

impl PeersTbl {
    /// MultimapTable::get
    #[verifier::external_body]
    pub fn get(&self, key: &[u8; 32]) -> (r: std::result::Result<PeerValues, StorageError>)
        ensures r is Ok ==> peer_items_list_set(r->Ok_0.rest(), self.values(key@)),
    { unimplemented!() }

    /// MultimapTable::insert: returns whether the value was already present
    #[verifier::external_body]
    pub fn insert(&mut self, key: &[u8; 32], value: (u64, &[u8; 32])) -> (r: std::result::Result<bool, StorageError>)
        ensures
            r is Ok ==> final(self)@ == old(self)@.insert(key@, old(self).values(key@).insert((value.0, value.1@))),
            r is Ok ==> r->Ok_0 == old(self).values(key@).contains((value.0, value.1@)),
            r is Err ==> final(self)@ == old(self)@,
    { unimplemented!() }

    /// MultimapTable::remove: returns whether the value was present; a key whose last value is removed disappears
    #[verifier::external_body]
    pub fn remove(&mut self, key: &[u8; 32], value: (u64, &[u8; 32])) -> (r: std::result::Result<bool, StorageError>)
        ensures
            r is Ok ==> final(self)@ == ({
                let rem = old(self).values(key@).remove((value.0, value.1@));
                if rem =~= Set::<PeerRow>::empty() { old(self)@.remove(key@) } else { old(self)@.insert(key@, rem) }
            }),
            r is Ok ==> r->Ok_0 == old(self).values(key@).contains((value.0, value.1@)),
            r is Err ==> final(self)@ == old(self)@,
    { unimplemented!() }
}

// ---- std functions used by register_useful_peer / get_sync_peers that vstd does not specify ----
pub assume_specification<T, E> [ Option::<std::result::Result<T, E>>::transpose ] (o: Option<std::result::Result<T, E>>) -> (r: std::result::Result<Option<T>, E>)
    ensures
        o is None ==> r == Ok::<Option<T>, E>(None),
        o is Some && o->Some_0 is Ok ==> r == Ok::<Option<T>, E>(Some(o->Some_0->Ok_0)),
        o is Some && o->Some_0 is Err ==> r == Err::<Option<T>, E>(o->Some_0->Err_0);

pub assume_specification<T> [ std::mem::drop ] (t: T);

/// `PEERS_PER_DOC_CACHE_SIZE: NonZeroUsize` (src/store.rs): shell with the value 5. The constant itself cannot be extracted:
/// a dual-mode `const` may not call `NonZeroUsize::new` (exec only), and an `exec const` hides its value from callers.
pub struct CacheSizeShell { pub _p: u8 }
impl CacheSizeShell {
    #[verifier::external_body]
    pub fn get(&self) -> (r: usize) ensures r == 5 { unimplemented!() }
}
pub const PEERS_PER_DOC_CACHE_SIZE: CacheSizeShell = CacheSizeShell { _p: 0 };
