// ================= trusted prelude (actor_arms): what the `ReplicaAction::*` arms of `Actor::on_replica_action` call =================
// World: the opaque `Store` of prelude/actor2_shells.rs. Its observable state here is two uninterpreted functions: the live
// contents (`contents()`: tables of the current transaction) and the set of documents the store holds open (`open_set()`).
// Whether a commit happened (C06) is not observable in this world: a store *read* keeps contents and open set (it may commit).

#[verifier::external_body]
pub struct StoreContents { _p: u8 }

/// live contents and open set are the same
pub open spec fn store_same(a: Store, b: Store) -> bool { a.contents() == b.contents() && a.open_set() == b.open_set() }

/// `Author` (src/keys.rs): opaque key pair
#[verifier::external_body]
pub struct Author { _p: u8 }
/// `iroh_blobs::Hash`, `ContentStatus`, `SignedEntry`, `ranger::Message<SignedEntry>`, `SyncOutcome`: opaque payloads
#[verifier::external_body]
pub struct Hash { _p: u8 }
#[verifier::external_body]
pub struct ContentStatus { _p: u8 }
#[verifier::external_body]
pub struct SignedEntry { _p: u8 }
impl SignedEntry {
    pub uninterp spec fn spec_content_len(&self) -> u64;
    #[verifier::external_body]
    pub fn content_len(&self) -> (r: u64) ensures r == self.spec_content_len() { unimplemented!() }
}
#[verifier::external_body]
pub struct ProtocolMessage { _p: u8 }
/// `store::Query` / `store::fs::QueryIterator`: opaque payloads
#[verifier::external_body]
pub struct Query { _p: u8 }
#[verifier::external_body]
pub struct QueryIterator { _p: u8 }
#[verifier::external_body]
pub struct SyncOutcome { _p: u8 }
pub type PeerIdBytes = [u8; 32];

/// `InsertError` (src/sync.rs): opaque here (the arms only propagate it), converts into anyhow::Error
#[verifier::external_body]
pub struct InsertError { _p: u8 }
impl From<InsertError> for AnyhowError {
    #[verifier::external_body]
    fn from(e: InsertError) -> AnyhowError { unimplemented!() }
}
/// `ReadOnly` (extracted in frag/cap-capability.vt) converts into anyhow::Error (thiserror)
impl From<ReadOnly> for AnyhowError {
    #[verifier::external_body]
    fn from(e: ReadOnly) -> AnyhowError { unimplemented!() }
}

/// `std::vec::IntoIter<PeerIdBytes>` (fs.rs `PeersIter`): only `collect()`ed by the GetSyncPeers arm
#[verifier::external_body]
pub struct PeersIter { _p: u8 }
impl PeersIter {
    pub uninterp spec fn view(&self) -> Seq<PeerIdBytes>;
    #[verifier::external_body]
    pub fn collect(self) -> (r: Vec<PeerIdBytes>) ensures r@ == self@ { unimplemented!() }
}

impl Store {
    pub uninterp spec fn contents(&self) -> StoreContents;
    pub uninterp spec fn open_set(&self) -> Set<NamespaceId>;
    /// the author key stored under `id`, if any (a function of the live contents)
    pub uninterp spec fn spec_author(&self, id: AuthorId) -> Option<Author>;
    pub uninterp spec fn spec_sync_peers(&self, ns: NamespaceId) -> Option<Seq<PeerIdBytes>>;
    pub uninterp spec fn spec_exact(&self, ns: NamespaceId, author: AuthorId, key: Seq<u8>, include_empty: bool) -> Option<SignedEntry>;

    /// Store::get_author (fs.rs): a read of the authors table
    #[verifier::external_body]
    pub fn get_author(&mut self, author_id: &AuthorId) -> (r: Result<Option<Author>>)
        ensures store_same(*old(self), *final(self)), r is Ok ==> r->Ok_0 == old(self).spec_author(*author_id)
    { unimplemented!() }

    /// Store::get_sync_peers (fs.rs; verified in U-peers-get): a read of the peers table
    #[verifier::external_body]
    pub fn get_sync_peers(&mut self, namespace: &NamespaceId) -> (r: Result<Option<PeersIter>>)
        ensures
            store_same(*old(self), *final(self)),
            r is Ok ==> (r->Ok_0 is Some <==> old(self).spec_sync_peers(*namespace) is Some),
            r is Ok && r->Ok_0 is Some ==> r->Ok_0->Some_0@ == old(self).spec_sync_peers(*namespace)->Some_0,
    { unimplemented!() }

    /// Store::get_exact (fs.rs; the free fn `get_exact` is verified in U-store): a read of the records table
    #[verifier::external_body]
    pub fn get_exact(&mut self, namespace: NamespaceId, author: AuthorId, key: Bytes, include_empty: bool) -> (r: Result<Option<SignedEntry>>)
        ensures store_same(*old(self), *final(self)), r is Ok ==> r->Ok_0 == old(self).spec_exact(namespace, author, key@, include_empty)
    { unimplemented!() }

    /// Store::get_many (fs.rs: takes a snapshot and builds a QueryIterator; U-tx `snapshot_owned`, U-query-new): ghost log of the calls;
    /// the result is arbitrary. The snapshot may commit pending writes (U-tx), the live contents and the open set do not change.
    pub uninterp spec fn get_many_calls(&self) -> Seq<(NamespaceId, Query)>;
    #[verifier::external_body]
    pub fn get_many(&mut self, namespace: NamespaceId, query: Query) -> (r: Result<QueryIterator>)
        ensures
            final(self).open_set() == old(self).open_set(), final(self).contents() == old(self).contents(),
            final(self).get_many_calls() == old(self).get_many_calls().push((namespace, query)),
    { unimplemented!() }

    /// Store::close_replica (fs.rs; verified in U-cap-import over `open_replicas@`): removes the id from the open set, nothing else
    #[verifier::external_body]
    pub fn close_replica(&mut self, id: NamespaceId)
        ensures final(self).open_set() == old(self).open_set().remove(id), final(self).contents() == old(self).contents()
    { unimplemented!() }

    /// Store::remove_replica (fs.rs; verified in U-rmrep: store.remove_replica.refused-while-open / frame-open-set):
    /// refused without any change while the store holds the document open; never changes the open set
    #[verifier::external_body]
    pub fn remove_replica(&mut self, namespace: &NamespaceId) -> (r: Result<()>)
        ensures
            old(self).open_set().contains(*namespace) ==> r is Err && final(self).contents() == old(self).contents(),
            final(self).open_set() == old(self).open_set(),
    { unimplemented!() }
}

/// `Subscribers` (src/sync.rs; opaque list of senders, prelude/cap_replica_shells.rs): `unsubscribe` (`retain(|s| !same_channel(s, sender))`)
/// yields an uninterpreted function of the old list and the sender; `len` is the number of subscriptions
impl Subscribers {
    pub uninterp spec fn without_sender(self, sender: async_channel::Sender<Event>) -> Subscribers;
    pub uninterp spec fn count(self) -> usize;
    #[verifier::external_body]
    pub fn unsubscribe(&mut self, sender: &async_channel::Sender<Event>)
        ensures *final(self) == old(self).without_sender(*sender)
    { unimplemented!() }
    #[verifier::external_body]
    pub fn len(&self) -> (r: usize) ensures r == self.count() { unimplemented!() }
}

/// `iroh_metrics::Counter`: an atomic counter behind `Arc<Metrics>`. Modelled as a ghost-counted value updated through the
/// actor's exclusive borrow (`&mut self` instead of the atomic `&self`: the call text `this.metrics.x.inc()` is the same);
/// other holders of the Arc (live actor, network) only touch other counters of the group.
#[verifier::external_body]
pub struct Counter { _p: u8 }
impl Counter {
    pub uninterp spec fn view(&self) -> nat;
    #[verifier::external_body]
    pub fn inc(&mut self) -> (r: u64) ensures final(self)@ == old(self)@ + 1 { unimplemented!() }
    #[verifier::external_body]
    pub fn inc_by(&mut self, v: u64) -> (r: u64) ensures final(self)@ == old(self)@ + v { unimplemented!() }
}

/// std::mem::drop: no effect on anything else
pub assume_specification<T> [ std::mem::drop ] (x: T);
