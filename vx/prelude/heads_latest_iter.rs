// ================= trusted prelude: LatestIterator as an iterator shell (A-latest-iter) =================
// `LatestIterator` (src/store/fs.rs) wraps a redb range over the latest-per-author table. Shell: the remaining items
// `rest()` are read one per remaining table key `keys()`; an item is either the row at that key, converted as in
// `LatestIterator::next` ((author, timestamp, key bytes)), or a storage error.
// The step function `LatestIterator::next` and the constructor `LatestIterator::new` are verified on their real text
// against a redb range shell in unit U-heads-latest; this shell states the resulting sequence view.
pub type LatestItem = Result<(AuthorId, u64, Vec<u8>)>;

#[verifier::external_body]
pub struct LatestIterator<'a> { _p: std::marker::PhantomData<&'a u8> }
impl<'a> LatestIterator<'a> {
    pub uninterp spec fn rest(&self) -> Seq<LatestItem>;
    pub uninterp spec fn keys(&self) -> Seq<LatestKey>;
}
impl<'a> Iterator for LatestIterator<'a> {
    type Item = LatestItem;
    #[verifier::external_body]
    fn next(&mut self) -> (r: Option<LatestItem>) { unimplemented!() }
}
impl<'a> vstd::std_specs::iter::IteratorSpecImpl for LatestIterator<'a> {
    open spec fn obeys_prophetic_iter_laws(&self) -> bool { true }
    open spec fn remaining(&self) -> Seq<LatestItem> { self.rest() }
    open spec fn will_return_none(&self) -> bool { true }
    open spec fn decrease(&self) -> Option<nat> { Some(self.rest().len()) }
    open spec fn peek(&self, i: int) -> Option<LatestItem> { if 0 <= i < self.rest().len() { Some(self.rest()[i]) } else { None } }
}

/// the iterator runs over exactly the rows of table `t` whose namespace is `ns`, ascending by author, each once
pub open spec fn latest_iter_over(keys: Seq<LatestKey>, rest: Seq<LatestItem>, t: Map<LatestKey, LatestVal>, ns: Seq<u8>) -> bool {
    &&& rest.len() == keys.len()
    &&& (forall|k: LatestKey| #[trigger] keys.contains(k) <==> (t.contains_key(k) && k.ns =~= ns))
    &&& (forall|i: int, j: int| 0 <= i < j < keys.len() ==> latest_lt(#[trigger] keys[i], #[trigger] keys[j]))
    &&& (forall|i: int| 0 <= i < rest.len() && (#[trigger] rest[i]) is Ok ==> ({
            let (author, ts, key) = rest[i]->Ok_0;
            author.0@ == keys[i].author && ts == t[keys[i]].ts && key@ == t[keys[i]].key
        }))
}

impl Store {
    /// `Store::get_latest_for_each_author` = `LatestIterator::new(&self.tables()?.latest_per_author, namespace)`:
    /// may fail (transaction / range), never changes the store.
    /// The real signature returns `LatestIterator<'_>`, i.e. keeps `self` mutably borrowed while the iterator lives.
    /// The shell drops that lifetime (`'static`): the shell iterator carries its rows as ghost state fixed at creation,
    /// and Verus cannot state a frame condition about `self` while a caller-visible borrow of it is still alive.
    /// Nothing is lost for callers that do not touch the store while iterating (rustc checks exactly that on the real text).
    #[verifier::external_body]
    pub fn get_latest_for_each_author(&mut self, namespace: NamespaceId) -> (r: Result<LatestIterator<'static>>)
        ensures
            *final(self) == *old(self),
            r is Ok ==> latest_iter_over(r->Ok_0.keys(), r->Ok_0.rest(), old(self).tables.latest_per_author@, namespace.0@),
    { unimplemented!() }
}
