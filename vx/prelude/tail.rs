
} // verus!
fn main() {}
