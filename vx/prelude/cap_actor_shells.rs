// ================= trusted prelude (cap-actor): what the `Action::ImportNamespace` arm of `Actor::on_action` touches =================
// (the HashMap of open replicas is prelude/actor2_hashmap.rs; `Store` functions are prelude/cap_actor_store_shell.rs)

/// `anyhow::Context::context` on an `Option<T>`: `Some(v)` becomes `Ok(v)`, `None` becomes `Err(<message>)`
/// (same shell as prelude/actor2_shells.rs, which cannot be included here because it also declares an opaque `Store`)
pub trait Context<T>: Sized {
    spec fn ctx_value(self) -> Option<T>;
    fn context(self, msg: &str) -> (r: Result<T>)
        ensures
            r is Ok <==> self.ctx_value() is Some,
            r is Ok ==> r->Ok_0 == self.ctx_value()->Some_0;
}
impl<T> Context<T> for Option<T> {
    open spec fn ctx_value(self) -> Option<T> { self }
    #[verifier::external_body]
    fn context(self, msg: &str) -> (r: Result<T>) { unimplemented!() }
}

/// fields of `Actor` the arm does not touch: opaque, compared by equality in the frame clause
#[verifier::external_body]
pub struct ActionReceiver { _p: u8 }   // async_channel::Receiver<Action>
#[verifier::external_body]
pub struct JoinSetUnit { _p: u8 }      // tokio JoinSet<()>
#[verifier::external_body]
pub struct ArcMetrics { _p: u8 }       // Arc<Metrics>
