// ================= trusted prelude (policy): additions to the Bytes shell of prelude/bytes.rs (A-bytes) =================
// `bytes::Bytes` dereferences to its byte slice (`impl Deref<Target = [u8]> for Bytes`) and compares with a byte
// slice by content (`impl PartialEq<[u8]> for Bytes`). Both are documented behaviour of the bytes crate.
// (`<[u8]>::starts_with`, slice `==` and `&s[..]` are already specified by vstd.)
impl std::ops::Deref for Bytes {
    type Target = [u8];
    #[verifier::external_body]
    fn deref(&self) -> (r: &[u8]) ensures r@ == self@ { unimplemented!() }
}
impl PartialEq<[u8]> for Bytes {
    #[verifier::external_body]
    fn eq(&self, other: &[u8]) -> (r: bool) ensures r == (self@ =~= other@) { unimplemented!() }
}
impl vstd::std_specs::cmp::PartialEqSpecImpl<[u8]> for Bytes {
    open spec fn obeys_eq_spec() -> bool { true }
    open spec fn eq_spec(&self, other: &[u8]) -> bool { self@ =~= other@ }
}

/// `crate::sync::Entry` as far as the download policy is concerned: it has a key (src/sync.rs `Entry::key`,
/// a plain getter returning `self.id.key()`; not examined)
#[verifier::external_body]
pub struct Entry { _p: u8 }
impl Entry {
    pub uninterp spec fn key_view(&self) -> Seq<u8>;
    #[verifier::external_body]
    pub fn key(&self) -> (r: &[u8]) ensures r@ == self.key_view() { unimplemented!() }
}
