// ================= trusted prelude (heads2): postcard SERIALISATION of `Vec<(Timestamp, AuthorId)>` (A-postcard-heads, part 2) =================
// Continues prelude/heads_postcard.rs (which models `from_bytes` as the partial function `postcard_heads_decodes` /
// `postcard_heads_items`). Serialisation is a deterministic function of the item list: uninterpreted `postcard_heads_enc`.
// Nothing is assumed about the wire format except the two axioms below.
pub uninterp spec fn postcard_heads_enc(items: Seq<(u64, AuthorId)>) -> Seq<u8>;

/// "postcard never reports an error when serialising a list of heads" (into a growable Vec / when only counting bytes).
/// NOT assumed: it only appears as a hypothesis of contract clauses (`postcard_heads_ser_total() ==> ..`), so that the
/// clauses that need it say so. (For this item type postcard has no failing path, but its signatures return `Result`.)
pub uninterp spec fn postcard_heads_ser_total() -> bool;

/// TRUSTED (A-postcard round trip): what `to_stdvec` writes, `from_bytes` reads back as the same list.
#[verifier::external_body]
pub proof fn axiom_postcard_heads_roundtrip(items: Seq<(u64, AuthorId)>)
    ensures
        postcard_heads_decodes(postcard_heads_enc(items)),
        postcard_heads_items(postcard_heads_enc(items)) == items,
{ }

/// TRUSTED (A-postcard monotonicity): appending an item never makes the encoding shorter. (Wire format: varint(length)
/// followed by the items, each `varint(u64)` + 32 bytes; both parts only grow.) Needed for "the newest heads that fit":
/// once a prefix of the list exceeds a limit, every longer prefix does, and the empty list is the shortest encoding.
#[verifier::external_body]
pub proof fn axiom_postcard_heads_enc_monotone(items: Seq<(u64, AuthorId)>, x: (u64, AuthorId))
    ensures postcard_heads_enc(items.push(x)).len() >= postcard_heads_enc(items).len()
{ }
