// ---- trusted shell (heads2): the postcard functions called by `AuthorHeads::encode` / `decode`. Included INSIDE `mod heads`
// (the module-local `postcard` shadows the top-level shell of prelude/heads_postcard.rs, whose `from_bytes` is re-exported
// unchanged). Specified over the uninterpreted encoding of prelude/heads2_enc.rs (A-postcard-heads):
//   to_stdvec(&items)                      Ok(bytes) ==> bytes == enc(items)
//   experimental::serialized_size(&items)  Ok(n)     ==> n == |enc(items)|   (same serialiser run with a byte-counting sink)
// Either may return Err (their signatures say so); `postcard_heads_ser_total()` is the hypothesis "they never do". ----
pub mod postcard {
    use super::*;
    pub use crate::postcard::from_bytes;

    #[verifier::external_body]
    pub fn to_stdvec(value: &Vec<(u64, AuthorId)>) -> (r: std::result::Result<Vec<u8>, PostcardError>)
        ensures
            r is Ok ==> r->Ok_0@ == postcard_heads_enc(value@),
            postcard_heads_ser_total() ==> r is Ok,
    { unimplemented!() }

    pub mod experimental {
        use super::*;
        #[verifier::external_body]
        pub fn serialized_size(value: &Vec<(u64, AuthorId)>) -> (r: std::result::Result<usize, PostcardError>)
            ensures
                r is Ok ==> r->Ok_0 == postcard_heads_enc(value@).len(),
                postcard_heads_ser_total() ==> r is Ok,
        { unimplemented!() }
    }
}
