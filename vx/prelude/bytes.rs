// ================= trusted prelude: bytes::Bytes as an abstract byte string (A-bytes) =================
#[verifier::external_body]
pub struct Bytes { _p: u8 }
impl Bytes {
    pub uninterp spec fn view(&self) -> Seq<u8>;
    #[verifier::external_body]
    pub fn new() -> (r: Bytes) ensures r@ == Seq::<u8>::empty() { unimplemented!() }
    #[verifier::external_body]
    pub fn to_vec(&self) -> (r: Vec<u8>) ensures r@ == self@ { unimplemented!() }
    #[verifier::external_body]
    pub fn len(&self) -> (r: usize) ensures r == self@.len() { unimplemented!() }
    #[verifier::external_body]
    pub fn is_empty(&self) -> (r: bool) ensures r == (self@.len() == 0) { unimplemented!() }
    #[verifier::external_body]
    pub fn as_slice(&self) -> (r: &[u8]) ensures r@ == self@ { unimplemented!() }
}
impl Clone for Bytes {
    #[verifier::external_body]
    fn clone(&self) -> (r: Bytes) ensures r@ == self@ { unimplemented!() }
}
impl From<Vec<u8>> for Bytes {
    #[verifier::external_body]
    fn from(v: Vec<u8>) -> (r: Bytes) ensures r@ == v@ { unimplemented!() }
}
impl PartialEq for Bytes {
    #[verifier::external_body]
    fn eq(&self, other: &Bytes) -> (r: bool) ensures r == (self@ == other@) { unimplemented!() }
}
impl Eq for Bytes {}
