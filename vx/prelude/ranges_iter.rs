// ================= trusted prelude: RecordsRange / chained range iterators (A-redb, A-std) =================
// RecordsRange (src/store/fs/ranges.rs) wraps a redb::Range and maps every row through into_entry.
// Its future items are a prophetic sequence `items()`; `scan()` is the ascending id sequence it was opened on:
// item i is row scan()[i] of table() or a storage error standing in for it.

pub open spec fn entry_is_row(it: Result<SignedEntry>, m: Map<RecId, RecVal>, id: RecId) -> bool {
    it is Ok ==> it->Ok_0@ == (EntryV { id: id, val: m[id] })
}

#[verifier::external_body]
pub struct RecordsRange<'a> { _p: std::marker::PhantomData<&'a u8> }
impl<'a> RecordsRange<'a> {
    pub uninterp spec fn table(&self) -> Map<RecId, RecVal>;
    pub uninterp spec fn ids(&self) -> Seq<RecId>;
    #[verifier::prophetic]
    pub uninterp spec fn items(&self) -> Seq<Result<SignedEntry>>;
    #[verifier::prophetic]
    pub open spec fn wf(&self) -> bool {
        &&& self.items().len() == self.ids().len()
        &&& (forall|i: int| 0 <= i < self.ids().len() ==> entry_is_row(#[trigger] self.items()[i], self.table(), self.ids()[i]))
    }

    /// `RecordsRange::with_bounds(&tables.records, bounds)`: `records.range(bounds.as_ref())` wrapped
    #[verifier::external_body]
    pub fn with_bounds(records: &'a RecordsTbl, bounds: RecordsBounds) -> (r: Result<RecordsRange<'a>>)
        ensures r is Ok ==> r->Ok_0.table() == records@ && is_scan(r->Ok_0.ids(), records@, bounds.as_ref_spec()) && r->Ok_0.wf(),
            forall|id: RecId| #[trigger] bounds.as_ref_spec().contains(id) == bounds.contains(id),
    { unimplemented!() }
}

/// `Chain<RecordsRange, Flatten<option::IntoIter<RecordsRange>>>`: the first scan followed by the optional second one
#[verifier::external_body]
pub struct ChainedRange<'a> { _p: std::marker::PhantomData<&'a u8> }
impl<'a> ChainedRange<'a> {
    pub uninterp spec fn table(&self) -> Map<RecId, RecVal>;
    /// ids of the first scan followed by the ids of the second scan
    pub uninterp spec fn ids(&self) -> Seq<RecId>;
    pub uninterp spec fn first_len(&self) -> int;
    #[verifier::prophetic]
    pub uninterp spec fn items(&self) -> Seq<Result<SignedEntry>>;
    #[verifier::prophetic]
    pub open spec fn wf(&self) -> bool {
        &&& self.items().len() == self.ids().len()
        // size assumption (A-redb): the number of rows of a table fits `usize` (redb counts rows in u64)
        &&& self.ids().len() <= usize::MAX
        &&& 0 <= self.first_len() <= self.ids().len()
        &&& (forall|i: int| 0 <= i < self.ids().len() ==> entry_is_row(#[trigger] self.items()[i], self.table(), self.ids()[i]))
    }
}

/// stands for `iter.chain(Some(iter2).into_iter().flatten())` (rule R8: Verus cannot attach a specification to the
/// provided trait methods Iterator::chain / Iterator::flatten): all items of `iter`, then all items of `iter2` (A-std)
#[verifier::external_body]
pub fn chain_some<'a>(iter: RecordsRange<'a>, iter2: RecordsRange<'a>) -> (r: ChainedRange<'a>)
    requires iter.wf(), iter2.wf(), iter2.table() == iter.table(),
    ensures r.wf(), r.table() == iter.table(), r.first_len() == iter.ids().len(), r.ids() == iter.ids() + iter2.ids(),
{ unimplemented!() }
/// `chain_none(iter)` (src/store/fs.rs): `iter.chain(None.into_iter().flatten())`
#[verifier::external_body]
pub fn chain_none<'a>(iter: RecordsRange<'a>) -> (r: ChainedRange<'a>)
    requires iter.wf(),
    ensures r.wf(), r.table() == iter.table(), r.ids() == iter.ids(), r.first_len() == iter.ids().len(),
{ unimplemented!() }

impl<'a> vstd::std_specs::iter::IteratorSpecImpl for ChainedRange<'a> {
    open spec fn obeys_prophetic_iter_laws(&self) -> bool { true }
    #[verifier::prophetic]
    open spec fn remaining(&self) -> Seq<Result<SignedEntry>> { self.items() }
    #[verifier::prophetic]
    open spec fn will_return_none(&self) -> bool { true }
    open spec fn decrease(&self) -> Option<nat> { Some(self.ids().len()) }
    open spec fn peek(&self, i: int) -> Option<Result<SignedEntry>> { None }
}
impl<'a> Iterator for ChainedRange<'a> {
    type Item = Result<SignedEntry>;
    #[verifier::external_body]
    fn next(&mut self) -> Option<Result<SignedEntry>> { unimplemented!() }
}
