// ================= trusted prelude (valid family, unit U-into-entry) =================
// (needs prelude/bytes.rs, prelude/ids.rs, prelude/valid-core.rs, prelude/stdspecs.rs)

// ---- bytes::BytesMut: only what `RecordIdentifier::new` uses (same assumed contracts as prelude/rid_bytes.rs, bytes docs) ----
#[verifier::external_body]
pub struct BytesMut { _p: u8 }
impl BytesMut {
    pub uninterp spec fn view(&self) -> Seq<u8>;
    /// with_capacity: empty buffer; the capacity is only a hint (BytesMut grows on demand)
    #[verifier::external_body]
    pub fn with_capacity(capacity: usize) -> (r: BytesMut) ensures r@ == Seq::<u8>::empty() { unimplemented!() }
    /// extend_from_slice: appends
    #[verifier::external_body]
    pub fn extend_from_slice(&mut self, extend: &[u8])
        ensures final(self)@ == old(self)@ + extend@
    { unimplemented!() }
    /// freeze: same content, immutable
    #[verifier::external_body]
    pub fn freeze(self) -> (r: Bytes) ensures r@ == self@ { unimplemented!() }
}
/// Rust guarantee for every slice: its byte size is at most isize::MAX (so `32 + 32 + key.len()` cannot overflow usize)
#[verifier::external_body]
pub proof fn axiom_slice_len_bound(s: &[u8])
    ensures s@.len() <= isize::MAX
{}

// ---- iroh_blobs::Hash: `impl From<&[u8; 32]> for Hash` (`Hash(blake3::Hash::from(*value))`: the same 32 bytes) ----
impl From<&[u8; 32]> for Hash {
    fn from(value: &[u8; 32]) -> (r: Hash) ensures r.0 == *value { Hash(*value) }
}
impl vstd::std_specs::convert::FromSpecImpl<&[u8; 32]> for Hash {
    open spec fn obeys_from_spec() -> bool { true }
    open spec fn from_spec(v: &[u8; 32]) -> Hash { Hash(*v) }
}
// spec side of keys.rs `impl From<&[u8; 32]> for NamespaceId / AuthorId` (the exec bodies are extracted in the fragment)
impl vstd::std_specs::convert::FromSpecImpl<&[u8; 32]> for NamespaceId {
    open spec fn obeys_from_spec() -> bool { true }
    open spec fn from_spec(v: &[u8; 32]) -> NamespaceId { NamespaceId(*v) }
}
impl vstd::std_specs::convert::FromSpecImpl<&[u8; 32]> for AuthorId {
    open spec fn obeys_from_spec() -> bool { true }
    open spec fn from_spec(v: &[u8; 32]) -> AuthorId { AuthorId(*v) }
}

// ---- iroh::Signature: `from_bytes(&[u8; 64])` (ed25519: stores R ‖ s verbatim, infallible) and `to_bytes()`;
//      the view of a Signature is these 64 bytes ----
impl Signature {
    #[verifier::external_body]
    pub fn from_bytes(bytes: &[u8; 64]) -> (r: Signature) ensures r@ == bytes@ { unimplemented!() }
    #[verifier::external_body]
    pub fn to_bytes(&self) -> (r: [u8; 64]) ensures r@ == self@ { unimplemented!() }
}
