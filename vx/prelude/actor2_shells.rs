// ================= trusted prelude (actor2): what `OpenReplicas` (src/actor.rs) touches besides the HashMap =================

/// the document store (src/store/fs.rs `Store`): opaque here - `OpenReplicas` only passes the `&mut Store` on
#[verifier::external_body]
pub struct Store { _p: u8 }

/// `Event` (src/sync.rs): the payload of the subscription channel, opaque
#[verifier::external_body]
pub struct Event { _p: u8 }

/// `async_channel::Sender<T>`: opaque
pub mod async_channel {
    use vstd::prelude::*;
    #[verifier::external_body]
    #[verifier::reject_recursive_types(T)]
    pub struct Sender<T> { _p: core::marker::PhantomData<T> }
}

/// `Subscribers::subscribe` (src/sync.rs: `self.0.push(sender)`): the subscriber list after registering `sender` is an
/// uninterpreted function of the old list and the sender (the list itself is opaque, see prelude/cap_replica_shells.rs)
impl Subscribers {
    pub uninterp spec fn with_sender(self, sender: async_channel::Sender<Event>) -> Subscribers;
    #[verifier::external_body]
    pub fn subscribe(&mut self, sender: async_channel::Sender<Event>)
        ensures *final(self) == old(self).with_sender(sender)
    { unimplemented!() }
}

/// `anyhow::Context::context` on an `Option<T>`: `Some(v)` becomes `Ok(v)`, `None` becomes `Err(<message>)`
pub trait Context<T>: Sized {
    spec fn ctx_value(self) -> Option<T>;
    fn context(self, msg: &str) -> (r: Result<T>)
        ensures
            r is Ok <==> self.ctx_value() is Some,
            r is Ok ==> r->Ok_0 == self.ctx_value()->Some_0;
}
impl<T> Context<T> for Option<T> {
    open spec fn ctx_value(self) -> Option<T> { self }
    #[verifier::external_body]
    fn context(self, msg: &str) -> (r: Result<T>) { unimplemented!() }
}
