// appended to a scratch copy of src/store.rs by tools/kx.py
#[cfg(kani)]
mod verif_kani_store_consts {
    use super::*;

    /// The Verus unit U-peers uses a shell of `PEERS_PER_DOC_CACHE_SIZE` whose `get()` is 5 ("at most five peers", C17); the real
    /// constant is built with `NonZeroUsize::new(5)` inside a const `match`, which Verus cannot extract. This harness ties the
    /// shell to the real const (complete: no input).
    #[kani::proof]
    fn peers_cache_size_is_five() {
        assert!(PEERS_PER_DOC_CACHE_SIZE.get() == 5);
    }
}
