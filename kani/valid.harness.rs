// appended to a scratch copy of src/sync.rs by tools/kx.py
#[cfg(kani)]
mod verif_kani_valid {
    use super::*;

    /// The Verus units of the `valid` family use the literal 600_000_000 (ten minutes in microseconds) for
    /// MAX_TIMESTAMP_FUTURE_SHIFT, because Verus cannot evaluate `Duration::from_secs(1).as_micros()` inside a const.
    /// This harness ties the literal to the real const (complete: no input).
    #[kani::proof]
    fn valid_max_shift_value() {
        assert!(MAX_TIMESTAMP_FUTURE_SHIFT == 600_000_000);
        assert!(MAX_TIMESTAMP_FUTURE_SHIFT == 10 * 60 * 1_000_000);
    }
}
