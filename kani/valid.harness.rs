// appended to a scratch copy of src/sync.rs by tools/kx.py
#[cfg(kani)]
mod verif_kani_valid {
    use super::*;

    /// The Verus units of the `valid` family use the literal 600_000_000 (ten minutes in microseconds) for
    /// MAX_TIMESTAMP_FUTURE_SHIFT, because Verus cannot evaluate `Duration::from_secs(1).as_micros()` inside a const.
    /// This harness ties the literal to the real const (complete: no input).
    #[kani::proof]
    fn valid_max_shift_value() {
        assert!(MAX_TIMESTAMP_FUTURE_SHIFT == 600_000_000);
        assert!(MAX_TIMESTAMP_FUTURE_SHIFT == 10 * 60 * 1_000_000);
    }
}

#[cfg(kani)]
mod verif_kani_record_ord {
    use super::*;

    fn lex_cmp(a: &[u8; 32], b: &[u8; 32]) -> Ordering {
        let mut i = 0;
        while i < 32 {
            if a[i] < b[i] { return Ordering::Less; }
            if a[i] > b[i] { return Ordering::Greater; }
            i += 1;
        }
        Ordering::Equal
    }

    /// `impl Ord for Record`: timestamp first, then the 32 hash bytes lexicographically; `len` is ignored
    /// (complete: all timestamps, hashes and lengths)
    #[kani::proof]
    #[kani::unwind(34)]
    fn record_cmp_is_ts_then_hash() {
        let (ha, hb): ([u8; 32], [u8; 32]) = (kani::any(), kani::any());
        let a = Record { hash: Hash::from_bytes(ha), len: kani::any(), timestamp: kani::any() };
        let b = Record { hash: Hash::from_bytes(hb), len: kani::any(), timestamp: kani::any() };
        let expect = if a.timestamp() < b.timestamp() { Ordering::Less }
            else if a.timestamp() > b.timestamp() { Ordering::Greater }
            else { lex_cmp(&ha, &hb) };
        assert!(a.cmp(&b) == expect);
        assert!(a.partial_cmp(&b) == Some(expect));
        assert!((a <= b) == (expect != Ordering::Greater));
        assert!((a >= b) == (expect != Ordering::Less));
        kani::cover!(expect == Ordering::Less);
        kani::cover!(expect == Ordering::Equal && a.content_len() != b.content_len());
    }
}

#[cfg(kani)]
mod verif_kani_cap_kind {
    use super::*;

    /// The on-disk / wire tag of a capability kind (namespaces table column, `Capability::raw`): Write = 1, Read = 2, and
    /// `CapabilityKind::try_from` (num_enum) accepts exactly these two bytes and is the inverse of the cast.
    /// Complete: loop-free over all 256 byte values.
    #[kani::proof]
    fn capability_kind_tags_are_pinned() {
        assert!(CapabilityKind::Write as u8 == 1);
        assert!(CapabilityKind::Read as u8 == 2);
        let b: u8 = kani::any();
        match CapabilityKind::try_from(b) {
            Ok(k) => { assert!(b == 1 || b == 2); assert!(k as u8 == b); }
            Err(_) => { assert!(b != 1 && b != 2); }
        }
        kani::cover!(b == 1);
        kani::cover!(b == 0);
    }
}
