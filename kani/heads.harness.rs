// appended to a scratch copy of src/heads.rs (original text above, untouched)
#[cfg(kani)]
mod verif_kani {
    use super::*;

    fn author(b: u8) -> AuthorId {
        AuthorId::from(&[b; 32])
    }

    /// `insert` is a max-merge: the head of the inserted author becomes max(old head, t) (or t if new),
    /// every other author keeps its head, no author disappears. (This is the contract ASSUMED for `insert` in the
    /// Verus units U-heads-merge / U-heads-store; bounded: at most two authors present before the call.)
    #[kani::proof]
    #[kani::unwind(34)]
    fn heads_insert_max_merge() {
        let b0: u8 = kani::any();
        let b1: u8 = kani::any();
        let b: u8 = kani::any();
        let t0: u64 = kani::any();
        let t1: u64 = kani::any();
        let t: u64 = kani::any();
        let n: u8 = 2;
        let mut heads = AuthorHeads::default();
        heads.heads.insert(author(b0), t0);
        heads.heads.insert(author(b1), t1);
        let before = heads.clone();
        heads.insert(author(b), t);
        let expect = match before.get(&author(b)) {
            Some(old) => if old > t { old } else { t },
            None => t,
        };
        assert!(heads.get(&author(b)) == Some(expect));
        // frame: the other (possible) authors
        if b0 != b { assert!(heads.get(&author(b0)) == before.get(&author(b0))); }
        if b1 != b { assert!(heads.get(&author(b1)) == before.get(&author(b1))); }
        let x: u8 = kani::any();
        if x != b { assert!(heads.get(&author(x)) == before.get(&author(x))); }
        assert!(heads.len() == before.len() + if before.get(&author(b)).is_some() { 0 } else { 1 });
        kani::cover!(before.get(&author(b)).is_some() && t > before.get(&author(b)).unwrap());
        kani::cover!(before.get(&author(b)).is_some() && t < before.get(&author(b)).unwrap());
        kani::cover!(before.get(&author(b)).is_none() && n == 2);
    }

    /// same contract, concrete author ids (1, 2 present; 1 or 3 inserted), symbolic timestamps only
    #[kani::proof]
    #[kani::unwind(34)]
    fn heads_insert_max_concrete_authors() {
        let t0: u64 = kani::any();
        let t1: u64 = kani::any();
        let t: u64 = kani::any();
        let mut heads = AuthorHeads::default();
        heads.heads.insert(author(1), t0);
        heads.heads.insert(author(2), t1);
        let mut h1 = heads.clone();
        h1.insert(author(1), t);
        assert!(h1.get(&author(1)) == Some(if t0 > t { t0 } else { t }));
        assert!(h1.get(&author(2)) == Some(t1));
        assert!(h1.len() == 2);
        let mut h3 = heads.clone();
        h3.insert(author(3), t);
        assert!(h3.get(&author(3)) == Some(t));
        assert!(h3.get(&author(1)) == Some(t0));
        assert!(h3.get(&author(2)) == Some(t1));
        assert!(h3.len() == 3);
        kani::cover!(t > t0);
        kani::cover!(t < t0);
    }

    fn two_heads() -> (AuthorHeads, [(u8, u64); 2], usize) {
        let b0: u8 = kani::any();
        let b1: u8 = kani::any();
        let t0: u64 = kani::any();
        let t1: u64 = kani::any();
        let n: usize = kani::any();
        kani::assume(n <= 2);
        kani::assume(n < 2 || b0 != b1);
        let mut heads = AuthorHeads::default();
        if n >= 1 { heads.heads.insert(author(b0), t0); }
        if n >= 2 { heads.heads.insert(author(b1), t1); }
        (heads, [(b0, t0), (b1, t1)], n)
    }

    /// encode without a size limit keeps every author (also when two authors share a timestamp); decode returns the same heads.
    /// bounded: at most two authors.
    #[kani::proof]
    #[kani::unwind(34)]
    fn heads_encode_unlimited_roundtrip() {
        let (heads, items, n) = two_heads();
        let encoded = heads.encode(None).unwrap();
        let decoded = AuthorHeads::decode(&encoded).unwrap();
        assert!(decoded.len() == n);
        if n >= 1 { assert!(decoded.get(&author(items[0].0)) == Some(items[0].1)); }
        if n >= 2 { assert!(decoded.get(&author(items[1].0)) == Some(items[1].1)); }
        kani::cover!(n == 2 && items[0].1 == items[1].1);
        kani::cover!(n == 2 && items[0].1 < items[1].1);
    }

    /// encode with a size limit never exceeds it, and what it keeps is a newest-first prefix of the (timestamp, author)
    /// descending order: a dropped head is never newer than a kept one. bounded: at most two authors.
    #[kani::proof]
    #[kani::unwind(34)]
    fn heads_encode_limited() {
        let (heads, items, n) = two_heads();
        let limit: usize = kani::any();
        kani::assume(limit <= 100);
        let encoded = heads.encode(Some(limit)).unwrap();
        assert!(encoded.len() <= limit);
        let decoded = AuthorHeads::decode(&encoded).unwrap();
        assert!(decoded.len() <= n);
        let k0 = n >= 1 && decoded.get(&author(items[0].0)).is_some();
        let k1 = n >= 2 && decoded.get(&author(items[1].0)).is_some();
        if k0 { assert!(decoded.get(&author(items[0].0)) == Some(items[0].1)); }
        if k1 { assert!(decoded.get(&author(items[1].0)) == Some(items[1].1)); }
        assert!(decoded.len() == (k0 as usize) + (k1 as usize));
        if n == 2 {
            // kept one, dropped the other: the kept one is the greater (timestamp, author) pair
            if k0 && !k1 { assert!((items[0].1, items[0].0) > (items[1].1, items[1].0)); }
            if k1 && !k0 { assert!((items[1].1, items[1].0) > (items[0].1, items[0].0)); }
        }
        kani::cover!(n == 2 && k0 && !k1);
        kani::cover!(n == 2 && k0 && k1);
        kani::cover!(n == 2 && !k0 && !k1);
    }
}
