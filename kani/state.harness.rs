// appended to a scratch copy of src/engine/state.rs by tools/kx.py
#[cfg(kani)]
mod verif_kani_state {
    use super::*;

    fn key(bytes: [u8; 32]) -> EndpointId {
        // EndpointId = iroh::PublicKey = newtype over CompressedEdwardsY = newtype over [u8; 32]. Any 32 bytes are used
        // (a superset of the valid curve points), so no ed25519 arithmetic runs under CBMC.
        unsafe { std::mem::transmute::<[u8; 32], EndpointId>(bytes) }
    }

    /// tie-break of two simultaneous dials: for distinct ids exactly one side answers Accept (complete: all 2 x 32 bytes)
    #[kani::proof]
    #[kani::unwind(34)]
    fn dir_antisymmetric() {
        let a: [u8; 32] = kani::any();
        let b: [u8; 32] = kani::any();
        kani::assume(a != b);
        let (ka, kb) = (key(a), key(b));
        let ab = matches!(expected_sync_direction(&ka, &kb), SyncDirection::Accept);
        let ba = matches!(expected_sync_direction(&kb, &ka), SyncDirection::Accept);
        assert!(ab != ba);
        kani::cover!(ab);
        kani::cover!(ba);
    }
}
