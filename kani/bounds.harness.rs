// appended to a scratch copy of src/store/fs/bounds.rs by tools/kx.py
#[cfg(kani)]
mod verif_kani {
    use super::*;

    /// spec: same-length big-endian +1; false iff all bytes 0xFF (then result all zero)
    fn check_incr(old: &[u8], new: &[u8], r: bool) {
        assert!(old.len() == new.len());
        let n = old.len();
        let mut all_ff = true;
        let mut i = 0;
        while i < n { if old[i] != 255 { all_ff = false; } i += 1; }
        assert!(r == !all_ff);
        if !r {
            let mut i = 0;
            while i < n { assert!(new[i] == 0); i += 1; }
        } else {
            // j = last index with old[j] != 255
            let mut j = n;
            let mut i = 0;
            while i < n { if old[i] != 255 { j = i; } i += 1; }
            assert!(j < n);
            assert!(new[j] == old[j] + 1);
            let mut i = 0;
            while i < n {
                if i < j { assert!(new[i] == old[i]); }
                if i > j { assert!(old[i] == 255 && new[i] == 0); }
                i += 1;
            }
        }
    }

    /// complete for the fixed width used for namespace and author ids
    #[kani::proof]
    #[kani::unwind(34)]
    fn incr32() {
        let old: [u8; 32] = kani::any();
        let mut v = old;
        let r = increment_by_one(&mut v);
        check_incr(&old, &v, r);
        kani::cover!(r);
        kani::cover!(!r);
    }

    /// bounded: variable length up to 6 bytes
    #[kani::proof]
    #[kani::unwind(8)]
    fn incr_var() {
        let old: [u8; 6] = kani::any();
        let len: usize = kani::any();
        kani::assume(len <= 6);
        let mut v = old;
        let r = increment_by_one(&mut v[..len]);
        check_incr(&old[..len], &v[..len], r);
        let mut i = len;
        while i < 6 { assert!(v[i] == old[i]); i += 1; }
        kani::cover!(r && len == 6);
        kani::cover!(!r && len > 0);
    }
}
