// appended to a scratch copy of src/ranger.rs by tools/kx.py
#[cfg(kani)]
mod verif_kani_ranger {
    use super::*;

    /// Fingerprint ^= is the byte-wise XOR of the 32 bytes (complete: all inputs)
    #[kani::proof]
    #[kani::unwind(34)]
    fn fingerprint_xor_bytewise() {
        let a: [u8; 32] = kani::any();
        let b: [u8; 32] = kani::any();
        let mut fa = Fingerprint(a);
        fa ^= Fingerprint(b);
        let mut i = 0;
        while i < 32 {
            assert!(fa.0[i] == a[i] ^ b[i]);
            i += 1;
        }
        kani::cover!(fa.0[0] != a[0]);
    }
}
