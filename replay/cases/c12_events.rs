// target: src/sync.rs
// labels: valid.insert_entry.* valid.remote.* valid.insert.* valid.delete.* sync.subscribers.* recon.gate.*
// tier: quick
// bound: one document, two replicas (alice writes, bob receives), three subscribers on bob of which the middle one is dropped without
// unsubscribing and another is unsubscribed later; 6 entries on the direct remote-insert path (2 superseded, 1 malformed) and a
// reconciliation session carrying 4 entries (1 superseded by a local write, 1 malformed). Every live subscriber must see exactly one
// RemoteInsert per applied entry, in application order, and nothing for rejected entries. Second part: a slow subscriber (capacity-1 channel)
// next to a fast one: both see all five applied entries in order, none is dropped for back-pressure.
#[cfg(test)]
mod verif_rp_c12_events {
    use super::*;
    use crate::store::Store;

    fn drain(rx: &async_channel::Receiver<Event>) -> Vec<(Vec<u8>, u64)> {
        let mut out = vec![];
        while let Ok(ev) = rx.try_recv() {
            match ev {
                Event::RemoteInsert { entry, .. } => out.push((entry.key().to_vec(), entry.timestamp())),
                Event::LocalInsert { entry, .. } => out.push((entry.key().to_vec(), entry.timestamp())),
            }
        }
        out
    }

    #[tokio::test]
    async fn one_event_per_applied_entry_for_every_live_subscriber() {
        let mut rng = rand::rng();
        let a = Author::new(&mut rng);
        let ns = NamespaceSecret::new(&mut rng);
        let base = system_time_now() - 1_000_000;
        let mk = |k: &[u8], ts: u64, hash: Hash, len: u64| SignedEntry::from_parts(&ns, &a, k, Record { hash, len, timestamp: base + ts });
        let h = Hash::new(b"x");
        let mut bob_store = Store::memory();
        let mut bob = bob_store.new_replica(ns.clone()).unwrap();
        let (tx1, rx1) = async_channel::bounded(64);
        let (tx2, rx2) = async_channel::bounded(64);
        let (tx3, rx3) = async_channel::bounded(64);
        bob.info.subscribe(tx1.clone());
        bob.info.subscribe(tx2);
        bob.info.subscribe(tx3.clone());
        let mut applied: Vec<(Vec<u8>, u64)> = vec![];
        // direct path
        let direct: Vec<(SignedEntry, bool)> = vec![
            (mk(b"k1", 10, h, 1), true), (mk(b"k1", 5, h, 1), false) /* superseded */, (mk(b"k2", 11, Hash::EMPTY, 3), false) /* malformed */,
            (mk(b"k", 12, Hash::EMPTY, 0), true) /* marker prunes k1 */, (mk(b"k3", 4, h, 1), false) /* under newer marker */, (mk(b"z", 13, h, 1), true),
        ];
        let mut dropped_rx2 = Some(rx2);
        for (i, (e, ok)) in direct.into_iter().enumerate() {
            if i == 3 { dropped_rx2.take(); } // subscriber 2 goes away without unsubscribing
            let key = e.key().to_vec(); let ts = e.timestamp();
            let res = bob.insert_remote_entry(e, [7u8; 32], ContentStatus::Missing).await;
            assert_eq!(res.is_ok(), ok, "WITNESS remote insert of key {key:02x?} ts {} returned {res:?}", ts - base);
            if ok { applied.push((key, ts)); }
        }
        assert_eq!(drain(&rx1), applied, "WITNESS subscriber 1 events after the direct inserts");
        assert_eq!(drain(&rx3), applied, "WITNESS subscriber 3 (registered after a dropped subscriber) events after the direct inserts");
        // reconciliation path: alice holds 4 entries, one malformed, one older than what bob has
        let mut alice_store = Store::memory();
        let mut alice = alice_store.new_replica(ns.clone()).unwrap();
        for e in [mk(b"r1", 20, h, 1), mk(b"r2", 21, h, 1), mk(b"z", 3, h, 1) /* older than bob's z */, mk(b"bad", 22, Hash::EMPTY, 5) /* malformed */] {
            use crate::ranger::Store as _;
            alice.store.put(e).unwrap();
        }
        bob.info.unsubscribe(&tx1);
        let mut sa = SyncOutcome::default();
        let mut sb = SyncOutcome::default();
        let mut msg = alice.sync_initial_message().unwrap();
        for _round in 0..20 {
            let Some(reply) = bob.sync_process_message(msg, [1u8; 32], &mut sb).await.unwrap() else { break };
            let Some(next) = alice.sync_process_message(reply, [2u8; 32], &mut sa).await.unwrap() else { break };
            msg = next;
        }
        let mut got3 = drain(&rx3);
        got3.sort();
        let mut want = vec![(b"r1".to_vec(), base + 20), (b"r2".to_vec(), base + 21)];
        want.sort();
        assert_eq!(got3, want, "WITNESS subscriber 3 events after the reconciliation session (malformed and superseded entries must not be announced)");
        assert_eq!(drain(&rx1), vec![], "WITNESS unsubscribed subscriber 1 still receives events");
        assert_eq!(bob.info.subscribers_count(), 1, "WITNESS subscriber bookkeeping: expected only subscriber 3 to remain");
    }

    /// A slow subscriber (capacity-1 channel, reading with a delay) and a fast one: both see every applied entry exactly once, in order;
    /// the slow one is not silently unsubscribed because its channel was momentarily full.
    #[tokio::test]
    async fn a_slow_subscriber_loses_nothing() {
        let mut rng = rand::rng();
        let a = Author::new(&mut rng);
        let ns = NamespaceSecret::new(&mut rng);
        let base = system_time_now() - 1_000_000;
        let h = Hash::new(b"x");
        let mut store = Store::memory();
        let mut bob = store.new_replica(ns.clone()).unwrap();
        let (slow_tx, slow_rx) = async_channel::bounded(1);
        let (fast_tx, fast_rx) = async_channel::bounded(64);
        bob.info.subscribe(slow_tx);
        bob.info.subscribe(fast_tx);
        let reader = tokio::task::spawn(async move {
            let mut seen = vec![];
            while let Ok(ev) = slow_rx.recv().await {
                if let Event::RemoteInsert { entry, .. } = ev { seen.push(entry.key().to_vec()); }
                tokio::time::sleep(std::time::Duration::from_millis(5)).await;
                if seen.len() == 5 { break; }
            }
            seen
        });
        let mut want = vec![];
        for i in 0..5u64 {
            let key = format!("k{i}").into_bytes();
            let e = SignedEntry::from_parts(&ns, &a, &key, Record { hash: h, len: 1, timestamp: base + i });
            let res = tokio::time::timeout(std::time::Duration::from_secs(40), bob.insert_remote_entry(e, [7u8; 32], ContentStatus::Missing)).await;
            assert!(matches!(res, Ok(Ok(_))), "WITNESS remote insert {i} with a slow subscriber: {res:?}");
            want.push(key);
        }
        let seen = tokio::time::timeout(std::time::Duration::from_secs(40), reader).await.expect("WITNESS the slow subscriber never received all events").unwrap();
        assert_eq!(seen, want, "WITNESS the slow subscriber (capacity-1 channel) saw {seen:?}, applied were {want:?}");
        let mut fast = vec![];
        while let Ok(ev) = fast_rx.try_recv() { if let Event::RemoteInsert { entry, .. } = ev { fast.push(entry.key().to_vec()); } }
        assert_eq!(fast, want, "WITNESS the fast subscriber saw {fast:?}");
        assert_eq!(bob.info.subscribers_count(), 2, "WITNESS a subscriber was dropped because its channel was full");
    }
}
