// target: src/ticket.rs
// labels: ticket.decode.* ticket.new.*
// tier: quick
// bound: every ticket over capability {read, write} x node lists of length 0..=3 over {id only, id + relay url, id + ip address, id + both}
// (170 tickets): byte and string forms must decode to the same ticket; exactly the tickets without any node are rejected; every proper prefix of
// the byte form and the byte form with one flipped byte either fails or decodes without panicking (serde/postcard are outside the verifiers).
#[cfg(test)]
mod verif_rp_c09_ticket {
    use std::str::FromStr;

    use iroh::{PublicKey, SecretKey};

    use super::*;
    use crate::{NamespaceId, NamespaceSecret};

    fn node(seed: u8) -> PublicKey { SecretKey::from_bytes(&[seed; 32]).public() }
    fn addr(kind: usize, seed: u8) -> EndpointAddr {
        let a = EndpointAddr::new(node(seed));
        match kind {
            0 => a,
            1 => a.with_relay_url("https://relay.example.org".parse().unwrap()),
            2 => a.with_ip_addr("127.0.0.1:4433".parse().unwrap()),
            _ => a.with_relay_url("https://relay.example.org".parse().unwrap()).with_ip_addr("[::1]:7".parse().unwrap()),
        }
    }

    #[test]
    fn tickets_round_trip_and_hostile_bytes_never_panic() {
        let caps = [Capability::Read(NamespaceId::from(&[9u8; 32])), Capability::Write(NamespaceSecret::from_bytes(&[5u8; 32]))];
        let mut lists: Vec<Vec<usize>> = vec![vec![]];
        let mut layer: Vec<Vec<usize>> = vec![vec![]];
        for _ in 0..3 { let mut next = vec![]; for l in &layer { for k in 0..4 { let mut t = l.clone(); t.push(k); next.push(t); } } lists.extend(next.iter().cloned()); layer = next; }
        let mut n = 0;
        for cap in &caps { for kinds in &lists {
            let nodes: Vec<EndpointAddr> = kinds.iter().enumerate().map(|(i, k)| addr(*k, i as u8 + 1)).collect();
            let ticket = DocTicket::new(cap.clone(), nodes.clone());
            let bytes = Ticket::encode_bytes(&ticket);
            let dec = <DocTicket as Ticket>::decode_bytes(&bytes);
            if nodes.is_empty() {
                assert!(dec.is_err(), "WITNESS a ticket without any node decodes: kinds {kinds:?}");
            } else {
                let d = match dec { Ok(d) => d, Err(e) => panic!("WITNESS ticket with nodes of kinds {kinds:?} (0 id only, 1 relay, 2 ip, 3 both) does not decode from its own bytes: {e}") };
                assert_eq!(d.nodes, nodes, "WITNESS nodes change in the byte round trip: {kinds:?}");
                assert_eq!(d.capability.raw(), cap.raw(), "WITNESS capability changes in the byte round trip");
                let s = ticket.to_string();
                let d = match DocTicket::from_str(&s) { Ok(d) => d, Err(e) => panic!("WITNESS ticket with nodes of kinds {kinds:?} does not parse from its own string {s}: {e}") };
                assert_eq!(d.nodes, nodes, "WITNESS nodes change in the string round trip: {kinds:?}");
                assert_eq!(d.capability.raw(), cap.raw());
                assert_eq!(d.to_string(), s);
            }
            for cut in 0..bytes.len() { let _ = <DocTicket as Ticket>::decode_bytes(&bytes[..cut]); }
            for i in 0..bytes.len() { let mut b = bytes.clone(); b[i] ^= 0x81; let _ = <DocTicket as Ticket>::decode_bytes(&b); }
            n += 1;
        } }
        println!("c09_ticket: {n} tickets");
    }
}
