// target: src/actor.rs
// labels: actor.shutdown.* actor.loop.*
// tier: quick
// bound: one store actor, one open document; a burst of n cheap requests (n in {0, 50, 400}), then a shutdown request, then one more request, all
// enqueued without waiting for any answer; repeated 6 times per n (thorough tier: 20 times). Every request that the channel accepted must be answered - with a value or with
// an error - within 40 s (C10: "whenever ... the store actor stops during a session, both sides finish with success or a reported error: they never wait forever").
#[cfg(test)]
mod verif_rp_c10_shutdown_queue {
    use super::*;
    use crate::store::Store;

    #[tokio::test(flavor = "multi_thread", worker_threads = 2)]
    async fn a_request_queued_behind_a_shutdown_request_is_answered() {
        let mut rng = rand::rng();
        let mut stuck = 0usize; let mut answered = 0usize; let mut refused = 0usize;
        let rounds = if std::env::var("VERIF_BX_DEPTH").map(|v| v == "thorough").unwrap_or(false) { 20 } else { 6 };
        for n in [0usize, 50, 400] { for _round in 0..rounds {
            let doc = crate::NamespaceSecret::new(&mut rng);
            let handle = SyncHandle::spawn(Store::memory(), None, "c10q".to_string());
            let ns = handle.import_namespace(crate::Capability::Write(doc.clone())).await.unwrap();
            handle.open(ns, OpenOpts::default()).await.unwrap();
            let mut early = vec![];
            for _ in 0..n {
                let (reply, rx) = oneshot::channel();
                handle.tx.send(Action::Replica(ns, ReplicaAction::GetState { reply })).await.unwrap();
                early.push(rx);
            }
            let (sreply, srx) = oneshot::channel();
            handle.tx.send(Action::Shutdown { reply: Some(sreply) }).await.unwrap();
            let (reply, late_rx) = oneshot::channel();
            let sent = handle.tx.send(Action::Replica(ns, ReplicaAction::GetState { reply })).await;
            let _store = tokio::time::timeout(std::time::Duration::from_secs(40), srx).await.expect("WITNESS the shutdown request itself is not answered");
            for rx in early { let r = tokio::time::timeout(std::time::Duration::from_secs(40), rx).await; assert!(r.is_ok(), "WITNESS a request queued before the shutdown request is never answered"); }
            match sent {
                Err(_) => refused += 1, // the actor had already gone: the caller is told at once
                Ok(()) => match tokio::time::timeout(std::time::Duration::from_secs(40), late_rx).await {
                    Ok(_) => answered += 1, // a value or a closed-channel error: both are "a reported error or success"
                    Err(_) => { stuck += 1; panic!("WITNESS a request that the action channel accepted behind a shutdown request (burst of {n} requests before it) was not answered within 40 s: the caller waits forever"); }
                },
            }
        } }
        println!("c10_shutdown_queue: refused at once {refused}, answered {answered}, never answered {stuck}");
        assert_eq!(stuck, 0, "WITNESS {stuck} request(s) that the action channel accepted behind a shutdown request were never answered (the caller waits forever)");
    }
}
