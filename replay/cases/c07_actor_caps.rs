// target: src/actor.rs
// labels: actor.import.* cap.info.merge.*
// tier: quick
// bound: one document, one client of a freshly spawned store actor, every sequence of up to 5 requests (thorough tier: 6) over {import read capability,
// import write capability, open, close, insert_local, delete_prefix, export_secret_key, subscribe-and-count}; replies are compared with the model of
// C07 at actor level: the capability held for the document is Write iff a write capability was ever imported, never goes back to Read; while the document
// is open, local writes and the export of the secret succeed iff that capability is Write (so an upgrade or a read import while open is seen at once, by
// every handle); subscribers of an open document keep receiving one event per applied local write across imports.
#[cfg(test)]
mod verif_rp_c07_actor_caps {
    use super::*;
    use crate::store::Store;
    use crate::{Author, NamespaceSecret};

    #[derive(Clone, Copy, Debug, PartialEq, Eq)]
    enum Op { ImportRead, ImportWrite, Open, Close, Insert, Delete, Export, Subscribe }
    const OPS: [Op; 8] = [Op::ImportRead, Op::ImportWrite, Op::Open, Op::Close, Op::Insert, Op::Delete, Op::Export, Op::Subscribe];

    async fn run_sequence(seq: &[Op], ns: &NamespaceSecret, author: &Author) {
        let mut store = Store::memory();
        store.import_author(author.clone()).unwrap();
        let handle = SyncHandle::spawn(store, None, "verif".to_string());
        let id = ns.id();
        // model: known = a capability row exists; write = it is a write capability; h = open handles; subs = live subscriber channels with expected counts
        let (mut known, mut write, mut h) = (false, false, 0usize);
        let mut subs: Vec<(async_channel::Receiver<crate::sync::Event>, usize)> = vec![];
        for (i, op) in seq.iter().enumerate() {
            let ctx = format!("request {i} ({op:?}) of sequence {seq:?} (document known {known}, write capability {write}, {h} handles)");
            match op {
                Op::ImportRead => {
                    let r = handle.import_namespace(Capability::Read(id)).await;
                    assert!(r.is_ok(), "WITNESS import of a read capability failed: {ctx}: {r:?}");
                    known = true;
                }
                Op::ImportWrite => {
                    let r = handle.import_namespace(Capability::Write(ns.clone())).await;
                    assert!(r.is_ok(), "WITNESS import of the write capability failed: {ctx}: {r:?}");
                    known = true;
                    write = true;
                }
                Op::Open => {
                    let r = handle.open(id, OpenOpts::default()).await;
                    assert_eq!(r.is_ok(), known, "WITNESS open result: {ctx}: {r:?}");
                    if known { h += 1; }
                }
                Op::Close => {
                    let _ = handle.close(id).await;
                    if h > 0 { h -= 1; if h == 0 { subs.clear(); } }
                }
                Op::Insert => {
                    let key = format!("k{i}").into_bytes();
                    let r = handle.insert_local(id, author.id(), key.clone().into(), Hash::new(&key), 1).await;
                    assert_eq!(r.is_ok(), h > 0 && write, "WITNESS local insert returns {r:?} but the document is open with {h} handles and its capability is {}: {ctx}", if write { "write" } else { "read" });
                    if r.is_ok() { for s in subs.iter_mut() { s.1 += 1; } }
                }
                Op::Delete => {
                    let r = handle.delete_prefix(id, author.id(), b"zz".to_vec().into()).await;
                    assert_eq!(r.is_ok(), h > 0 && write, "WITNESS delete_prefix returns {r:?} but open handles {h}, capability {}: {ctx}", if write { "write" } else { "read" });
                    if r.is_ok() { for s in subs.iter_mut() { s.1 += 1; } }
                }
                Op::Export => {
                    let r = handle.export_secret_key(id).await;
                    assert_eq!(r.is_ok(), h > 0 && write, "WITNESS export_secret_key is_ok={} but open handles {h}, capability {}: {ctx}", r.is_ok(), if write { "write" } else { "read" });
                }
                Op::Subscribe => {
                    let (tx, rx) = async_channel::bounded(64);
                    let r = handle.subscribe(id, tx).await;
                    assert_eq!(r.is_ok(), h > 0, "WITNESS subscribe result: {ctx}: {r:?}");
                    if r.is_ok() { subs.push((rx, 0)); }
                }
            }
            // every live subscriber has received exactly the events of the writes applied since it subscribed
            for (n, (rx, want)) in subs.iter().enumerate() {
                assert_eq!(rx.len(), *want, "WITNESS subscriber {n} holds {} events, {want} local writes were applied since it subscribed: after {ctx}", rx.len());
            }
        }
        handle.shutdown().await.unwrap();
    }

    #[tokio::test(flavor = "multi_thread", worker_threads = 8)]
    async fn capability_of_an_open_document_follows_the_imports() {
        let mut rng = rand::rng();
        let ns = NamespaceSecret::new(&mut rng);
        let author = Author::new(&mut rng);
        let depth = if std::env::var("VERIF_BX_DEPTH").map(|v| v == "thorough").unwrap_or(false) { 6 } else { 5 };
        let mut layer: Vec<Vec<Op>> = vec![vec![]];
        for _ in 0..depth {
            let mut next = vec![];
            for sq in &layer { for op in OPS { let mut t = sq.clone(); t.push(op); next.push(t); } }
            layer = next;
        }
        let n = layer.len();
        // the sequences are independent: run them on 8 worker threads
        let chunk = n.div_ceil(8);
        let mut tasks = vec![];
        for part in layer.chunks(chunk) {
            let part: Vec<Vec<Op>> = part.to_vec();
            let (ns, author) = (ns.clone(), author.clone());
            tasks.push(tokio::task::spawn(async move { for sq in &part { run_sequence(sq, &ns, &author).await; } }));
        }
        for t in tasks { if let Err(e) = t.await { std::panic::resume_unwind(e.into_panic()); } }
        println!("c07_actor_caps: {n} sequences of length {depth}");
    }
}
