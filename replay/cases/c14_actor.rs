// target: src/actor.rs
// labels: open.* actor.close.*
// tier: quick
// bound: one document, one client, every sequence of up to 4 requests (thorough tier: 5) over {open, open with sync, close, set_sync(true),
// set_sync(false), insert_local, get_exact, insert_remote, sync_initial_message, get_state} issued through the SyncHandle to a freshly
// spawned actor; replies are compared with the handle-counting model of C14 (usable iff handles > 0, close reports closedness, sync gate,
// sticky enable across opens, failed requests change nothing) and shutdown must hand back a store holding every acknowledged write.
// Second part: after every sequence of up to 4 state-changing requests over {open, open with sync, close, set_sync(true), set_sync(false)} (781
// sequences) each gated request kind {insert_local, delete_prefix, get_exact, get_many, get_sync_peers, export_secret_key, subscribe, get_state: usable iff
// handles > 0; insert_remote, sync_initial_message, sync_process_message: iff handles > 0 and sync enabled} is probed once against the model.
// Third part: shutdown while a get_many reply stream is open and unread returns the store within 40 s, and a later request gets an error.
// Fifth part: with k handles (k in 1..=4) each drop_replica releases one handle; it is refused while other holders remain (they keep reading and writing)
// and erases the document only as the last one.
#[cfg(test)]
mod verif_rp_c14_actor {
    use super::*;
    use crate::store::Store;
    use crate::sync::{ContentStatus, Record, SignedEntry};
    use crate::{Author, NamespaceSecret};

    #[derive(Clone, Copy, Debug, PartialEq, Eq)]
    enum Op { Open, OpenSync, Close, SyncOn, SyncOff, InsertLocal, GetExact, InsertRemote, SyncInit, GetState }
    const OPS: [Op; 10] = [Op::Open, Op::OpenSync, Op::Close, Op::SyncOn, Op::SyncOff, Op::InsertLocal, Op::GetExact, Op::InsertRemote, Op::SyncInit, Op::GetState];

    async fn run_sequence(seq: &[Op], ns: &NamespaceSecret, author: &Author, remote: &Author) {
        let mut store = Store::memory();
        store.import_namespace(ns.clone().into()).unwrap();
        store.import_author(author.clone()).unwrap();
        let handle = SyncHandle::spawn(store, None, "verif".to_string());
        let id = ns.id();
        let (mut h, mut s) = (0usize, false);
        let mut acked: Vec<Vec<u8>> = vec![];
        let base = crate::sync::Record::empty_current().timestamp() - 1_000_000;
        for (i, op) in seq.iter().enumerate() {
            let ctx = format!("request {i} ({op:?}) of sequence {seq:?} with {h} handles, sync {s}");
            match op {
                Op::Open | Op::OpenSync => {
                    let sync = *op == Op::OpenSync;
                    let mut opts = OpenOpts::default();
                    if sync { opts = opts.sync(); }
                    let r = handle.open(id, opts).await;
                    assert!(r.is_ok(), "WITNESS open failed: {ctx}: {r:?}");
                    s = if h == 0 { sync } else { s || sync };
                    h += 1;
                }
                Op::Close => {
                    let r = handle.close(id).await;
                    let want = if h == 0 { true } else { h -= 1; if h == 0 { s = false; } h == 0 };
                    assert_eq!(r.ok(), Some(want), "WITNESS close reply: {ctx}");
                }
                Op::SyncOn | Op::SyncOff => {
                    let v = *op == Op::SyncOn;
                    let r = handle.set_sync(id, v).await;
                    assert_eq!(r.is_ok(), h > 0, "WITNESS set_sync result: {ctx}: {r:?}");
                    if h > 0 { s = v; }
                }
                Op::InsertLocal => {
                    let key = format!("k{i}").into_bytes();
                    let r = handle.insert_local(id, author.id(), key.clone().into(), Hash::new(&key), 1).await;
                    assert_eq!(r.is_ok(), h > 0, "WITNESS insert_local result: {ctx}: {r:?}");
                    if h > 0 { acked.push(key); }
                }
                Op::GetExact => {
                    let r = handle.get_exact(id, author.id(), b"k0".to_vec().into(), true).await;
                    assert_eq!(r.is_ok(), h > 0, "WITNESS get_exact result: {ctx}");
                    if let Ok(v) = r { assert_eq!(v.is_some(), acked.iter().any(|k| k == b"k0"), "WITNESS get_exact does not reflect earlier requests: {ctx}"); }
                }
                Op::InsertRemote => {
                    let key = format!("r{i}").into_bytes();
                    let e = SignedEntry::from_parts(ns, remote, &key, Record::new(Hash::new(&key), 1, base + i as u64));
                    let r = handle.insert_remote(id, e, [3u8; 32], ContentStatus::Missing).await;
                    assert_eq!(r.is_ok(), h > 0 && s, "WITNESS insert_remote result: {ctx}: {r:?}");
                    if h > 0 && s { acked.push(key); }
                }
                Op::SyncInit => {
                    let r = handle.sync_initial_message(id).await;
                    assert_eq!(r.is_ok(), h > 0 && s, "WITNESS sync_initial_message result: {ctx}");
                }
                Op::GetState => {
                    let r = handle.get_state(id).await;
                    assert_eq!(r.is_ok(), h > 0, "WITNESS get_state result: {ctx}");
                    if let Ok(st) = r { assert_eq!((st.handles, st.sync), (h, s), "WITNESS get_state: {ctx}"); }
                }
            }
        }
        let mut store = handle.shutdown().await.unwrap();
        let mut held: Vec<Vec<u8>> = store.get_many(id, crate::store::Query::all()).unwrap().map(|e| e.unwrap().key().to_vec()).collect();
        held.sort();
        acked.sort();
        assert_eq!(held, acked, "WITNESS store handed back by shutdown after {seq:?} does not hold exactly the acknowledged writes");
    }

    #[tokio::test]
    async fn replies_follow_the_handle_counting_model() {
        let mut rng = rand::rng();
        let ns = NamespaceSecret::new(&mut rng);
        let author = Author::new(&mut rng);
        let remote = Author::new(&mut rng);
        let depth = if std::env::var("VERIF_BX_DEPTH").map(|v| v == "thorough").unwrap_or(false) { 5 } else { 4 };
        let mut seqs: Vec<Vec<Op>> = vec![vec![]];
        let mut layer: Vec<Vec<Op>> = vec![vec![]];
        for _ in 0..depth {
            let mut next = vec![];
            for sq in &layer { for op in OPS { let mut t = sq.clone(); t.push(op); next.push(t); } }
            seqs.extend(next.iter().cloned());
            layer = next;
        }
        // only maximal sequences are needed (every prefix is checked on the way)
        let n = layer.len();
        for sq in &layer { run_sequence(sq, &ns, &author, &remote).await; }
        println!("c14_actor: {n} sequences of length {depth}");
    }

    async fn probe_gates(seq: &[Op], ns: &NamespaceSecret, author: &Author, remote: &Author, msg: &crate::ranger::Message<SignedEntry>) {
        let mut store = Store::memory();
        store.import_namespace(ns.clone().into()).unwrap();
        store.import_author(author.clone()).unwrap();
        let handle = SyncHandle::spawn(store, None, "verif".to_string());
        let id = ns.id();
        let (mut h, mut s) = (0usize, false);
        for op in seq {
            match op {
                Op::Open | Op::OpenSync => {
                    let sync = *op == Op::OpenSync;
                    let mut opts = OpenOpts::default();
                    if sync { opts = opts.sync(); }
                    handle.open(id, opts).await.unwrap();
                    s = if h == 0 { sync } else { s || sync };
                    h += 1;
                }
                Op::Close => { let _ = handle.close(id).await; if h > 0 { h -= 1; if h == 0 { s = false; } } }
                Op::SyncOn | Op::SyncOff => { let v = *op == Op::SyncOn; let _ = handle.set_sync(id, v).await; if h > 0 { s = v; } }
                _ => unreachable!(),
            }
        }
        let ctx = format!("after {seq:?} ({h} handles, sync {s})");
        let base = crate::sync::Record::empty_current().timestamp() - 1_000_000;
        let open = h > 0;
        let syncing = h > 0 && s;
        let r = handle.sync_process_message(id, msg.clone(), [4u8; 32], Default::default()).await;
        assert_eq!(r.is_ok(), syncing, "WITNESS sync_process_message usable={} but document syncing={syncing} {ctx}", r.is_ok());
        let r = handle.sync_initial_message(id).await;
        assert_eq!(r.is_ok(), syncing, "WITNESS sync_initial_message usable={} but document syncing={syncing} {ctx}", r.is_ok());
        let e = SignedEntry::from_parts(ns, remote, b"probe-remote", Record::new(Hash::new(b"pr"), 1, base));
        let r = handle.insert_remote(id, e, [3u8; 32], ContentStatus::Missing).await;
        assert_eq!(r.is_ok(), syncing, "WITNESS insert_remote usable={} but document syncing={syncing} {ctx}", r.is_ok());
        let r = handle.insert_local(id, author.id(), b"probe-local".to_vec().into(), Hash::new(b"pl"), 1).await;
        assert_eq!(r.is_ok(), open, "WITNESS insert_local usable={} but document open={open} {ctx}", r.is_ok());
        let r = handle.delete_prefix(id, author.id(), b"zz".to_vec().into()).await;
        assert_eq!(r.is_ok(), open, "WITNESS delete_prefix usable={} but document open={open} {ctx}", r.is_ok());
        let r = handle.get_exact(id, author.id(), b"probe-local".to_vec().into(), true).await;
        assert_eq!(r.is_ok(), open, "WITNESS get_exact usable={} but document open={open} {ctx}", r.is_ok());
        let r = handle.get_sync_peers(id).await;
        assert_eq!(r.is_ok(), open, "WITNESS get_sync_peers usable={} but document open={open} {ctx}", r.is_ok());
        let r = handle.export_secret_key(id).await;
        assert_eq!(r.is_ok(), open, "WITNESS export_secret_key usable={} but document open={open} {ctx}", r.is_ok());
        let (tx, _rx) = async_channel::bounded(8);
        let r = handle.subscribe(id, tx).await;
        assert_eq!(r.is_ok(), open, "WITNESS subscribe usable={} but document open={open} {ctx}", r.is_ok());
        {
            // get_many answers through a stream: the first item is an error iff the document is not open
            let (tx, mut rx) = mpsc::channel(64);
            handle.get_many(id, crate::store::Query::all().into(), tx).await.unwrap();
            let mut items = vec![];
            while let Ok(Some(item)) = rx.recv().await { items.push(item.is_ok()); }
            let usable = items.iter().all(|ok| *ok);
            assert_eq!(usable, open, "WITNESS get_many streams {items:?} (true = entry, false = error) but document open={open} {ctx}");
            if !open { assert_eq!(items, vec![false], "WITNESS get_many on a document that is not open must answer with one error item, got {items:?} {ctx}"); }
        }
        let r = handle.get_state(id).await;
        assert_eq!(r.is_ok(), open, "WITNESS get_state usable={} but document open={open} {ctx}", r.is_ok());
        if let Ok(st) = r { assert_eq!((st.handles, st.sync), (h, s), "WITNESS get_state {ctx}"); }
        handle.shutdown().await.unwrap();
    }

    /// Shutdown while a reply stream (get_many) is still open because its consumer holds the receiver without reading: shutdown must
    /// come back with the store (holding every acknowledged write), and a request sent afterwards must be answered with an error,
    /// not left waiting (C10: "never wait forever" when the actor is stopped; C14: shutdown hands back the store).
    #[tokio::test]
    async fn shutdown_does_not_wait_for_an_unread_reply_stream() {
        let mut rng = rand::rng();
        let ns = NamespaceSecret::new(&mut rng);
        let author = Author::new(&mut rng);
        let mut store = Store::memory();
        store.import_namespace(ns.clone().into()).unwrap();
        store.import_author(author.clone()).unwrap();
        let handle = SyncHandle::spawn(store, None, "verif".to_string());
        let id = ns.id();
        handle.open(id, OpenOpts::default().sync()).await.unwrap();
        for i in 0..100u32 {
            handle.insert_local(id, author.id(), format!("k{i:03}").into_bytes().into(), iroh_blobs::Hash::new(i.to_be_bytes()), 4).await.unwrap();
        }
        let (tx, slow_consumer) = mpsc::channel(1);
        handle.get_many(id, crate::store::Query::all().into(), tx).await.unwrap();
        let stopper = { let h = handle.clone(); tokio::task::spawn(async move { h.shutdown().await }) };
        let stopped = tokio::time::timeout(std::time::Duration::from_secs(40), stopper).await;
        let late = tokio::time::timeout(std::time::Duration::from_secs(40), handle.get_state(id)).await;
        drop(slow_consumer);
        assert!(late.is_ok(), "WITNESS a request sent after shutdown (while a get_many reply stream is open and unread) is never answered");
        assert!(late.unwrap().is_err(), "WITNESS a request sent after shutdown was answered with success");
        let stopped = stopped.expect("WITNESS shutdown does not return within 40 s while a get_many reply stream is open and unread");
        let mut store = stopped.unwrap().unwrap();
        let held = store.get_many(id, crate::store::Query::all()).unwrap().count();
        assert_eq!(held, 100, "WITNESS store handed back by shutdown holds {held} of 100 acknowledged writes");
    }

    /// The two open options are independent: whichever order they are given in, an open with sync and a subscriber enables sync AND registers
    /// the subscriber (first open and additional open alike).
    #[tokio::test]
    async fn open_options_are_independent_of_their_order() {
        let mut rng = rand::rng();
        let ns = NamespaceSecret::new(&mut rng);
        let author = Author::new(&mut rng);
        for first_open in [true, false] { for sync_last in [true, false] {
            let mut store = Store::memory();
            store.import_namespace(ns.clone().into()).unwrap();
            store.import_author(author.clone()).unwrap();
            let handle = SyncHandle::spawn(store, None, "verif".to_string());
            let id = ns.id();
            if !first_open { handle.open(id, OpenOpts::default()).await.unwrap(); }
            let (tx, rx) = async_channel::bounded(8);
            let opts = if sync_last { OpenOpts::default().subscribe(tx).sync() } else { OpenOpts::default().sync().subscribe(tx) };
            handle.open(id, opts).await.unwrap();
            let st = handle.get_state(id).await.unwrap();
            let ctx = format!("(first open: {first_open}; options built as {})", if sync_last { "subscribe().sync()" } else { "sync().subscribe()" });
            assert!(st.sync, "WITNESS open with sync and a subscriber did not enable sync {ctx}");
            assert_eq!(st.subscribers, 1, "WITNESS open with sync and a subscriber registered {} subscribers {ctx}", st.subscribers);
            handle.insert_local(id, author.id(), b"k".to_vec().into(), iroh_blobs::Hash::new(b"v"), 1).await.unwrap();
            assert!(rx.try_recv().is_ok(), "WITNESS the subscriber given at open received no event {ctx}");
            handle.shutdown().await.unwrap();
        } }
    }

    #[tokio::test]
    async fn every_gated_request_follows_the_open_state() {
        let mut rng = rand::rng();
        let ns = NamespaceSecret::new(&mut rng);
        let author = Author::new(&mut rng);
        let remote = Author::new(&mut rng);
        let msg = {
            let mut other = Store::memory();
            let mut r = other.new_replica(ns.clone()).unwrap();
            r.sync_initial_message().unwrap()
        };
        const ST: [Op; 5] = [Op::Open, Op::OpenSync, Op::Close, Op::SyncOn, Op::SyncOff];
        let mut all: Vec<Vec<Op>> = vec![vec![]];
        let mut layer: Vec<Vec<Op>> = vec![vec![]];
        for _ in 0..4 {
            let mut next = vec![];
            for sq in &layer { for op in ST { let mut t = sq.clone(); t.push(op); next.push(t); } }
            all.extend(next.iter().cloned());
            layer = next;
        }
        for sq in &all { probe_gates(sq, &ns, &author, &remote, &msg).await; }
        println!("c14_actor: {} state prefixes probed", all.len());
    }

    /// dropping a document releases ONE handle (like a close) and erases the document only if that was the last one: with k handles (k in 1..=4)
    /// a drop is refused while others hold it, they keep reading and writing, and the k-th drop erases it
    #[tokio::test]
    async fn drop_releases_one_handle_and_erases_only_a_closed_document() {
        let mut rng = rand::rng();
        for k in 1usize..=4 {
            let ns = NamespaceSecret::new(&mut rng);
            let author = Author::new(&mut rng);
            let mut store = Store::memory();
            store.import_namespace(ns.clone().into()).unwrap();
            store.import_author(author.clone()).unwrap();
            let handle = SyncHandle::spawn(store, None, "verif".to_string());
            let id = ns.id();
            for _ in 0..k { handle.open(id, OpenOpts::default()).await.unwrap(); }
            handle.insert_local(id, author.id(), b"first".to_vec().into(), Hash::new(b"first"), 5).await.unwrap();
            for d in 1..=k {
                let r = handle.drop_replica(id).await;
                let left = k - d;
                if left > 0 {
                    assert!(r.is_err(), "WITNESS drop number {d} of a document with {k} handles succeeded although {left} holder(s) remain");
                    let st = handle.get_state(id).await;
                    assert_eq!(st.as_ref().ok().map(|s| s.handles), Some(left), "WITNESS after drop number {d} of {k} handles the document reports {st:?}, expected {left} handle(s)");
                    let got = handle.get_exact(id, author.id(), b"first".to_vec().into(), false).await;
                    assert!(matches!(got, Ok(Some(_))), "WITNESS after a refused drop ({d} of {k}) the acknowledged entry is gone: {got:?}");
                    let w = handle.insert_local(id, author.id(), format!("later{d}").into_bytes().into(), Hash::new(b"x"), 1).await;
                    assert!(w.is_ok(), "WITNESS after a refused drop ({d} of {k}) the remaining holders cannot write: {w:?}");
                } else {
                    assert!(r.is_ok(), "WITNESS the drop by the last holder ({k} handles) is refused: {r:?}");
                    assert!(handle.open(id, OpenOpts::default()).await.is_err(), "WITNESS a dropped document can still be opened");
                }
            }
            handle.shutdown().await.unwrap();
        }
    }
}
