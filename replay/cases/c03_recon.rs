// target: src/sync.rs
// labels: valid.recon.* valid.insert_entry.* valid.sig.* valid.empty.* recon.gate.*
// tier: quick
// bound: one receiving replica (fresh memory store per message), one reconciliation message carrying every sequence of up to 3 entries (thorough
// tier: 4) over 11 entry kinds {valid record, valid deletion marker, valid just below the future bound, content tampered after signing, signatures
// of another entry, author signature by another author, validly signed for another namespace, 11 minutes in the future, empty hash with non-zero
// length, non-empty hash with zero length, identifier of another document signed with the receiving document's namespace key}, as one range-item part and split into two parts at every position; the replica must store, count as
// head, and announce exactly the valid ones, in both parts, at every position; an invalid twin of a valid entry (same key, timestamp and hash) before or after it is never stored. The same entries through the single remote insert get the same verdict,
// and through the store actor (SyncHandle::insert_remote, the gossip path) only the valid ones are counted in the inserted-entries metrics.
#[cfg(test)]
mod verif_rp_c03_recon {
    use super::*;
    use crate::ranger::{Message, MessagePart, Range, RangeItem};
    use crate::store::{Query, Store};

    const KINDS: usize = 11;
    const NAMES: [&str; KINDS] = ["valid", "valid-marker", "valid-near-bound", "tampered", "stolen-signature", "foreign-author-signature", "foreign-namespace", "future", "empty-hash-nonzero-len", "nonempty-hash-zero-len", "foreign-id-signed-with-our-namespace-key"];
    fn is_valid(kind: usize) -> bool { kind < 3 }

    struct Ctx { ns: NamespaceSecret, ns2: NamespaceSecret, author: Author, other: Author, now: u64 }

    fn make(ctx: &Ctx, kind: usize, pos: usize) -> SignedEntry {
        let key = format!("k{pos}").into_bytes();
        let h = Hash::new(&key);
        let rec = |hash: Hash, len: u64, timestamp: u64| Record { hash, len, timestamp };
        match kind {
            0 => SignedEntry::from_parts(&ctx.ns, &ctx.author, &key, rec(h, 3, ctx.now)),
            1 => SignedEntry::from_parts(&ctx.ns, &ctx.author, &key, rec(Hash::EMPTY, 0, ctx.now)),
            2 => SignedEntry::from_parts(&ctx.ns, &ctx.author, &key, rec(h, 3, ctx.now + MAX_TIMESTAMP_FUTURE_SHIFT - 60_000_000)),
            3 => {
                let donor = SignedEntry::from_parts(&ctx.ns, &ctx.author, &key, rec(h, 3, ctx.now));
                SignedEntry::new(donor.signature().clone(), Entry::new(donor.id().clone(), rec(h, 4, ctx.now)))
            }
            4 => {
                let donor = SignedEntry::from_parts(&ctx.ns, &ctx.author, b"donor", rec(h, 3, ctx.now));
                SignedEntry::new(donor.signature().clone(), Entry::new(RecordIdentifier::new(ctx.ns.id(), ctx.author.id(), &key), rec(h, 3, ctx.now)))
            }
            5 => {
                // namespace signature valid, author signature made by another author over the same entry
                let entry = Entry::new(RecordIdentifier::new(ctx.ns.id(), ctx.author.id(), &key), rec(h, 3, ctx.now));
                let good = SignedEntry::from_entry(entry.clone(), &ctx.ns, &ctx.author);
                let forged = SignedEntry::from_entry(entry.clone(), &ctx.ns, &ctx.other);
                let mixed = EntrySignature::from_parts(&good.signature().namespace().to_bytes(), &forged.signature().author().to_bytes());
                SignedEntry::new(mixed, entry)
            }
            6 => SignedEntry::from_parts(&ctx.ns2, &ctx.author, &key, rec(h, 3, ctx.now)),
            7 => SignedEntry::from_parts(&ctx.ns, &ctx.author, &key, rec(h, 3, ctx.now + MAX_TIMESTAMP_FUTURE_SHIFT + 60_000_000)),
            8 => SignedEntry::from_parts(&ctx.ns, &ctx.author, &key, rec(Hash::EMPTY, 5, ctx.now)),
            9 => SignedEntry::from_parts(&ctx.ns, &ctx.author, &key, rec(h, 0, ctx.now)),
            10 => {
                // the identifier names another document, the namespace signature is made with OUR namespace secret
                let entry = Entry::new(RecordIdentifier::new(ctx.ns2.id(), ctx.author.id(), &key), rec(h, 3, ctx.now));
                SignedEntry::from_entry(entry, &ctx.ns, &ctx.author)
            }
            _ => unreachable!(),
        }
    }

    fn message(parts: Vec<Vec<SignedEntry>>) -> Message<SignedEntry> {
        let parts: Vec<MessagePart<SignedEntry>> = parts.into_iter().map(|values| MessagePart::RangeItem(RangeItem {
            range: Range::new(RecordIdentifier::default(), RecordIdentifier::default()),
            values: values.into_iter().map(|e| (e, ContentStatus::Missing)).collect(),
            have_local: true,
        })).collect();
        // Message has one private field `parts`: build it through its serde form (postcard encodes a struct as its fields)
        postcard::from_bytes(&postcard::to_stdvec(&parts).unwrap()).unwrap()
    }

    async fn run(ctx: &Ctx, kinds: &[usize], split: usize) {
        let entries: Vec<SignedEntry> = kinds.iter().enumerate().map(|(i, k)| make(ctx, *k, i)).collect();
        let desc: Vec<&str> = kinds.iter().map(|k| NAMES[*k]).collect();
        let mut store = Store::memory();
        let mut replica = store.new_replica(ctx.ns.clone()).unwrap();
        let (tx, rx) = async_channel::bounded(64);
        replica.info.subscribe(tx);
        let msg = if split == 0 { message(vec![entries.clone()]) } else { message(vec![entries[..split].to_vec(), entries[split..].to_vec()]) };
        let mut outcome = SyncOutcome::default();
        let res = replica.sync_process_message(msg, [7u8; 32], &mut outcome).await;
        assert!(res.is_ok(), "WITNESS reconciliation message {desc:?} (split at {split}) fails as a whole: {res:?}");
        drop(replica);
        store.close_replica(ctx.ns.id());
        let mut announced: Vec<Vec<u8>> = vec![];
        while let Ok(ev) = rx.try_recv() { if let Event::RemoteInsert { entry, .. } = ev { announced.push(entry.key().to_vec()); } }
        announced.sort();
        let mut want: Vec<Vec<u8>> = kinds.iter().enumerate().filter(|(_, k)| is_valid(**k)).map(|(i, _)| format!("k{i}").into_bytes()).collect();
        want.sort();
        let mut stored: Vec<Vec<u8>> = store.get_many(ctx.ns.id(), Query::all().include_empty()).unwrap().map(|e| e.unwrap().key().to_vec()).collect();
        stored.sort();
        let show = |v: &Vec<Vec<u8>>| v.iter().map(|k| String::from_utf8_lossy(k).to_string()).collect::<Vec<_>>();
        assert_eq!(stored, want, "WITNESS reconciliation message with entries {desc:?} at keys k0.. (split into two parts at {split}; 0 = one part): stored {:?}, valid ones are {:?}", show(&stored), show(&want));
        assert_eq!(announced, want, "WITNESS reconciliation message with entries {desc:?} (split at {split}): announced {:?}, valid ones are {:?}", show(&announced), show(&want));
        let foreign = store.get_many(ctx.ns2.id(), Query::all().include_empty()).unwrap().count();
        assert_eq!(foreign, 0, "WITNESS reconciliation message {desc:?}: {foreign} rows written under a foreign namespace");
        let heads: Vec<u64> = store.get_latest_for_each_author(ctx.ns.id()).unwrap().map(|x| x.unwrap().1).collect();
        let want_head = kinds.iter().filter(|k| is_valid(**k)).map(|k| if *k == 2 { ctx.now + MAX_TIMESTAMP_FUTURE_SHIFT - 60_000_000 } else { ctx.now }).max();
        assert_eq!(heads.first().copied(), want_head, "WITNESS reconciliation message {desc:?}: author head {:?} but valid entries give {:?}", heads.first(), want_head);
    }

    #[tokio::test]
    async fn reconciliation_stores_exactly_the_valid_entries_at_every_position() {
        let mut rng = rand::rng();
        let ctx = Ctx { ns: NamespaceSecret::new(&mut rng), ns2: NamespaceSecret::new(&mut rng), author: Author::new(&mut rng), other: Author::new(&mut rng), now: system_time_now() };
        let depth = if std::env::var("VERIF_BX_DEPTH").map(|v| v == "thorough").unwrap_or(false) { 4 } else { 3 };
        let mut layer: Vec<Vec<usize>> = vec![vec![]];
        let mut n = 0usize;
        for _ in 0..depth {
            let mut next = vec![];
            for s in &layer { for k in 0..KINDS { let mut t = s.clone(); t.push(k); next.push(t); } }
            for s in &next { for split in 0..s.len() { run(&ctx, s, split).await; n += 1; } }
            layer = next;
        }
        println!("c03_recon: {n} messages checked");
    }

    /// An invalid copy of a valid entry - same key, timestamp and content hash (so the same fingerprint), but an altered length or the
    /// signatures of another entry - in the same message, before or after the valid one, in the same part or in an earlier part:
    /// the valid entry, and only it, is stored and announced (with its own length and signatures).
    #[tokio::test]
    async fn invalid_twin_of_a_valid_entry_is_never_stored() {
        let mut rng = rand::rng();
        let ctx = Ctx { ns: NamespaceSecret::new(&mut rng), ns2: NamespaceSecret::new(&mut rng), author: Author::new(&mut rng), other: Author::new(&mut rng), now: system_time_now() };
        let key = b"twin".to_vec();
        let h = Hash::new(&key);
        let good = SignedEntry::from_parts(&ctx.ns, &ctx.author, &key, Record { hash: h, len: 3, timestamp: ctx.now });
        let altered_len = SignedEntry::new(good.signature().clone(), Entry::new(good.id().clone(), Record { hash: h, len: 4, timestamp: ctx.now }));
        let donor = SignedEntry::from_parts(&ctx.ns, &ctx.author, b"donor", Record { hash: h, len: 3, timestamp: ctx.now });
        let stolen_sig = SignedEntry::new(donor.signature().clone(), Entry::new(good.id().clone(), Record { hash: h, len: 3, timestamp: ctx.now }));
        for (name, twin) in [("altered length", altered_len), ("signatures of another entry", stolen_sig)] {
            for (layout, parts) in [
                ("twin first, same part", vec![vec![twin.clone(), good.clone()]]),
                ("twin last, same part", vec![vec![good.clone(), twin.clone()]]),
                ("twin in an earlier part", vec![vec![twin.clone()], vec![good.clone()]]),
                ("twin in a later part", vec![vec![good.clone()], vec![twin.clone()]]),
            ] {
                let mut store = Store::memory();
                let mut replica = store.new_replica(ctx.ns.clone()).unwrap();
                let (tx, rx) = async_channel::bounded(8);
                replica.info.subscribe(tx);
                let mut outcome = SyncOutcome::default();
                let res = replica.sync_process_message(message(parts), [7u8; 32], &mut outcome).await;
                assert!(res.is_ok(), "WITNESS message with an invalid twin ({name}; {layout}) fails as a whole: {res:?}");
                drop(replica);
                store.close_replica(ctx.ns.id());
                let stored: Vec<SignedEntry> = store.get_many(ctx.ns.id(), Query::all().include_empty()).unwrap().map(|e| e.unwrap()).collect();
                assert_eq!(stored, vec![good.clone()], "WITNESS message with an invalid twin ({name}; {layout}) of a valid entry: the store holds {stored:?} instead of exactly the valid entry");
                let mut announced = vec![];
                while let Ok(ev) = rx.try_recv() { if let Event::RemoteInsert { entry, .. } = ev { announced.push(entry); } }
                assert_eq!(announced, vec![good.clone()], "WITNESS message with an invalid twin ({name}; {layout}): announced {announced:?} instead of exactly the valid entry");
            }
        }
    }

    #[tokio::test]
    async fn single_remote_insert_gives_the_same_verdict() {
        let mut rng = rand::rng();
        let ctx = Ctx { ns: NamespaceSecret::new(&mut rng), ns2: NamespaceSecret::new(&mut rng), author: Author::new(&mut rng), other: Author::new(&mut rng), now: system_time_now() };
        for kind in 0..KINDS {
            let mut store = Store::memory();
            let mut replica = store.new_replica(ctx.ns.clone()).unwrap();
            let (tx, rx) = async_channel::bounded(8);
            replica.info.subscribe(tx);
            let e = make(&ctx, kind, 0);
            let res = replica.insert_remote_entry(e, [7u8; 32], ContentStatus::Missing).await;
            assert_eq!(res.is_ok(), is_valid(kind), "WITNESS single remote insert of a {} entry returns {res:?}", NAMES[kind]);
            drop(replica);
            store.close_replica(ctx.ns.id());
            let n = store.get_many(ctx.ns.id(), Query::all().include_empty()).unwrap().count() + store.get_many(ctx.ns2.id(), Query::all().include_empty()).unwrap().count();
            assert_eq!(n, is_valid(kind) as usize, "WITNESS single remote insert of a {} entry leaves {n} rows", NAMES[kind]);
            assert_eq!(rx.try_recv().is_ok(), is_valid(kind), "WITNESS single remote insert of a {} entry: announcement does not match validity", NAMES[kind]);
        }
    }

    /// the same ten kinds through the store actor (the path gossip takes): only valid entries are counted as inserted
    #[tokio::test]
    async fn actor_counts_only_valid_remote_inserts() {
        use crate::actor::{OpenOpts, SyncHandle};
        let mut rng = rand::rng();
        let ctx = Ctx { ns: NamespaceSecret::new(&mut rng), ns2: NamespaceSecret::new(&mut rng), author: Author::new(&mut rng), other: Author::new(&mut rng), now: system_time_now() };
        let handle = SyncHandle::spawn(Store::memory(), None, "verif".to_string());
        handle.import_namespace(ctx.ns.clone().into()).await.unwrap();
        let (tx, rx) = async_channel::bounded(64);
        handle.open(ctx.ns.id(), OpenOpts::default().sync().subscribe(tx)).await.unwrap();
        let (mut count, mut size, mut events) = (0u64, 0u64, 0usize);
        for kind in 0..KINDS {
            let e = make(&ctx, kind, kind);
            let len = e.content_len();
            let r = handle.insert_remote(ctx.ns.id(), e, [7u8; 32], ContentStatus::Missing).await;
            assert_eq!(r.is_ok(), is_valid(kind), "WITNESS remote insert of a {} entry through the store actor returns {r:?}", NAMES[kind]);
            if is_valid(kind) { count += 1; size += len; events += 1; }
            assert_eq!(handle.metrics().new_entries_remote.get(), count, "WITNESS after the remote insert of a {} entry the actor counts {} inserted remote entries, {count} were valid", NAMES[kind], handle.metrics().new_entries_remote.get());
            assert_eq!(handle.metrics().new_entries_remote_size.get(), size, "WITNESS after the remote insert of a {} entry the counted size of inserted remote entries is {} instead of {size}", NAMES[kind], handle.metrics().new_entries_remote_size.get());
            assert_eq!(rx.len(), events, "WITNESS after the remote insert of a {} entry the subscriber holds {} events, expected {events}", NAMES[kind], rx.len());
        }
        let mut store = handle.shutdown().await.unwrap();
        let held = store.get_many(ctx.ns.id(), Query::all().include_empty()).unwrap().count();
        assert_eq!(held as u64, count, "WITNESS the store handed back by the actor holds {held} entries, {count} valid ones were inserted");
    }
}
