// target: src/heads.rs
// labels: heads.insert.* heads.encode.* heads.decode.* heads.merge.* heads.has_news_for.*
// tier: quick
// bound: head sets with up to 3 of 4 authors, timestamps in {0, 1, 2, u64::MAX}, every size limit 0..=140 (exhaustive); has_news_for and merge
// over every pair of such head sets (369 x 369); one set of 140 heads with every limit between the sizes of 124 and 132 heads (length prefix 1 -> 2 bytes)
// Concrete small-domain check (NOT a proof) of the parts of src/heads.rs that neither Verus nor Kani could take:
// `AuthorHeads::insert` (BTreeMap entry API; its max-merge contract is ASSUMED by units U-heads-merge / U-heads-store) and
// `AuthorHeads::encode` (BTreeSet::into_iter().rev() + postcard). Exhaustive over all head sets with up to 3 authors out of
// 4 and timestamps out of {0, 1, 2, u64::MAX}, and every size limit 0..=140.
#[cfg(test)]
mod verif_rp_heads_encode {
    use super::*;

    const TS: [u64; 4] = [0, 1, 2, u64::MAX];
    fn authors() -> [AuthorId; 4] {
        [AuthorId::from(&[0u8; 32]), AuthorId::from(&[1u8; 32]), AuthorId::from(&[0xffu8; 32]), {
            let mut b = [0u8; 32];
            b[31] = 1;
            AuthorId::from(&b)
        }]
    }

    /// all maps author -> timestamp with at most 3 of the 4 authors
    fn all_heads() -> Vec<BTreeMap<AuthorId, u64>> {
        let a = authors();
        let mut res = vec![];
        // each author: absent (4) or one of the 4 timestamps
        for code in 0..5usize.pow(4) {
            let mut m = BTreeMap::new();
            let mut c = code;
            for author in a.iter() {
                let d = c % 5;
                c /= 5;
                if d < 4 { m.insert(*author, TS[d]); }
            }
            if m.len() <= 3 { res.push(m); }
        }
        res
    }

    #[test]
    fn insert_is_max_merge() {
        for m in all_heads() {
            for author in authors() {
                for t in TS {
                    let mut h = AuthorHeads { heads: m.clone() };
                    h.insert(author, t);
                    let mut want = m.clone();
                    let new = match m.get(&author) { Some(old) if *old > t => *old, _ => t };
                    want.insert(author, new);
                    assert_eq!(h.heads, want, "WITNESS insert({author:?}, {t}) into {m:?}");
                }
            }
        }
    }

    #[test]
    fn encode_unlimited_roundtrip() {
        for m in all_heads() {
            let h = AuthorHeads { heads: m.clone() };
            let enc = h.encode(None).unwrap();
            let dec = AuthorHeads::decode(&enc).unwrap();
            assert_eq!(dec, h, "WITNESS encode(None)/decode loses heads of {m:?}");
        }
    }

    #[test]
    fn encode_limited_is_newest_prefix_within_limit() {
        for m in all_heads() {
            let h = AuthorHeads { heads: m.clone() };
            let mut order: Vec<(u64, AuthorId)> = m.iter().map(|(a, t)| (*t, *a)).collect();
            order.sort();
            order.reverse();
            let mut last_kept = 0usize;
            for limit in 1..=140usize {
                let enc = match h.encode(Some(limit)) {
                    Ok(enc) => enc,
                    Err(e) => panic!("WITNESS encode(Some({limit})) failed for {m:?}: {e}"),
                };
                assert!(enc.len() <= limit, "WITNESS encode(Some({limit})) of {m:?} has length {}", enc.len());
                let dec = AuthorHeads::decode(&enc).unwrap();
                let k = dec.len();
                let want: AuthorHeads = order[..k].iter().cloned().collect();
                assert_eq!(dec, want, "WITNESS encode(Some({limit})) of {m:?} does not keep the {k} newest heads");
                // "that fit": one more head would exceed the limit
                if k < order.len() {
                    let more: Vec<(u64, AuthorId)> = order[..k + 1].to_vec();
                    assert!(postcard::to_stdvec(&more).unwrap().len() > limit, "WITNESS encode(Some({limit})) of {m:?} dropped a head that fits");
                }
                assert!(k >= last_kept);
                last_kept = k;
            }
            assert_eq!(last_kept, m.len(), "limit 140 must fit 3 heads");
        }
    }

    /// limit 0: the empty list still takes one byte (its length prefix), so "never exceeds the limit" cannot hold;
    /// the function neither reports an error nor stays within the limit (debug builds hit the debug_assert instead)
    #[test]
    fn encode_limit_zero() {
        for m in [BTreeMap::new(), { let mut m = BTreeMap::new(); m.insert(authors()[0], 1u64); m }] {
            let h = AuthorHeads { heads: m.clone() };
            let res = std::panic::catch_unwind(|| h.encode(Some(0)));
            match res {
                Err(_) => panic!("WITNESS encode(Some(0)) of {m:?} panics (debug_assert: encoded length 1 > limit 0)"),
                Ok(Ok(enc)) => assert!(enc.len() <= 0, "WITNESS encode(Some(0)) of {m:?} returns {} byte(s) {enc:02x?}", enc.len()),
                Ok(Err(_)) => {}
            }
        }
    }

    /// has_news_for counts the authors for which we hold something strictly newer than the other side, or that the other side does not know;
    /// merge is the per-author maximum
    #[test]
    fn has_news_for_and_merge_match_definition() {
        let all = all_heads();
        for ours in &all {
            for theirs in &all {
                let a = AuthorHeads { heads: ours.clone() };
                let b = AuthorHeads { heads: theirs.clone() };
                let want = ours.iter().filter(|(author, t)| match theirs.get(*author) { None => true, Some(o) => *t > o }).count() as u64;
                let got = a.has_news_for(&b).map(|n| n.get()).unwrap_or(0);
                assert_eq!(got, want, "WITNESS has_news_for: ours {ours:?} theirs {theirs:?} reports {got} authors with news, definition gives {want}");
                let mut m = AuthorHeads { heads: ours.clone() };
                m.merge(&b);
                let mut wantm = ours.clone();
                for (author, t) in theirs { let e = wantm.entry(*author).or_insert(*t); if *t > *e { *e = *t; } }
                assert_eq!(m.heads, wantm, "WITNESS merge of {theirs:?} into {ours:?}");
            }
        }
    }

    /// the length prefix of the encoded list grows from one to two bytes at 128 heads: every limit around that boundary
    #[test]
    fn encode_limited_around_the_two_byte_length_prefix() {
        let mut m = BTreeMap::new();
        for i in 0..140u16 { let mut b = [7u8; 32]; b[0] = (i >> 8) as u8; b[1] = i as u8; m.insert(AuthorId::from(&b), 1_000_000u64 + i as u64); }
        let h = AuthorHeads { heads: m.clone() };
        let mut order: Vec<(u64, AuthorId)> = m.iter().map(|(a, t)| (*t, *a)).collect();
        order.sort(); order.reverse();
        let size = |k: usize| postcard::to_stdvec(&order[..k].to_vec()).unwrap().len();
        for limit in size(124)..=size(132) {
            let enc = match h.encode(Some(limit)) { Ok(e) => e, Err(e) => panic!("WITNESS encode(Some({limit})) of 140 heads fails: {e} (sizes: 127 heads {} bytes, 128 heads {} bytes)", size(127), size(128)) };
            assert!(enc.len() <= limit, "WITNESS encode(Some({limit})) of 140 heads returns {} bytes", enc.len());
            let dec = AuthorHeads::decode(&enc).unwrap();
            let k = dec.len();
            let want: AuthorHeads = order[..k].iter().cloned().collect();
            assert_eq!(dec, want, "WITNESS encode(Some({limit})) of 140 heads does not keep the {k} newest");
            assert!(size(k + 1) > limit, "WITNESS encode(Some({limit})) of 140 heads keeps {k} heads although {} fit ({} bytes)", k + 1, size(k + 1));
        }
    }
}
