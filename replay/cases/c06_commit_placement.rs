// target: src/store/fs.rs
// labels: tx.* put.commit-* store.entry_put.never-commits store.remove_prefix_filtered.commit-* store.prefixes_of.commit-*
// tier: quick
// bound: one persistent store, one document, one author, children {a/1, a/2} made durable by flush, then one insert at the prefix "a/" whose
// write transaction turns older than MAX_COMMIT_DELAY at exactly one of the three store accesses of `put` (prefixes_of, remove_prefix_filtered,
// entry_put; emulated by moving `since` of the open transaction back, the real `tables`/`modify`/`put` run unchanged); at each placement the
// database file is imaged without commit, reopened, and must show either the state before the insert or the state after it.
// Second part: every history of up to 3 (thorough: 4) steps over {insert, new author, list_namespaces, list_authors, get_many, set policy, register peer}
// followed by flush: a crash image taken right after the flush reopens and holds every acknowledged write. Third part: remove_replica with the
// transaction at five distances from the commit age: every crash image shows the whole document or none of it.
#[cfg(test)]
mod verif_rp_c06_commit_placement {
    use super::*;
    use crate::ranger::{Range, Store as RangerStore};
    use crate::sync::Record;

    /// a StoreInstance whose open write transaction becomes too old right before the selected store access
    struct Aging<'a> { inner: StoreInstance<'a>, at: u8 }
    impl Aging<'_> {
        fn age(&mut self, step: u8) {
            if self.at == step {
                if let CurrentTransaction::Write(w) = &mut self.inner.store.transaction {
                    w.since = w.since.checked_sub(crate::actor::MAX_COMMIT_DELAY * 3).expect("clock");
                }
            }
        }
    }
    impl<'a> RangerStore<SignedEntry> for Aging<'a> {
        type Error = anyhow::Error;
        type RangeIterator<'x> = <StoreInstance<'a> as RangerStore<SignedEntry>>::RangeIterator<'x> where 'a: 'x;
        type ParentIterator<'x> = <StoreInstance<'a> as RangerStore<SignedEntry>>::ParentIterator<'x> where 'a: 'x;
        fn get_first(&mut self) -> Result<RecordIdentifier> { self.inner.get_first() }
        fn get(&mut self, key: &RecordIdentifier) -> Result<Option<SignedEntry>> { self.inner.get(key) }
        fn len(&mut self) -> Result<usize> { self.inner.len() }
        fn is_empty(&mut self) -> Result<bool> { self.inner.is_empty() }
        fn get_fingerprint(&mut self, range: &Range<RecordIdentifier>) -> Result<crate::ranger::Fingerprint> { self.inner.get_fingerprint(range) }
        fn entry_put(&mut self, entry: SignedEntry) -> Result<()> { self.age(3); self.inner.entry_put(entry) }
        fn get_range(&mut self, range: Range<RecordIdentifier>) -> Result<Self::RangeIterator<'_>> { self.inner.get_range(range) }
        fn prefixed_by(&mut self, prefix: &RecordIdentifier) -> Result<Self::RangeIterator<'_>> { self.inner.prefixed_by(prefix) }
        fn prefixes_of(&mut self, key: &RecordIdentifier) -> Result<Self::ParentIterator<'_>> { self.age(1); self.inner.prefixes_of(key) }
        fn all(&mut self) -> Result<Self::RangeIterator<'_>> { self.inner.all() }
        fn entry_remove(&mut self, key: &RecordIdentifier) -> Result<Option<SignedEntry>> { self.inner.entry_remove(key) }
        fn remove_prefix_filtered(&mut self, prefix: &RecordIdentifier, predicate: impl Fn(&Record) -> bool) -> Result<usize> { self.age(2); self.inner.remove_prefix_filtered(prefix, predicate) }
    }

    fn keys_of(store: &mut Store, ns: NamespaceId) -> Vec<String> {
        let mut v: Vec<String> = store.get_many(ns, Query::all()).unwrap().map(|e| String::from_utf8(e.unwrap().key().to_vec()).unwrap()).collect();
        v.sort();
        v
    }

    #[test]
    fn no_crash_image_shows_a_half_applied_insert() {
        let mut rng = rand::rng();
        let author = Author::new(&mut rng);
        let nss = NamespaceSecret::new(&mut rng);
        let ns = nss.id();
        let base = crate::sync::Record::empty_current().timestamp() - 1_000_000;
        for at in 0u8..=3 {
            let dir = tempfile::tempdir().unwrap();
            let path = dir.path().join("docs.redb");
            let mut store = Store::persistent(&path).unwrap();
            store.import_namespace(nss.clone().into()).unwrap();
            for (i, k) in ["a/1", "a/2", "b"].iter().enumerate() {
                let e = SignedEntry::from_parts(&nss, &author, k, Record::new(Hash::new(k), 1, base + i as u64));
                let mut inst = StoreInstance::new(ns, &mut store);
                inst.put(e).unwrap();
            }
            store.flush().unwrap();
            let before = keys_of(&mut store, ns);
            assert_eq!(before, vec!["a/1", "a/2", "b"]);
            // make sure a write transaction is open (as during any burst of writes), then insert at the prefix
            let _ = store.tables().unwrap();
            let e = SignedEntry::from_parts(&nss, &author, "a/", Record::new(Hash::new("p"), 1, base + 10));
            {
                let inner = StoreInstance::new(ns, &mut store);
                let mut aging = Aging { inner, at };
                aging.put(e).unwrap();
            }
            // crash: image of the file without commit
            let image = dir.path().join("image.redb");
            std::fs::copy(&path, &image).unwrap();
            let after = keys_of(&mut store, ns);
            assert_eq!(after, vec!["a/", "b"]);
            drop(store);
            let mut reopened = Store::persistent(&image).unwrap();
            let seen = keys_of(&mut reopened, ns);
            assert!(seen == before || seen == after,
                "WITNESS insert of key \"a/\" over durable children a/1, a/2 with the write transaction turning older than MAX_COMMIT_DELAY before store access {at} of put (1 prefixes_of, 2 remove_prefix_filtered, 3 entry_put): crash image shows {seen:?}, which is neither the state before the insert {before:?} nor the state after it {after:?}");
        }
    }

    /// "Everything a file-backed store has acknowledged before a flush is present after the process is killed at any later moment":
    /// every history of up to 4 steps over {insert, import author, list_namespaces, list_authors, get_many, set policy, register peer}
    /// followed by `flush`; the database file is imaged right after the flush (no clean shutdown), reopened, and must show every
    /// acknowledged write. A second image is taken after a removal split across an aged transaction (remove_replica must be all or nothing).
    #[test]
    fn a_crash_image_after_flush_holds_every_acknowledged_write() {
        let mut rng = rand::rng();
        let nss = NamespaceSecret::new(&mut rng);
        let ns = nss.id();
        const OPS: usize = 7;
        let deep = std::env::var("VERIF_BX_DEPTH").map(|v| v == "thorough").unwrap_or(false);
        let len = if deep { 4 } else { 3 };
        let mut seqs: Vec<Vec<usize>> = vec![vec![]];
        for _ in 0..len { let mut next = vec![]; for s in &seqs { for o in 0..OPS { let mut t = s.clone(); t.push(o); next.push(t); } } seqs.extend(next.clone()); seqs.sort(); seqs.dedup(); }
        let mut n = 0usize;
        for seq in seqs.iter().filter(|s| !s.is_empty()) {
            let dir = tempfile::tempdir().unwrap();
            let path = dir.path().join("docs.redb");
            let mut store = Store::persistent(&path).unwrap();
            store.import_namespace(nss.clone().into()).unwrap();
            let author = store.new_author(&mut rng).unwrap();
            store.flush().unwrap();
            let mut keys: Vec<String> = vec![];
            let mut authors = vec![author.id()];
            let mut policy_set = false;
            let mut peers = 0usize;
            for (i, op) in seq.iter().enumerate() {
                match op {
                    0 => { let k = format!("k{i}"); let mut r = store.open_replica(&ns).unwrap();
                           tokio::runtime::Builder::new_current_thread().build().unwrap().block_on(r.hash_and_insert(&k, &author, k.as_bytes())).unwrap(); drop(r); store.close_replica(ns); keys.push(k); }
                    1 => { let a = store.new_author(&mut rng).unwrap(); authors.push(a.id()); }
                    2 => { let _ = store.list_namespaces().unwrap().count(); }
                    3 => { let _ = store.list_authors().unwrap().count(); }
                    4 => { let _ = store.get_many(ns, Query::all()).unwrap().count(); }
                    5 => { store.set_download_policy(&ns, crate::store::DownloadPolicy::NothingExcept(vec![crate::store::FilterKind::Exact("x".into())])).unwrap(); policy_set = true; }
                    _ => { store.register_useful_peer(ns, [i as u8 + 1; 32]).unwrap(); peers += 1; }
                }
            }
            store.flush().unwrap();
            // the process is killed right here: image the file without dropping the store first
            let image = dir.path().join("image.redb");
            std::fs::copy(&path, &image).unwrap();
            let mut reopened = Store::persistent(&image).unwrap_or_else(|e| panic!("WITNESS the crash image taken after flush (history {seq:?}) does not reopen: {e:#}"));
            let mut got = keys_of(&mut reopened, ns);
            got.sort(); keys.sort();
            assert_eq!(got, keys, "WITNESS after history {seq:?} + flush, the crash image holds entries {got:?}, acknowledged were {keys:?}");
            let mut got_authors: Vec<_> = reopened.list_authors().unwrap().map(|a| a.unwrap().id()).collect();
            got_authors.sort(); authors.sort();
            assert_eq!(got_authors, authors, "WITNESS after history {seq:?} + flush, the crash image lacks acknowledged authors");
            let pol = reopened.get_download_policy(&ns).unwrap();
            assert_eq!(matches!(pol, crate::store::DownloadPolicy::NothingExcept(_)), policy_set, "WITNESS after history {seq:?} + flush, the crash image has policy {pol:?}");
            let got_peers = reopened.get_sync_peers(&ns).unwrap().map(|it| it.count()).unwrap_or(0);
            assert_eq!(got_peers, peers.min(5), "WITNESS after history {seq:?} + flush, the crash image has {got_peers} useful peers, registered {peers}");
            n += 1;
        }
        println!("c06_commit_placement: {n} histories followed by flush and a crash image");
    }

    /// `remove_replica` with the open write transaction turning too old at any store access inside it: every crash image shows the whole
    /// document (entries, heads, capability, policy, peers) or none of it.
    #[test]
    fn no_crash_image_shows_a_half_removed_document() {
        let mut rng = rand::rng();
        let nss = NamespaceSecret::new(&mut rng);
        let ns = nss.id();
        for margin_us in [0u64, 50, 200, 1000, 5000] {
            let dir = tempfile::tempdir().unwrap();
            let path = dir.path().join("docs.redb");
            let mut store = Store::persistent(&path).unwrap();
            store.import_namespace(nss.clone().into()).unwrap();
            let author = store.new_author(&mut rng).unwrap();
            { let mut r = store.open_replica(&ns).unwrap();
              for i in 0..300 { tokio::runtime::Builder::new_current_thread().build().unwrap().block_on(r.hash_and_insert(format!("k{i:03}"), &author, b"v")).unwrap(); } }
            store.close_replica(ns);
            store.register_useful_peer(ns, [7u8; 32]).unwrap();
            store.flush().unwrap();
            // touch the store so that a write transaction is open, then make it almost too old
            store.register_useful_peer(ns, [8u8; 32]).unwrap();
            if let CurrentTransaction::Write(w) = &mut store.transaction {
                w.since = w.since.checked_sub(crate::actor::MAX_COMMIT_DELAY).and_then(|t| t.checked_add(std::time::Duration::from_micros(margin_us))).expect("clock");
            }
            store.remove_replica(&ns).unwrap();
            let image = dir.path().join("image.redb");
            std::fs::copy(&path, &image).unwrap();
            let mut reopened = Store::persistent(&image).unwrap();
            let listed = reopened.list_namespaces().unwrap().any(|x| x.unwrap().0 == ns);
            let entries = reopened.get_many(ns, Query::all()).map(|it| it.count()).unwrap_or(0);
            let heads = reopened.get_latest_for_each_author(ns).unwrap().count();
            let peers = reopened.get_sync_peers(&ns).unwrap().map(|it| it.count()).unwrap_or(0);
            let whole = listed && entries == 300 && heads == 1 && peers >= 1;
            let none = !listed && entries == 0 && heads == 0 && peers == 0;
            assert!(whole || none, "WITNESS crash image during remove_replica (transaction {margin_us} us short of the commit age): listed={listed} entries={entries} heads={heads} peers={peers} - neither the whole document nor none of it");
        }
    }
}
