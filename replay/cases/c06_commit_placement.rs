// target: src/store/fs.rs
// labels: tx.* put.commit-* store.entry_put.never-commits store.remove_prefix_filtered.commit-* store.prefixes_of.commit-*
// tier: quick
// bound: one persistent store, one document, one author, children {a/1, a/2} made durable by flush, then one insert at the prefix "a/" whose
// write transaction turns older than MAX_COMMIT_DELAY at exactly one of the three store accesses of `put` (prefixes_of, remove_prefix_filtered,
// entry_put; emulated by moving `since` of the open transaction back, the real `tables`/`modify`/`put` run unchanged); at each placement the
// database file is imaged without commit, reopened, and must show either the state before the insert or the state after it.
#[cfg(test)]
mod verif_rp_c06_commit_placement {
    use super::*;
    use crate::ranger::{Range, Store as RangerStore};
    use crate::sync::Record;

    /// a StoreInstance whose open write transaction becomes too old right before the selected store access
    struct Aging<'a> { inner: StoreInstance<'a>, at: u8 }
    impl Aging<'_> {
        fn age(&mut self, step: u8) {
            if self.at == step {
                if let CurrentTransaction::Write(w) = &mut self.inner.store.transaction {
                    w.since = w.since.checked_sub(crate::actor::MAX_COMMIT_DELAY * 3).expect("clock");
                }
            }
        }
    }
    impl<'a> RangerStore<SignedEntry> for Aging<'a> {
        type Error = anyhow::Error;
        type RangeIterator<'x> = <StoreInstance<'a> as RangerStore<SignedEntry>>::RangeIterator<'x> where 'a: 'x;
        type ParentIterator<'x> = <StoreInstance<'a> as RangerStore<SignedEntry>>::ParentIterator<'x> where 'a: 'x;
        fn get_first(&mut self) -> Result<RecordIdentifier> { self.inner.get_first() }
        fn get(&mut self, key: &RecordIdentifier) -> Result<Option<SignedEntry>> { self.inner.get(key) }
        fn len(&mut self) -> Result<usize> { self.inner.len() }
        fn is_empty(&mut self) -> Result<bool> { self.inner.is_empty() }
        fn get_fingerprint(&mut self, range: &Range<RecordIdentifier>) -> Result<crate::ranger::Fingerprint> { self.inner.get_fingerprint(range) }
        fn entry_put(&mut self, entry: SignedEntry) -> Result<()> { self.age(3); self.inner.entry_put(entry) }
        fn get_range(&mut self, range: Range<RecordIdentifier>) -> Result<Self::RangeIterator<'_>> { self.inner.get_range(range) }
        fn prefixed_by(&mut self, prefix: &RecordIdentifier) -> Result<Self::RangeIterator<'_>> { self.inner.prefixed_by(prefix) }
        fn prefixes_of(&mut self, key: &RecordIdentifier) -> Result<Self::ParentIterator<'_>> { self.age(1); self.inner.prefixes_of(key) }
        fn all(&mut self) -> Result<Self::RangeIterator<'_>> { self.inner.all() }
        fn entry_remove(&mut self, key: &RecordIdentifier) -> Result<Option<SignedEntry>> { self.inner.entry_remove(key) }
        fn remove_prefix_filtered(&mut self, prefix: &RecordIdentifier, predicate: impl Fn(&Record) -> bool) -> Result<usize> { self.age(2); self.inner.remove_prefix_filtered(prefix, predicate) }
    }

    fn keys_of(store: &mut Store, ns: NamespaceId) -> Vec<String> {
        let mut v: Vec<String> = store.get_many(ns, Query::all()).unwrap().map(|e| String::from_utf8(e.unwrap().key().to_vec()).unwrap()).collect();
        v.sort();
        v
    }

    #[test]
    fn no_crash_image_shows_a_half_applied_insert() {
        let mut rng = rand::rng();
        let author = Author::new(&mut rng);
        let nss = NamespaceSecret::new(&mut rng);
        let ns = nss.id();
        let base = crate::sync::Record::empty_current().timestamp() - 1_000_000;
        for at in 0u8..=3 {
            let dir = tempfile::tempdir().unwrap();
            let path = dir.path().join("docs.redb");
            let mut store = Store::persistent(&path).unwrap();
            store.import_namespace(nss.clone().into()).unwrap();
            for (i, k) in ["a/1", "a/2", "b"].iter().enumerate() {
                let e = SignedEntry::from_parts(&nss, &author, k, Record::new(Hash::new(k), 1, base + i as u64));
                let mut inst = StoreInstance::new(ns, &mut store);
                inst.put(e).unwrap();
            }
            store.flush().unwrap();
            let before = keys_of(&mut store, ns);
            assert_eq!(before, vec!["a/1", "a/2", "b"]);
            // make sure a write transaction is open (as during any burst of writes), then insert at the prefix
            let _ = store.tables().unwrap();
            let e = SignedEntry::from_parts(&nss, &author, "a/", Record::new(Hash::new("p"), 1, base + 10));
            {
                let inner = StoreInstance::new(ns, &mut store);
                let mut aging = Aging { inner, at };
                aging.put(e).unwrap();
            }
            // crash: image of the file without commit
            let image = dir.path().join("image.redb");
            std::fs::copy(&path, &image).unwrap();
            let after = keys_of(&mut store, ns);
            assert_eq!(after, vec!["a/", "b"]);
            drop(store);
            let mut reopened = Store::persistent(&image).unwrap();
            let seen = keys_of(&mut reopened, ns);
            assert!(seen == before || seen == after,
                "WITNESS insert of key \"a/\" over durable children a/1, a/2 with the write transaction turning older than MAX_COMMIT_DELAY before store access {at} of put (1 prefixes_of, 2 remove_prefix_filtered, 3 entry_put): crash image shows {seen:?}, which is neither the state before the insert {before:?} nor the state after it {after:?}");
        }
    }
}
