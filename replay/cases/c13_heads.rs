// target: src/sync.rs
// labels: store.entry_put.head-is-max store.remove_replica.heads-of-ns-gone-others-kept store.remove_replica.other-heads-unchanged
// tier: quick
// bound: two authors, three keys, timestamps in {1,2,3}, every sequence of up to three inserts, in a store that also holds a second, later-sorting document with other authors; then removal and re-creation of the
// document. Checks C13 / C16: the reported head of each author is the greatest timestamp among the entries held, and no head
// survives removing the document.
#[cfg(test)]
mod verif_rp_c13_heads {
    use super::*;
    use crate::store::{Query, Store};

    #[tokio::test]
    async fn heads_are_max_timestamp_of_held_entries() {
        let mut rng = rand::rng();
        let ns = NamespaceSecret::new(&mut rng);
        let base = system_time_now() - 1_000_000;
        let mut store = Store::memory();
        drop(store.new_replica(ns.clone()).unwrap());
        store.close_replica(ns.id());
        // a second document in the same store whose id sorts after the first one, with its own authors: its heads must never show up
        let ns2 = loop { let s = NamespaceSecret::new(&mut rng); if s.id() > ns.id() { break s; } };
        let foreign = [Author::new(&mut rng), Author::new(&mut rng)];
        {
            let mut r2 = store.new_replica(ns2.clone()).unwrap();
            for (i, a) in foreign.iter().enumerate() {
                let e = SignedEntry::from_parts(&ns2, a, b"f", Record { hash: Hash::new(b"x"), len: 1, timestamp: base + 50 + i as u64 });
                r2.insert_remote_entry(e, [1u8; 32], ContentStatus::Missing).await.unwrap();
            }
            drop(r2);
            store.close_replica(ns2.id());
        }
        let keys: [&[u8]; 3] = [b"k1", b"k2", b"k"];
        let mut univ = vec![];
        for ai in 0..2usize { for k in 0..3usize { for ts in [1u64, 2, 3] { univ.push((ai, k, ts)); } } }
        for i in 0..univ.len() { for j in 0..univ.len() { for l in 0..univ.len() {
            let seq = [univ[i], univ[j], univ[l]];
            // fresh authors for every sequence (heads are per author), one shared store
            let authors = [Author::new(&mut rng), Author::new(&mut rng)];
            let mut r = store.open_replica(&ns.id()).unwrap();
            for (ai, k, ts) in seq {
                let e = SignedEntry::from_parts(&ns, &authors[ai], keys[k], Record { hash: Hash::new(b"x"), len: 1, timestamp: base + ts });
                let _ = r.insert_remote_entry(e, [1u8; 32], ContentStatus::Missing).await;
            }
            drop(r);
            store.close_replica(ns.id());
            // read back with point lookups over the key universe (no snapshot, so no commit per sequence)
            let mut held: Vec<(AuthorId, u64)> = vec![];
            for a in &authors { for k in keys { if let Some(e) = store.get_exact(ns.id(), a.id(), k, true).unwrap() { held.push((a.id(), e.timestamp())); } } }
            let heads: Vec<(AuthorId, u64)> = store.get_latest_for_each_author(ns.id()).unwrap().map(|x| { let (a, t, _k) = x.unwrap(); (a, t) }).collect();
            assert!(heads.iter().all(|(x, _)| foreign.iter().all(|f| f.id() != *x)), "WITNESS the heads reported for a document contain an author of another document of the same store (after {:?})", seq);
            for a in &authors {
                let want = held.iter().filter(|(x, _)| *x == a.id()).map(|(_, t)| *t).max();
                let got = heads.iter().find(|(x, _)| *x == a.id()).map(|(_, t)| *t);
                assert_eq!(got, want, "WITNESS after inserting (author,key,ts) {:?} the head of author {} is {:?}, entries held give {:?}", seq, if a.id() == authors[0].id() { 0 } else { 1 }, got.map(|t| t - base), want.map(|t| t - base));
            }
            if (i + j + l) % 97 == 0 {
                store.remove_replica(&ns.id()).unwrap();
                drop(store.new_replica(ns.clone()).unwrap());
                store.close_replica(ns.id());
                let n = store.get_latest_for_each_author(ns.id()).unwrap().count();
                assert_eq!(n, 0, "WITNESS {} author heads survive removing and re-creating the document after {:?}", n, seq);
            }
        } } }
    }
}
