// target: src/store.rs
// labels: policy.filter.* policy.text.* policy.matches.*
// tier: quick
// bound: both filter kinds, every byte string of length <= 4 over the alphabet {'a', ':', ' ', 'e', 0x00, 0xC3, 0xA9, 0xFF} (valid UTF-8 incl.
// a two-byte character, colons, and invalid UTF-8), plus every arrangement of length <= 3 of 17 bytes that build truncated, overlong,
// surrogate and replacement-character sequences (bare and between ASCII letters): Display then FromStr returns the same filter; parsing
// garbage never panics. Policies: every policy of one filter (and a selection of two) over byte strings of length <= 2 over six bytes decides every
// key of length <= 3 over the same bytes by its bytes (prefix / equality), nothing-except and everything-except being complements.
#[cfg(test)]
mod verif_rp_c15_filter_text {
    use super::*;

    #[test]
    fn filters_survive_their_textual_form() {
        let alpha = [b'a', b':', b' ', b'e', 0x00u8, 0xC3, 0xA9, 0xFF];
        let mut strings: Vec<Vec<u8>> = vec![vec![]];
        let mut layer: Vec<Vec<u8>> = vec![vec![]];
        for _ in 0..4 {
            let mut next = vec![];
            for s in &layer { for c in alpha { let mut t = s.clone(); t.push(c); next.push(t); } }
            strings.extend(next.iter().cloned());
            layer = next;
        }
        // second family: truncated and malformed multi-byte sequences (lead bytes of 2-, 3- and 4-byte characters, continuation bytes, the
        // bytes of U+FFFD itself, overlong and surrogate encodings) in every arrangement of length <= 3, also embedded in ASCII
        let bad = [0x80u8, 0xBF, 0xC0, 0xC3, 0xE0, 0xE2, 0x82, 0xAC, 0xED, 0xA0, 0xEF, 0xBD, 0xF0, 0x9F, 0x98, 0xF4, 0x90];
        let mut layer2: Vec<Vec<u8>> = vec![vec![]];
        for _ in 0..3 {
            let mut next = vec![];
            for s in &layer2 { for c in bad { let mut t = s.clone(); t.push(c); next.push(t); } }
            for t in &next { strings.push(t.clone()); let mut u = vec![b'a']; u.extend(t); u.push(b'z'); strings.push(u); }
            layer2 = next;
        }
        let mut n = 0;
        for s in &strings { for exact in [false, true] {
            let f = if exact { FilterKind::Exact(Bytes::from(s.clone())) } else { FilterKind::Prefix(Bytes::from(s.clone())) };
            let text = f.to_string();
            let back: std::result::Result<FilterKind, _> = text.parse();
            n += 1;
            match back {
                Ok(g) => assert_eq!(g, f, "WITNESS filter {f:?} printed as {text:?} parses back as {g:?}"),
                Err(e) => panic!("WITNESS filter {f:?} printed as {text:?} does not parse back: {e}"),
            }
        } }
        // hostile text never panics
        for s in &strings { if let Ok(t) = std::str::from_utf8(s) { let _ = t.parse::<FilterKind>(); let _ = format!("prefix:{t}").parse::<FilterKind>(); let _ = format!("exact:hex:{t}").parse::<FilterKind>(); } }
        println!("c15_filter_text: {n} filters round-tripped");
    }

    /// the download decision is a function of the key BYTES: every policy of up to two filters over byte strings of length <= 2 over
    /// {'a', 'b', 0xC3, 0xA9, 0xEF, 0xFF} (valid and invalid UTF-8), every key of length <= 3 over the same alphabet
    #[test]
    fn policies_decide_on_the_bytes_of_the_key() {
        let alpha = [b'a', b'b', 0xC3u8, 0xA9, 0xEF, 0xFF];
        let mut all: Vec<Vec<u8>> = vec![vec![]];
        let mut layer: Vec<Vec<u8>> = vec![vec![]];
        for _ in 0..3 { let mut next = vec![]; for s in &layer { for c in alpha { let mut t = s.clone(); t.push(c); next.push(t); } } all.extend(next.iter().cloned()); layer = next; }
        let short: Vec<&Vec<u8>> = all.iter().filter(|s| s.len() <= 2).collect();
        let ns = crate::NamespaceId::from(&[1u8; 32]);
        let author = crate::AuthorId::from(&[2u8; 32]);
        let rule = |f: &FilterKind, k: &[u8]| match f { FilterKind::Prefix(p) => k.len() >= p.len() && &k[..p.len()] == &p[..], FilterKind::Exact(e) => &e[..] == k };
        let mut filters: Vec<FilterKind> = vec![];
        for s in &short { filters.push(FilterKind::Prefix(Bytes::from((*s).clone()))); filters.push(FilterKind::Exact(Bytes::from((*s).clone()))); }
        let mut n = 0usize;
        for key in &all {
            let entry = crate::sync::Entry::new(crate::sync::RecordIdentifier::new(ns, author, key), crate::sync::Record::new(iroh_blobs::Hash::new(b"x"), 1, 7));
            for (i, f) in filters.iter().enumerate() {
                // one filter, and two filters (the second one runs over a sparse selection)
                let want1 = rule(f, key);
                assert_eq!(DownloadPolicy::NothingExcept(vec![f.clone()]).matches(&entry), want1, "WITNESS nothing-except [{f:?}] on key {key:?}");
                assert_eq!(DownloadPolicy::EverythingExcept(vec![f.clone()]).matches(&entry), !want1, "WITNESS everything-except [{f:?}] on key {key:?}");
                let g = &filters[(i * 7 + 3) % filters.len()];
                let want2 = want1 || rule(g, key);
                assert_eq!(DownloadPolicy::NothingExcept(vec![f.clone(), g.clone()]).matches(&entry), want2, "WITNESS nothing-except [{f:?}, {g:?}] on key {key:?}");
                assert_eq!(DownloadPolicy::EverythingExcept(vec![f.clone(), g.clone()]).matches(&entry), !want2, "WITNESS everything-except [{f:?}, {g:?}] on key {key:?}");
                n += 4;
            }
        }
        assert!(!DownloadPolicy::NothingExcept(vec![]).matches(&crate::sync::Entry::new(crate::sync::RecordIdentifier::new(ns, author, b"k"), crate::sync::Record::new(iroh_blobs::Hash::new(b"x"), 1, 7))), "WITNESS nothing-except [] downloads");
        assert!(DownloadPolicy::EverythingExcept(vec![]).matches(&crate::sync::Entry::new(crate::sync::RecordIdentifier::new(ns, author, b"k"), crate::sync::Record::new(iroh_blobs::Hash::new(b"x"), 1, 7))), "WITNESS everything-except [] skips");
        println!("c15_filter_text: {n} policy decisions");
    }
}
