// target: src/store.rs
// labels: policy.filter.* policy.text.*
// tier: quick
// bound: both filter kinds, every byte string of length <= 4 over the alphabet {'a', ':', ' ', 'e', 0x00, 0xC3, 0xA9, 0xFF} (valid UTF-8 incl.
// a two-byte character, colons, and invalid UTF-8): Display then FromStr returns the same filter; parsing garbage never panics.
#[cfg(test)]
mod verif_rp_c15_filter_text {
    use super::*;

    #[test]
    fn filters_survive_their_textual_form() {
        let alpha = [b'a', b':', b' ', b'e', 0x00u8, 0xC3, 0xA9, 0xFF];
        let mut strings: Vec<Vec<u8>> = vec![vec![]];
        let mut layer: Vec<Vec<u8>> = vec![vec![]];
        for _ in 0..4 {
            let mut next = vec![];
            for s in &layer { for c in alpha { let mut t = s.clone(); t.push(c); next.push(t); } }
            strings.extend(next.iter().cloned());
            layer = next;
        }
        let mut n = 0;
        for s in &strings { for exact in [false, true] {
            let f = if exact { FilterKind::Exact(Bytes::from(s.clone())) } else { FilterKind::Prefix(Bytes::from(s.clone())) };
            let text = f.to_string();
            let back: std::result::Result<FilterKind, _> = text.parse();
            n += 1;
            match back {
                Ok(g) => assert_eq!(g, f, "WITNESS filter {f:?} printed as {text:?} parses back as {g:?}"),
                Err(e) => panic!("WITNESS filter {f:?} printed as {text:?} does not parse back: {e}"),
            }
        } }
        // hostile text never panics
        for s in &strings { if let Ok(t) = std::str::from_utf8(s) { let _ = t.parse::<FilterKind>(); let _ = format!("prefix:{t}").parse::<FilterKind>(); let _ = format!("exact:hex:{t}").parse::<FilterKind>(); } }
        println!("c15_filter_text: {n} filters round-tripped");
    }
}
