// target: src/sync.rs
// labels: bounds.increment_prefix.* bounds.author_key.* bounds.author_prefix.* bounds.bykey.new.*
// D2: a key prefix ending in 0xFF must not reach keys that merely sort after it (prefix delete, prefix query on both indexes)
#[cfg(test)]
mod verif_rp_d2_prefix_ff {
    use super::*;
    use crate::store::{Query, Store};

    fn signed(ns: &NamespaceSecret, a: &Author, key: &[u8], hash: Hash, len: u64, ts: u64) -> SignedEntry {
        SignedEntry::from_parts(ns, a, key, Record { hash, len, timestamp: ts })
    }

    /// all keys over the alphabet {00, 61, 62, FF} up to length 3
    fn all_keys() -> Vec<Vec<u8>> {
        let alpha = [0x00u8, 0x61, 0x62, 0xff];
        let mut res: Vec<Vec<u8>> = vec![vec![]];
        let mut layer: Vec<Vec<u8>> = vec![vec![]];
        for _ in 0..3 {
            let mut next = vec![];
            for k in &layer { for c in alpha { let mut k2 = k.clone(); k2.push(c); next.push(k2); } }
            res.extend(next.iter().cloned());
            layer = next;
        }
        res
    }

    #[tokio::test]
    async fn prefix_query_and_delete_exact() {
        let mut rng = rand::rng();
        let a = Author::new(&mut rng);
        let ns = NamespaceSecret::new(&mut rng);
        let t = system_time_now();
        let h = Hash::new(b"x");
        let keys = all_keys();
        let mut store = Store::memory();
        let mut r = store.new_replica(ns.clone()).unwrap();
        // insert longest keys first so that nothing is pruned (all same timestamp order: longer = newer)
        let mut sorted = keys.clone();
        sorted.sort_by_key(|k| k.len());
        for (i, k) in sorted.iter().enumerate() {
            if k.is_empty() { continue; }
            r.insert_remote_entry(signed(&ns, &a, k, h, 1, t - 1000 + i as u64), [1u8; 32], ContentStatus::Missing).await.unwrap();
        }
        drop(r);
        let held: Vec<Vec<u8>> = store.get_many(ns.id(), Query::all()).unwrap().map(|e| e.unwrap().key().to_vec()).collect();
        for p in keys.iter().filter(|k| !k.is_empty()) {
            let want: Vec<Vec<u8>> = { let mut w: Vec<_> = held.iter().filter(|k| k.starts_with(p)).cloned().collect(); w.sort(); w };
            let mut q1: Vec<Vec<u8>> = store.get_many(ns.id(), Query::author(a.id()).key_prefix(p.clone())).unwrap().map(|e| e.unwrap().key().to_vec()).collect();
            q1.sort();
            let mut q2: Vec<Vec<u8>> = store.get_many(ns.id(), Query::all().key_prefix(p.clone())).unwrap().map(|e| e.unwrap().key().to_vec()).collect();
            q2.sort();
            assert_eq!(q1, want, "WITNESS author-index query with prefix {p:02x?} returned {q1:02x?}, expected {want:02x?}");
            assert_eq!(q2, want, "WITNESS key-index query with prefix {p:02x?} returned {q2:02x?}, expected {want:02x?}");
        }
        // prefix delete removes exactly the keys starting with the prefix
        for p in [vec![0x61u8, 0xff], vec![0xffu8, 0xff], vec![0x61u8, 0xff, 0xff], vec![0x62u8]] {
            let mut store = Store::memory();
            let mut r = store.new_replica(ns.clone()).unwrap();
            for (i, k) in sorted.iter().enumerate() {
                if k.is_empty() || *k == p { continue; }
                r.insert_remote_entry(signed(&ns, &a, k, h, 1, t - 1000 + i as u64), [1u8; 32], ContentStatus::Missing).await.unwrap();
            }
            let before: Vec<Vec<u8>> = { drop(r); store.get_many(ns.id(), Query::all()).unwrap().map(|e| e.unwrap().key().to_vec()).collect() };
            let mut r = store.open_replica(&ns.id()).unwrap();
            let removed = r.insert_remote_entry(signed(&ns, &a, &p, Hash::EMPTY, 0, t - 1), [1u8; 32], ContentStatus::Missing).await.unwrap();
            drop(r);
            let after: Vec<Vec<u8>> = store.get_many(ns.id(), Query::all().include_empty()).unwrap().map(|e| e.unwrap().key().to_vec()).collect();
            let expect_removed = before.iter().filter(|k| k.starts_with(&p)).count();
            let mut expect_after: Vec<Vec<u8>> = before.iter().filter(|k| !k.starts_with(&p)).cloned().collect();
            expect_after.push(p.clone());
            expect_after.sort();
            let mut after_s = after.clone(); after_s.sort();
            assert_eq!(removed, expect_removed, "WITNESS prefix delete {p:02x?} removed {removed} entries, expected {expect_removed}");
            assert_eq!(after_s, expect_after, "WITNESS prefix delete {p:02x?} left {after_s:02x?}, expected {expect_after:02x?}");
        }
    }
}
