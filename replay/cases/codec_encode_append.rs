// target: src/net/codec.rs
// labels: codec.encode.appends-frame-to-buffer codec.encode.buffered-bytes-never-touched
// Encoder convention of tokio_util (FramedWrite::start_send hands the *shared, possibly non-empty* write buffer to
// `encode`): a frame is appended behind what is already buffered. SyncCodec::encode appends the length prefix but
// writes the payload at offset 4 of the buffer start, so a second frame encoded before a flush corrupts both.
#[cfg(test)]
mod verif_rp_codec_encode_append {
    use super::*;
    use tokio_util::codec::{Decoder, Encoder};

    #[test]
    fn two_frames_without_flush_roundtrip() {
        let m1 = Message::Abort { reason: AbortReason::NotFound };
        let m2 = Message::Abort { reason: AbortReason::AlreadySyncing };
        // reference: each frame encoded into an empty buffer
        let mut a = BytesMut::new();
        SyncCodec.encode(m1.clone(), &mut a).unwrap();
        let mut b = BytesMut::new();
        SyncCodec.encode(m2.clone(), &mut b).unwrap();
        let mut expected = a.to_vec();
        expected.extend_from_slice(&b);
        // both frames into one buffer (what FramedWrite does for feed();feed(); or below the backpressure boundary)
        let mut buf = BytesMut::new();
        SyncCodec.encode(m1.clone(), &mut buf).unwrap();
        SyncCodec.encode(m2.clone(), &mut buf).unwrap();
        if buf.to_vec() != expected {
            let mut rd = buf.clone();
            let d1 = SyncCodec.decode(&mut rd).map(|o| o.map(|m| format!("{m:?}")));
            let d2 = SyncCodec.decode(&mut rd).map(|o| o.map(|m| format!("{m:?}")));
            panic!(
                "WITNESS encode(Abort NotFound) then encode(Abort AlreadySyncing) into one buffer: got bytes {:02x?}, expected {:02x?}; decoding gives {:?} then {:?}",
                buf.to_vec(), expected, d1, d2
            );
        }
    }
}
