// target: src/store/fs.rs
// labels: mig.m002.* mig.m003.* mig.open.*
// tier: quick
// bound: database files that still carry the legacy `namespaces-1` table (id -> secret bytes, as written before the capability table existed): every
// combination of 0..=3 legacy documents x {capability table absent, present with a read capability for the first legacy document, present with
// an unrelated document} x {with / without entries}; the file is opened, used and reopened up to 3 times. After every open each legacy document
// is writable (its write capability arrived in the capability table), unrelated rows are kept, the legacy table is gone after the first open,
// and later opens change nothing.
#[cfg(test)]
mod verif_rp_c07_legacy_ns {
    use super::*;
    use super::tables::{NAMESPACES_TABLE, NAMESPACES_TABLE_V1};
    use redb::{ReadableTable, ReadableTableMetadata, TableHandle};

    fn caps(path: &std::path::Path) -> (Vec<([u8; 32], u8, [u8; 32])>, bool) {
        let db = redb::Database::create(path).unwrap();
        let tx = db.begin_read().unwrap();
        let v1 = tx.list_tables().unwrap().any(|h| h.name() == NAMESPACES_TABLE_V1.name());
        let mut rows = vec![];
        if let Ok(t) = tx.open_table(NAMESPACES_TABLE) {
            for r in t.iter().unwrap() { let (k, v) = r.unwrap(); let (kind, bytes) = v.value(); rows.push((*k.value(), kind, *bytes)); }
        }
        (rows, v1)
    }

    #[tokio::test]
    async fn legacy_write_capabilities_survive_the_upgrade_and_every_reopen() {
        let mut rng = rand::rng();
        let mut n = 0usize;
        for n_legacy in 0..=3usize { for v2 in 0..3u8 { for with_entries in [false, true] {
            if n_legacy == 0 && v2 == 1 { continue; }
            let what = format!("{n_legacy} legacy document(s), capability table {} , entries {with_entries}", ["absent", "holding a read capability for the first legacy document", "holding an unrelated document"][v2 as usize]);
            let dir = tempfile::tempdir().unwrap();
            let path = dir.path().join("docs.redb");
            let secrets: Vec<NamespaceSecret> = (0..n_legacy).map(|_| NamespaceSecret::new(&mut rng)).collect();
            let other = NamespaceSecret::new(&mut rng);
            // a current store first (so that all other tables exist as the current version writes them), optionally with entries
            {
                let mut store = Store::persistent(&path).unwrap();
                if with_entries {
                    let author = store.new_author(&mut rng).unwrap();
                    for s in &secrets {
                        let mut r = store.new_replica(s.clone()).unwrap();
                        r.hash_and_insert("k", &author, "v").await.unwrap();
                        store.close_replica(s.id());
                    }
                }
                store.flush().unwrap();
            }
            // ... then turned into the legacy layout with plain redb
            {
                let db = redb::Database::create(&path).unwrap();
                let tx = db.begin_write().unwrap();
                {
                    let mut t2 = tx.open_table(NAMESPACES_TABLE).unwrap();
                    let keys: Vec<[u8; 32]> = t2.iter().unwrap().map(|r| *r.unwrap().0.value()).collect();
                    for k in keys { t2.remove(&k).unwrap(); }
                    match v2 {
                        1 => { let id = secrets[0].id().to_bytes(); t2.insert(&id, (2u8, &id)).unwrap(); }
                        2 => { t2.insert(&other.id().to_bytes(), (1u8, &other.to_bytes())).unwrap(); }
                        _ => {}
                    }
                }
                if v2 == 0 { tx.delete_table(NAMESPACES_TABLE).unwrap(); }
                {
                    let mut t1 = tx.open_table(NAMESPACES_TABLE_V1).unwrap();
                    for s in &secrets { t1.insert(&s.id().to_bytes(), &s.to_bytes()).unwrap(); }
                }
                tx.commit().unwrap();
            }
            let mut first: Option<Vec<([u8; 32], u8, [u8; 32])>> = None;
            for round in 0..3 {
                {
                    let mut store = Store::persistent(&path).unwrap_or_else(|e| panic!("WITNESS {what}: open {round} fails: {e:?}"));
                    for s in &secrets {
                        let info = store.load_replica_info(&s.id()).unwrap_or_else(|e| panic!("WITNESS {what}: after open {round} a legacy document is not found: {e:?}"));
                        assert!(matches!(info.capability.kind(), CapabilityKind::Write), "WITNESS {what}: after open {round} a legacy document is no longer writable");
                        assert_eq!(info.capability.secret_key().map(|k| k.to_bytes()).ok(), Some(s.to_bytes()), "WITNESS {what}: after open {round} the stored secret differs from the legacy one");
                        store.close_replica(s.id());
                        if with_entries {
                            let held: Vec<_> = store.get_many(s.id(), crate::store::Query::all()).unwrap().map(|e| e.unwrap().key().to_vec()).collect();
                            assert_eq!(held, vec![b"k".to_vec()], "WITNESS {what}: after open {round} the entries of a legacy document changed");
                        }
                    }
                    if v2 == 2 {
                        let info = store.load_replica_info(&other.id()).unwrap_or_else(|e| panic!("WITNESS {what}: after open {round} the unrelated document is gone: {e:?}"));
                        assert!(matches!(info.capability.kind(), CapabilityKind::Write), "WITNESS {what}: unrelated document lost its capability");
                        store.close_replica(other.id());
                    }
                    store.flush().unwrap();
                }
                let (mut rows, v1) = caps(&path);
                rows.sort();
                assert!(!v1, "WITNESS {what}: the legacy table still exists after open {round}");
                assert_eq!(rows.len(), n_legacy + if v2 == 2 { 1 } else { 0 }, "WITNESS {what}: capability table after open {round} holds {} rows", rows.len());
                match &first { None => first = Some(rows), Some(f) => assert_eq!(&rows, f, "WITNESS {what}: open {round} of an upgraded file changed the capability table") }
                n += 1;
            }
        } } }
        println!("c07_legacy_ns: {n} opens checked");
    }
}
