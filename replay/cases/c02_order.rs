// target: src/sync.rs
// labels: put.* store.parents.* store.get_exact.* store.prefixes_of.* store.parent_iterator.* store.remove_prefix_filtered.* store.entry_put.records-row
// tier: quick
// bound: one author per sequence, keys over {"", a, ab, b, [61 ff], a^40 (forty bytes, its prefixes are 39 and 40 bytes shorter)}, two timestamps, entries and deletion markers; every sequence of up to
// three distinct entries in every order (thorough tier: up to four). Checks C02: every insert answers as the reference does (rejected / number of pruned entries) and the final state is the same for every order and equals the reference
// (an entry is held iff no other offered entry of the same author at its key or a prefix of it is >= it); the key-ordered query agrees with the point
// lookups after every sequence; a local delete_prefix and an older entry below it commute.
#[cfg(test)]
mod verif_rp_c02_order {
    use super::*;
    use crate::store::{Query, Store};

    #[derive(Clone, Debug, PartialEq, Eq, PartialOrd, Ord)]
    struct E { key: Vec<u8>, ts: u64, marker: bool }

    fn signed(ns: &NamespaceSecret, a: &Author, e: &E, base: u64) -> SignedEntry {
        let (hash, len) = if e.marker { (Hash::EMPTY, 0) } else { (Hash::new(b"x"), 1) };
        SignedEntry::from_parts(ns, a, &e.key, Record { hash, len, timestamp: base + e.ts })
    }
    fn val(e: &E) -> (u64, [u8; 32]) {
        let h = if e.marker { Hash::EMPTY } else { Hash::new(b"x") };
        (e.ts, *h.as_bytes())
    }
    fn reference(offered: &[E]) -> Vec<(Vec<u8>, u64, bool)> {
        let mut held: Vec<(Vec<u8>, u64, bool)> = offered.iter().filter(|e| {
            !offered.iter().any(|p| p != *e && e.key.starts_with(&p.key) && val(p) >= val(e))
        }).map(|e| (e.key.clone(), e.ts, e.marker)).collect();
        held.sort(); held.dedup();
        held
    }
    /// every sequence is offered under a fresh author of the same document (entries of different authors never interact)
    async fn run(store: &mut Store, ns: &NamespaceSecret, seq: &[E], base: u64) -> Vec<(Vec<u8>, u64, bool)> {
        let a = Author::new(&mut rand::rng());
        let mut r = store.open_replica(&ns.id()).unwrap();
        // step by step: the answer of every insert is the reference answer - rejected iff an entry held at the key or a prefix of it is not older,
        // otherwise the number of pruned entries (held entries below the key that are not newer)
        let mut held: Vec<E> = vec![];
        for (step, e) in seq.iter().enumerate() {
            let res = r.insert_remote_entry(signed(ns, &a, e, base), [1u8; 32], ContentStatus::Missing).await;
            let dominated = held.iter().any(|p| e.key.starts_with(&p.key) && val(p) >= val(e));
            if dominated {
                assert!(res.is_err(), "WITNESS step {step} of {seq:?}: {e:?} is not newer than an entry held at its key or a prefix, yet the insert answered {res:?}");
            } else {
                let pruned = held.iter().filter(|c| c.key.starts_with(&e.key) && val(c) <= val(e)).count();
                assert_eq!(res.as_ref().ok().copied(), Some(pruned), "WITNESS step {step} of {seq:?}: insert of {e:?} must report {pruned} pruned entries, answered {res:?}");
                held.retain(|c| !(c.key.starts_with(&e.key) && val(c) <= val(e)));
                held.push(e.clone());
            }
        }
        drop(r);
        store.close_replica(ns.id());
        // read back with point lookups over the key universe (no snapshot, so no commit per sequence)
        let mut got: Vec<(Vec<u8>, u64, bool)> = vec![];
        for k in key_universe() {
            if let Some(e) = store.get_exact(ns.id(), a.id(), &k, true).unwrap() { got.push((e.key().to_vec(), e.timestamp() - base, e.is_empty())); }
        }
        got.sort();
        got
    }
    /// the key-ordered index shows the same entries as the point lookups: checked on a fresh store (a query takes a snapshot, i.e. a commit, and
    /// walks the entries of all authors), for every 16th sequence
    async fn by_key_agrees(ns: &NamespaceSecret, seq: &[E], base: u64, want: &[(Vec<u8>, u64, bool)]) {
        let mut store = Store::memory();
        let a = Author::new(&mut rand::rng());
        let mut r = store.new_replica(ns.clone()).unwrap();
        for e in seq { let _ = r.insert_remote_entry(signed(ns, &a, e, base), [1u8; 32], ContentStatus::Missing).await; }
        drop(r);
        store.close_replica(ns.id());
        for (name, q) in [("key-then-author order", Query::all().include_empty().sort_by(crate::store::SortBy::KeyAuthor, crate::store::SortDirection::Asc).build()),
                          ("latest per key", Query::single_latest_per_key().include_empty().build())] {
            let mut got: Vec<(Vec<u8>, u64, bool)> = store.get_many(ns.id(), q).unwrap().map(|e| { let e = e.unwrap(); (e.key().to_vec(), e.timestamp() - base, e.is_empty()) }).collect();
            got.sort();
            assert_eq!(got, want, "WITNESS after offering {seq:?}: the {name} query shows {got:?}, point lookups show {want:?}");
        }
    }
    fn key_universe() -> Vec<Vec<u8>> { vec![vec![], vec![0x61], vec![0x61, 0x62], vec![0x62], vec![0x61, 0xff], vec![0x61; 40]] }
    fn perms(v: &[E]) -> Vec<Vec<E>> {
        if v.len() <= 1 { return vec![v.to_vec()]; }
        let mut out = vec![];
        for i in 0..v.len() {
            let mut rest = v.to_vec();
            let x = rest.remove(i);
            for mut p in perms(&rest) { p.insert(0, x.clone()); out.push(p); }
        }
        out
    }

    #[tokio::test]
    async fn state_is_order_independent_and_matches_reference() {
        let mut rng = rand::rng();
        let ns = NamespaceSecret::new(&mut rng);
        let mut store = Store::memory();
        drop(store.new_replica(ns.clone()).unwrap());
        store.close_replica(ns.id());
        let base = system_time_now() - 1_000_000;
        let keys: Vec<Vec<u8>> = key_universe();
        let mut univ = vec![];
        for k in &keys { for ts in [1u64, 2] { for marker in [false, true] { univ.push(E { key: k.clone(), ts, marker }); } } }
        let n = univ.len();
        let mut cases = 0usize;
        // thorough tier (VERIF_BX_DEPTH=thorough): sequences of up to four entries
        let deep = std::env::var("VERIF_BX_DEPTH").map(|v| v == "thorough").unwrap_or(false);
        for i in 0..n { for j in i..n { for k in j..n { for l in (if deep { k..n } else { k..k + 1 }) {
            let mut set = vec![univ[i].clone(), univ[j].clone(), univ[k].clone(), univ[l].clone()];
            set.sort(); set.dedup();
            // two entries at the same key with equal (ts, hash) are the same entry for the value order; skip same key+ts with different markers only when values tie
            let want = reference(&set);
            for p in perms(&set) {
                let got = run(&mut store, &ns, &p, base).await;
                if cases % 16 == 0 { by_key_agrees(&ns, &p, base, &got).await; }
                cases += 1;
                assert_eq!(got, want, "WITNESS offering {:?} in this order leaves {:?}, expected (any order) {:?}", p, got, want);
            }
        } } } }
        println!("c02_order: {cases} sequences checked");
    }

    /// Local deletions: `delete_prefix(P)` by an author (a marker stamped with the current time) and an older entry of that author at or below P,
    /// offered in both orders: the state is the same (only the marker), also when the author holds nothing below P at the time of the deletion.
    #[tokio::test]
    async fn local_deletion_commutes_with_older_entries() {
        let mut rng = rand::rng();
        let ns = NamespaceSecret::new(&mut rng);
        let base = system_time_now() - 1_000_000;
        for prefix in [&b""[..], b"a", b"ab"] { for key in key_universe().into_iter().filter(|k| k.starts_with(prefix)) { for deletion_first in [true, false] {
            let mut store = Store::memory();
            let mut r = store.new_replica(ns.clone()).unwrap();
            let a = Author::new(&mut rng);
            let old = signed(&ns, &a, &E { key: key.clone(), ts: 1, marker: false }, base);
            let mut answers = vec![];
            for step in 0..2 {
                if (step == 0) == deletion_first { answers.push(format!("{:?}", r.delete_prefix(prefix, &a).await)); }
                else { answers.push(format!("{:?}", r.insert_remote_entry(old.clone(), [1u8; 32], ContentStatus::Missing).await.map_err(|e| e.to_string()))); }
            }
            drop(r);
            store.close_replica(ns.id());
            let held: Vec<(Vec<u8>, bool)> = store.get_many(ns.id(), Query::all().include_empty()).unwrap().map(|e| { let e = e.unwrap(); (e.key().to_vec(), e.is_empty()) }).collect();
            assert_eq!(held, vec![(prefix.to_vec(), true)], "WITNESS delete_prefix({prefix:02x?}) and an older entry at {key:02x?} (deletion first: {deletion_first}; answers {answers:?}) leave {held:?}, expected only the deletion marker");
        } } }
    }
}
