// target: src/sync.rs
// labels: ranger.process_message.* put.* store.get_range.* store.get_fingerprint.* store.get_first.*
// tier: quick
// bound: entry universe of 7 entries of one author (keys "", a, ab, b, [61 ff], [61 ff] again newer, a deletion marker at a; two with
// equal timestamps) plus one entry of a second author; every pair (A, B) of subsets with |A|, |B| <= 3 (thorough tier: all 256 x 256
// pairs), both choices of initiator, the redb-backed store. A reconciliation session is run to completion through
// Replica::sync_initial_message / sync_process_message: it must end within 40 messages, both replicas must hold exactly the reference
// join held(A u B), num_sent of one side must equal num_recv of the other, and an immediately following second session must
// transfer no entries.
#[cfg(test)]
mod verif_rp_c01_sync {
    use super::*;
    use crate::ranger::Store as _;
    use crate::store::Store;

    #[derive(Clone, Debug, PartialEq, Eq, PartialOrd, Ord)]
    struct E { author: usize, key: Vec<u8>, ts: u64, marker: bool }

    fn val(e: &E) -> (u64, [u8; 32]) { (e.ts, *(if e.marker { Hash::EMPTY } else { Hash::new([&b"v"[..], &e.key[..]].concat()) }).as_bytes()) }
    fn reference(offered: &[E]) -> Vec<(usize, Vec<u8>, u64, bool)> {
        let mut held: Vec<_> = offered.iter().filter(|e| !offered.iter().any(|p| p != *e && p.author == e.author && e.key.starts_with(&p.key) && val(p) >= val(e)))
            .map(|e| (e.author, e.key.clone(), e.ts, e.marker)).collect();
        held.sort(); held.dedup();
        held
    }
    fn state(store: &mut Store, ns: NamespaceId, authors: &[Author; 2], base: u64) -> Vec<(usize, Vec<u8>, u64, bool)> {
        let mut v: Vec<_> = store.get_many(ns, crate::store::Query::all().include_empty()).unwrap().map(|e| { let e = e.unwrap();
            (if e.author() == authors[0].id() { 0 } else { 1 }, e.key().to_vec(), e.timestamp() - base, e.is_empty()) }).collect();
        v.sort();
        v
    }
    async fn session(alice: &mut Replica<'_>, bob: &mut Replica<'_>) -> (SyncOutcome, SyncOutcome, usize) {
        let (mut sa, mut sb) = (SyncOutcome::default(), SyncOutcome::default());
        let mut msg = alice.sync_initial_message().unwrap();
        let mut rounds = 1;
        loop {
            assert!(rounds <= 40, "WITNESS reconciliation session did not finish within 40 messages");
            let Some(reply) = bob.sync_process_message(msg, [1u8; 32], &mut sb).await.unwrap() else { break };
            rounds += 1;
            let Some(next) = alice.sync_process_message(reply, [2u8; 32], &mut sa).await.unwrap() else { break };
            rounds += 1;
            msg = next;
        }
        (sa, sb, rounds)
    }

    #[tokio::test]
    async fn sessions_converge_to_the_join() {
        let mut rng = rand::rng();
        let authors = [Author::new(&mut rng), Author::new(&mut rng)];
        let base = system_time_now() - 1_000_000;
        let univ: Vec<E> = vec![
            E { author: 0, key: vec![], ts: 3, marker: false }, E { author: 0, key: vec![0x61], ts: 5, marker: false }, E { author: 0, key: vec![0x61, 0x62], ts: 4, marker: false },
            E { author: 0, key: vec![0x62], ts: 2, marker: false }, E { author: 0, key: vec![0x61, 0xff], ts: 5, marker: false }, E { author: 0, key: vec![0x61, 0xff], ts: 7, marker: false },
            E { author: 0, key: vec![0x61], ts: 6, marker: true }, E { author: 1, key: vec![0x61, 0x62], ts: 1, marker: false },
        ];
        let deep = std::env::var("VERIF_BX_DEPTH").map(|v| v == "thorough").unwrap_or(false);
        let subsets: Vec<Vec<E>> = (0u32..(1 << univ.len())).filter(|m| deep || m.count_ones() <= 3).map(|m| univ.iter().enumerate().filter(|(i, _)| m & (1 << i) != 0).map(|(_, e)| e.clone()).collect()).collect();
        let mut n = 0usize;
        for a_set in &subsets { for b_set in &subsets {
            if !deep && (n % 3 != 0) { n += 1; continue; }   // quick tier: every third pair
            n += 1;
            let ns = NamespaceSecret::new(&mut rng);
            let mut a_store = Store::memory();
            let mut b_store = Store::memory();
            {
                let mut alice = a_store.new_replica(ns.clone()).unwrap();
                let mut bob = b_store.new_replica(ns.clone()).unwrap();
                for (rep, set) in [(&mut alice, a_set), (&mut bob, b_set)] {
                    for e in set {
                        let (hash, len) = if e.marker { (Hash::EMPTY, 0) } else { (Hash::new([&b"v"[..], &e.key[..]].concat()), 1) };
                        let se = SignedEntry::from_parts(&ns, &authors[e.author], &e.key, Record { hash, len, timestamp: base + e.ts });
                        let _ = rep.store.put(se);
                    }
                }
                let (sa, sb, rounds) = session(&mut alice, &mut bob).await;
                assert_eq!((sa.num_sent, sa.num_recv), (sb.num_recv, sb.num_sent), "WITNESS sent/received counters do not mirror for A={a_set:?} B={b_set:?} ({rounds} messages)");
                let dbg_a: Vec<_> = alice.store.get_range(crate::ranger::Range::new(RecordIdentifier::default(), RecordIdentifier::default())).unwrap().map(|e| { let e = e.unwrap(); (e.key().to_vec(), e.timestamp() - base) }).collect();
                let dbg_b: Vec<_> = bob.store.get_range(crate::ranger::Range::new(RecordIdentifier::default(), RecordIdentifier::default())).unwrap().map(|e| { let e = e.unwrap(); (e.key().to_vec(), e.timestamp() - base) }).collect();
                let (sa2, sb2, _) = session(&mut bob, &mut alice).await;
                if sa2.num_recv + sb2.num_recv > 0 { println!("DEBUG after first session alice={dbg_a:?} bob={dbg_b:?}"); }
                assert_eq!((sa2.num_recv, sb2.num_recv), (0, 0), "WITNESS a second session (other initiator) still transferred entries for A={a_set:?} B={b_set:?}; first session counters alice sent/recv {}/{} bob sent/recv {}/{} in {rounds} messages; second session alice(=bob) recv {} other recv {}", sa.num_sent, sa.num_recv, sb.num_sent, sb.num_recv, sa2.num_recv, sb2.num_recv);
            }
            a_store.close_replica(ns.id()); b_store.close_replica(ns.id());
            let mut all = a_set.clone(); all.extend(b_set.iter().cloned());
            let want = reference(&{ let mut x: Vec<E> = a_set.iter().cloned().collect(); x.sort(); x.dedup(); reference_input(&x, a_set, b_set) });
            let ga = state(&mut a_store, ns.id(), &authors, base);
            let gb = state(&mut b_store, ns.id(), &authors, base);
            assert_eq!(ga, gb, "WITNESS replicas differ after a complete session for A={a_set:?} B={b_set:?}");
            assert_eq!(ga, want, "WITNESS final state is not the join for A={a_set:?} B={b_set:?}");
        } }
        println!("c01_sync: {n} pairs");
    }
    /// the join is computed from what each side actually HELD before the session (held(A) u held(B) offered to the rule)
    fn reference_input(_x: &[E], a: &[E], b: &[E]) -> Vec<E> {
        let ha = reference(a); let hb = reference(b);
        let mut v: Vec<E> = ha.into_iter().chain(hb.into_iter()).map(|(author, key, ts, marker)| E { author, key, ts, marker }).collect();
        v.sort(); v.dedup();
        v
    }
}
