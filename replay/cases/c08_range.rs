// target: src/sync.rs
// labels: store.get_range.* store.get_fingerprint.* store.get_first.* bounds.from_start.* bounds.to_end.* bounds.namespace.* bounds.new.*
// tier: quick
// bound: one store with three documents, two authors, keys over {"", a, ab, b, [61 ff]} (10 rows per document, one deletion marker per author); for every document as
// the replica and every pair (x, y) of ids out of its rows (plus the default id with itself): get_range, get_range_len, get_fingerprint and get_first
// compared with the ordered-map definition (x<y: [x,y); x>y: ids < y followed by ids >= x; x==y: everything), other documents' rows
// must never appear. A fourth, empty document whose id sorts below another document's: get_first is the default id, the full range is empty.
#[cfg(test)]
mod verif_rp_c08_range {
    use super::*;
    use crate::ranger::{Fingerprint, Range, RangeEntry, Store as _};
    use crate::store::fs::StoreInstance;
    use crate::store::Store;

    #[tokio::test]
    async fn range_scans_match_ordered_map() {
        let mut rng = rand::rng();
        let authors = [Author::new(&mut rng), Author::new(&mut rng)];
        let docs = [NamespaceSecret::new(&mut rng), NamespaceSecret::new(&mut rng), NamespaceSecret::new(&mut rng)];
        let base = system_time_now() - 1_000_000;
        let keys: Vec<Vec<u8>> = vec![vec![], vec![0x61], vec![0x61, 0x62], vec![0x62], vec![0x61, 0xff]];
        let mut store = Store::memory();
        for ns in &docs {
            let mut r = store.new_replica(ns.clone()).unwrap();
            // longest keys first with increasing timestamps so that nothing is pruned
            let mut ks = keys.clone(); ks.sort_by_key(|k| std::cmp::Reverse(k.len()));
            let mut t = 1;
            for a in &authors { for k in &ks {
                let e = SignedEntry::from_parts(ns, a, k, Record { hash: Hash::new(b"x"), len: 1, timestamp: base + t });
                t += 1;
                // entries at a prefix are newer and would prune the longer ones: give the prefix entries OLDER timestamps instead
                let _ = e;
            } }
            let mut t = 100;
            for a in &authors { for k in &ks {
                t -= 1;
                // one deletion marker per author and document (key [62]): markers are rows like any other for ranges and fingerprints
                let (hash, len) = if *k == vec![0x62u8] { (Hash::EMPTY, 0) } else { (Hash::new(b"x"), 1) };
                let e = SignedEntry::from_parts(ns, a, k, Record { hash, len, timestamp: base + t });
                r.insert_remote_entry(e, [1u8; 32], ContentStatus::Missing).await.unwrap();
            } }
            drop(r);
            store.close_replica(ns.id());
        }
        {
            // an empty document that is not the last one in table order
            let top = docs.iter().map(|d| d.id()).max().unwrap();
            let empty = loop { let s = NamespaceSecret::new(&mut rng); if s.id() < top { break s; } };
            let r = store.new_replica(empty.clone()).unwrap();
            drop(r);
            store.close_replica(empty.id());
            let mut inst = StoreInstance::new(empty.id(), &mut store);
            assert_eq!(inst.get_first().unwrap(), RecordIdentifier::default(), "WITNESS get_first of an empty document {} is not the default id", empty.id().fmt_short());
            let n = inst.get_range(Range::new(RecordIdentifier::default(), RecordIdentifier::default())).unwrap().count();
            assert_eq!(n, 0, "WITNESS full range of the empty document {} has {} rows", empty.id().fmt_short(), n);
            assert_eq!(inst.get_fingerprint(&Range::new(RecordIdentifier::default(), RecordIdentifier::default())).unwrap(), Fingerprint::empty(), "WITNESS fingerprint of an empty document is not the empty fingerprint");
        }
        for ns in &docs {
            let mut inst = StoreInstance::new(ns.id(), &mut store);
            let all: Vec<SignedEntry> = inst.get_range(Range::new(RecordIdentifier::default(), RecordIdentifier::default())).unwrap().collect::<Result<Vec<_>, _>>().unwrap();
            assert_eq!(all.len(), authors.len() * keys.len(), "WITNESS full range of document {} has {} rows, expected {}", ns.id().fmt_short(), all.len(), authors.len() * keys.len());
            assert!(all.iter().all(|e| e.namespace() == ns.id()), "WITNESS full range of document {} contains rows of another document", ns.id().fmt_short());
            let mut sorted = all.clone(); sorted.sort_by(|a, b| a.id().cmp(b.id()));
            assert_eq!(all.iter().map(|e| e.id().clone()).collect::<Vec<_>>(), sorted.iter().map(|e| e.id().clone()).collect::<Vec<_>>(), "WITNESS full range not ascending");
            let first = inst.get_first().unwrap();
            assert_eq!(&first, sorted[0].id(), "WITNESS get_first is not the smallest id of the document");
            let points: Vec<RecordIdentifier> = sorted.iter().map(|e| e.id().clone()).collect();
            let mut pairs: Vec<(RecordIdentifier, RecordIdentifier)> = vec![(RecordIdentifier::default(), RecordIdentifier::default())];
            for x in &points { for y in &points { pairs.push((x.clone(), y.clone())); } }
            for (x, y) in &pairs { {
                let want: Vec<RecordIdentifier> = match x.cmp(y) {
                    std::cmp::Ordering::Equal => sorted.iter().map(|e| e.id().clone()).collect(),
                    std::cmp::Ordering::Less => sorted.iter().map(|e| e.id().clone()).filter(|i| x <= i && i < y).collect(),
                    std::cmp::Ordering::Greater => sorted.iter().map(|e| e.id().clone()).filter(|i| i < y).chain(sorted.iter().map(|e| e.id().clone()).filter(|i| i >= x)).collect(),
                };
                let range = Range::new(x.clone(), y.clone());
                let got: Vec<RecordIdentifier> = inst.get_range(range.clone()).unwrap().map(|e| e.unwrap().id().clone()).collect();
                assert_eq!(got, want, "WITNESS get_range(x={x:?}, y={y:?}) on document {}", ns.id().fmt_short());
                assert_eq!(inst.get_range_len(range.clone()).unwrap(), want.len(), "WITNESS get_range_len(x={x:?}, y={y:?})");
                let mut fp = Fingerprint::empty();
                for e in sorted.iter().filter(|e| want.contains(e.id())) { fp ^= e.as_fingerprint(); }
                assert_eq!(inst.get_fingerprint(&range).unwrap(), fp, "WITNESS get_fingerprint(x={x:?}, y={y:?})");
            } }
        }
    }
}
