// target: src/net/codec.rs
// labels: codec.bob.* codec.alice.* net.handle_connection.*
// tier: quick
// bound: accepting side: every sequence of up to 3 frames (thorough tier: 4) over {Init for the document carrying a fingerprint, Init carrying an
// entry, Init for an unknown document, Sync carrying a fingerprint, Sync carrying an entry, Abort, undecodable frame}, optionally cut in the middle of
// its last frame, then end of stream; accept callback in {allow, reject not-found, reject already-syncing}; replica in {open and syncing, open with
// sync disabled, not open}; the real BobState::run over an in-memory duplex stream against a real store actor. Initiating side: run_alice against every
// scripted reply sequence of up to 3 frames over the same alphabet, replica syncing or not open. Checked: both sides return within 10 s without
// panicking, the accepting side reports its outcome, a declined peer is sent exactly one Abort frame with the reason, a broken first reply is an
// error on the initiating side, a declined or never-accepted request leaves the store unchanged, only the smuggled entry can appear
// and only after the callback allowed the request on a syncing replica.
#[cfg(test)]
mod verif_rp_c10_session {
    use std::time::Duration;

    use iroh::SecretKey;
    use tokio::io::{AsyncReadExt, AsyncWriteExt};

    use super::*;
    use crate::{actor::OpenOpts, store::{self, Query}, sync::SignedEntry, NamespaceSecret};

    #[derive(Clone, Copy, Debug, PartialEq, Eq)]
    enum Fr { InitFp, InitEntry, InitUnknown, SyncFp, SyncEntry, Abort, Garbage }
    const ALPHABET: [Fr; 7] = [Fr::InitFp, Fr::InitEntry, Fr::InitUnknown, Fr::SyncFp, Fr::SyncEntry, Fr::Abort, Fr::Garbage];
    #[derive(Clone, Copy, Debug, PartialEq, Eq)]
    enum Cb { Allow, RejectNotFound, RejectBusy }
    #[derive(Clone, Copy, Debug, PartialEq, Eq)]
    enum Rep { Syncing, NoSync, Closed }

    struct Ctx { ns: NamespaceSecret, other: NamespaceSecret, fp: crate::ranger::Message<SignedEntry>, with_entry: crate::ranger::Message<SignedEntry> }

    async fn ctx() -> Ctx {
        let mut rng = rand::rng();
        let ns = NamespaceSecret::new(&mut rng);
        let other = NamespaceSecret::new(&mut rng);
        let mut carol_store = store::Store::memory();
        let author = carol_store.new_author(&mut rng).unwrap();
        let mut carol = carol_store.new_replica(ns.clone()).unwrap();
        carol.hash_and_insert("smuggled", &author, "smuggled").await.unwrap();
        let mut empty_store = store::Store::memory();
        let mut empty = empty_store.new_replica(ns.clone()).unwrap();
        let fp = empty.sync_initial_message().unwrap();
        let with_entry = carol.sync_process_message(fp.clone(), [9u8; 32], &mut SyncOutcome::default()).await.unwrap().expect("answer carries the entry");
        assert_eq!(with_entry.value_count(), 1);
        Ctx { ns, other, fp, with_entry }
    }

    fn bytes_of(ctx: &Ctx, seq: &[Fr], cut_last: bool) -> Vec<u8> {
        let mut out = BytesMut::new();
        let mut last_start = 0;
        for f in seq {
            last_start = out.len();
            let msg = match f {
                Fr::InitFp => Some(Message::Init { namespace: ctx.ns.id(), message: ctx.fp.clone() }),
                Fr::InitEntry => Some(Message::Init { namespace: ctx.ns.id(), message: ctx.with_entry.clone() }),
                Fr::InitUnknown => Some(Message::Init { namespace: ctx.other.id(), message: ctx.fp.clone() }),
                Fr::SyncFp => Some(Message::Sync(ctx.fp.clone())),
                Fr::SyncEntry => Some(Message::Sync(ctx.with_entry.clone())),
                Fr::Abort => Some(Message::Abort { reason: AbortReason::AlreadySyncing }),
                Fr::Garbage => None,
            };
            match msg {
                Some(m) => SyncCodec.encode(m, &mut out).unwrap(),
                None => { out.put_u32(5); out.put_slice(&[0xff, 0xff, 0xff, 0xff, 0xff]); }
            }
        }
        let mut v = out.to_vec();
        if cut_last && !seq.is_empty() { let keep = last_start + (v.len() - last_start) / 2; v.truncate(keep); }
        v
    }

    async fn actor(ctx: &Ctx, rep: Rep) -> SyncHandle {
        let mut st = store::Store::memory();
        st.new_replica(ctx.ns.clone()).unwrap();
        st.close_replica(ctx.ns.id());
        let handle = SyncHandle::spawn(st, None, "verif".to_string());
        match rep {
            Rep::Syncing => handle.open(ctx.ns.id(), OpenOpts::default().sync()).await.unwrap(),
            Rep::NoSync => handle.open(ctx.ns.id(), OpenOpts::default()).await.unwrap(),
            Rep::Closed => {}
        }
        handle
    }

    async fn accept_side(ctx: &Ctx, seq: &[Fr], cut: bool, cb: Cb, rep: Rep) {
        let what = format!("accepting side, frames {seq:?}{} then end of stream, callback {cb:?}, replica {rep:?}", if cut { " (last frame cut in the middle)" } else { "" });
        let handle = actor(ctx, rep).await;
        let peer = SecretKey::from_bytes(&[1u8; 32]).public();
        let (alice_io, bob_io) = tokio::io::duplex(1 << 20);
        let (bob_reader, bob_writer) = tokio::io::split(bob_io);
        let h2 = handle.clone();
        let task = tokio::task::spawn(async move {
            let mut state = BobState::new(peer);
            let res = state.run(bob_writer, bob_reader, h2, move |_ns, _peer| std::future::ready(match cb {
                Cb::Allow => AcceptOutcome::Allow,
                Cb::RejectNotFound => AcceptOutcome::Reject(AbortReason::NotFound),
                Cb::RejectBusy => AcceptOutcome::Reject(AbortReason::AlreadySyncing),
            })).await;
            let ns = state.namespace();
            (res.map_err(|e| format!("{e:?}")), ns, state.into_outcome())
        });
        let (mut alice_reader, mut alice_writer) = tokio::io::split(alice_io);
        // the side under test may have ended (and closed the stream) before the whole script is written: a closed pipe is not a finding
        let _ = alice_writer.write_all(&bytes_of(ctx, seq, cut)).await;
        let _ = alice_writer.shutdown().await;
        let joined = tokio::time::timeout(Duration::from_secs(40), task).await;
        let joined = match joined { Ok(j) => j, Err(_) => panic!("WITNESS {what}: still waiting after 40 s") };
        let (res, ns, _outcome) = match joined { Ok(r) => r, Err(e) => panic!("WITNESS {what}: panicked ({e})") };
        // "the accepting side can always report its outcome": once a request was allowed, the document it was for is known, whatever happens next
        if cb == Cb::Allow && !(cut && seq.len() == 1) {
            let want = match seq.first() { Some(Fr::InitFp) | Some(Fr::InitEntry) => Some(ctx.ns.id()), Some(Fr::InitUnknown) => Some(ctx.other.id()), _ => None };
            if want.is_some() { assert_eq!(ns, want, "WITNESS {what}: the request was allowed, but the acceptor cannot name the document of the session (it reports {ns:?})"); }
        }
        // what the acceptor wrote (its writer is dropped with the finished task): a declined request must have been answered with an Abort frame
        let mut written = vec![];
        let _ = tokio::time::timeout(Duration::from_secs(40), alice_reader.read_to_end(&mut written)).await;
        let mut buf = BytesMut::from(&written[..]);
        let mut replies = vec![];
        while let Ok(Some(m)) = SyncCodec.decode(&mut buf) { replies.push(m); }
        if cb != Cb::Allow && matches!(seq.first(), Some(Fr::InitFp) | Some(Fr::InitEntry) | Some(Fr::InitUnknown)) && !(cut && seq.len() == 1) {
            let want = if cb == Cb::RejectNotFound { AbortReason::NotFound } else { AbortReason::AlreadySyncing };
            assert!(matches!(replies.as_slice(), [Message::Abort { reason }] if *reason == want), "WITNESS {what}: the declined peer was not sent exactly one Abort({want:?}) frame, it received {replies:?}");
        }
        let mut st = match tokio::time::timeout(Duration::from_secs(40), handle.shutdown()).await {
            Ok(Ok(st)) => st,
            other => panic!("WITNESS {what}: the store actor does not shut down afterwards ({:?})", other.map(|r| r.map(|_| ()))),
        };
        let held: Vec<String> = st.get_many(ctx.ns.id(), Query::all().include_empty()).unwrap().map(|e| String::from_utf8_lossy(e.unwrap().key()).to_string()).collect();
        let first_is_init_for_doc = matches!(seq.first(), Some(Fr::InitFp) | Some(Fr::InitEntry)) && !(cut && seq.len() == 1);
        let may_store = cb == Cb::Allow && rep == Rep::Syncing && first_is_init_for_doc;
        if !may_store {
            assert!(held.is_empty(), "WITNESS {what}: the request was never accepted on a syncing replica, but the store now holds {held:?} (result {res:?})");
        }
        assert!(held.iter().all(|k| k == "smuggled"), "WITNESS {what}: store holds {held:?}");
        if cb != Cb::Allow && matches!(seq.first(), Some(Fr::InitFp) | Some(Fr::InitEntry) | Some(Fr::InitUnknown)) && !(cut && seq.len() == 1) {
            assert!(matches!(&res, Err(e) if e.starts_with("Abort")), "WITNESS {what}: a declined request must end with AcceptError::Abort, got {res:?}");
        }
        if seq.is_empty() || !matches!(seq.first(), Some(Fr::InitFp) | Some(Fr::InitEntry) | Some(Fr::InitUnknown)) {
            assert!(res.is_err(), "WITNESS {what}: no handshake, but the session reports success {res:?}");
        }
    }

    async fn initiating_side(ctx: &Ctx, seq: &[Fr], cut: bool, rep: Rep) {
        let what = format!("initiating side, scripted replies {seq:?}{} then end of stream, replica {rep:?}", if cut { " (last frame cut in the middle)" } else { "" });
        let handle = actor(ctx, rep).await;
        let peer = SecretKey::from_bytes(&[2u8; 32]).public();
        let (alice_io, bob_io) = tokio::io::duplex(1 << 20);
        let (mut alice_reader, mut alice_writer) = tokio::io::split(alice_io);
        let h2 = handle.clone();
        let ns = ctx.ns.id();
        let task = tokio::task::spawn(async move {
            let res = run_alice(&mut alice_writer, &mut alice_reader, &h2, ns, peer).await;
            res.map_err(|e| format!("{e:?}"))
        });
        let (_bob_reader, mut bob_writer) = tokio::io::split(bob_io);
        let _ = bob_writer.write_all(&bytes_of(ctx, seq, cut)).await;
        let _ = bob_writer.shutdown().await;
        let joined = match tokio::time::timeout(Duration::from_secs(40), task).await { Ok(j) => j, Err(_) => panic!("WITNESS {what}: still waiting after 40 s") };
        let res = match joined { Ok(r) => r, Err(e) => panic!("WITNESS {what}: panicked ({e})") };
        if rep != Rep::Syncing { assert!(res.is_err(), "WITNESS {what}: replica is not syncing but the session reports success {res:?}"); }
        // the reply to the Init frame is always read: if it is undecodable, cut short or not a reply at all the session must not report success
        if rep == Rep::Syncing && (matches!(seq.first(), Some(Fr::Garbage) | Some(Fr::InitFp) | Some(Fr::InitEntry) | Some(Fr::InitUnknown)) || (cut && seq.len() == 1)) {
            assert!(res.is_err(), "WITNESS {what}: the first reply is broken or not a reply, but the initiating side reports success {res:?}");
        }
        if matches!(seq.first(), Some(Fr::Abort)) && rep == Rep::Syncing && !(cut && seq.len() == 1) { assert!(matches!(&res, Err(e) if e.starts_with("RemoteAbort")), "WITNESS {what}: remote abort not reported: {res:?}"); }
        let mut st = match tokio::time::timeout(Duration::from_secs(40), handle.shutdown()).await {
            Ok(Ok(st)) => st,
            other => panic!("WITNESS {what}: the store actor does not shut down afterwards ({:?})", other.map(|r| r.map(|_| ()))),
        };
        let held: Vec<String> = st.get_many(ctx.ns.id(), Query::all().include_empty()).unwrap().map(|e| String::from_utf8_lossy(e.unwrap().key()).to_string()).collect();
        if rep != Rep::Syncing { assert!(held.is_empty(), "WITNESS {what}: store holds {held:?}"); }
        assert!(held.iter().all(|k| k == "smuggled"), "WITNESS {what}: store holds {held:?}");
    }

    fn sequences(depth: usize) -> Vec<Vec<Fr>> {
        let mut all: Vec<Vec<Fr>> = vec![vec![]];
        let mut layer: Vec<Vec<Fr>> = vec![vec![]];
        for _ in 0..depth {
            let mut next = vec![];
            for s in &layer { for f in ALPHABET { let mut t = s.clone(); t.push(f); next.push(t); } }
            all.extend(next.iter().cloned());
            layer = next;
        }
        all
    }

    #[tokio::test(flavor = "multi_thread", worker_threads = 2)]
    async fn accepting_side_every_frame_sequence() {
        let ctx = ctx().await;
        let depth = if std::env::var("VERIF_BX_DEPTH").map(|v| v == "thorough").unwrap_or(false) { 4 } else { 3 };
        let mut n = 0usize;
        for seq in sequences(depth) { for cut in [false, true] { if cut && seq.is_empty() { continue; } for cb in [Cb::Allow, Cb::RejectNotFound, Cb::RejectBusy] { for rep in [Rep::Syncing, Rep::NoSync, Rep::Closed] {
            // the callback only matters once an Init frame arrives first; skip redundant combinations
            if cb != Cb::Allow && !matches!(seq.first(), Some(Fr::InitFp) | Some(Fr::InitEntry) | Some(Fr::InitUnknown)) { continue; }
            accept_side(&ctx, &seq, cut, cb, rep).await; n += 1;
        } } } }
        println!("c10_session: {n} accepting-side sessions");
    }

    #[tokio::test(flavor = "multi_thread", worker_threads = 2)]
    async fn initiating_side_every_reply_sequence() {
        let ctx = ctx().await;
        let depth = if std::env::var("VERIF_BX_DEPTH").map(|v| v == "thorough").unwrap_or(false) { 4 } else { 3 };
        let mut n = 0usize;
        for seq in sequences(depth) { for cut in [false, true] { if cut && seq.is_empty() { continue; } for rep in [Rep::Syncing, Rep::Closed] {
            initiating_side(&ctx, &seq, cut, rep).await; n += 1;
        } } }
        println!("c10_session: {n} initiating-side sessions");
    }
}
