// target: src/store/fs.rs
// labels: peers.register.* peers.get.* store.remove_replica.peers-gone
// tier: quick
// bound: one persistent store, two documents, peers out of 7 ids; every sequence of up to 4 steps (thorough tier: 5) over {register peer p for document A
// (p in 1..=7 cycling), register the next peer for document B, reopen the store (flush, drop, open the file again after 2 ms), reopen it without
// flushing first (a dropped store commits what is pending), remove and re-create document B}
// followed by two closing registrations for A; after every step get_sync_peers of both documents is compared with the model of C17: at most five
// distinct peers per document, most recently registered first, re-registration moves to the front, documents independent, the list survives
// reopening, a removed document has no peers and starts empty when re-created, registering for an unknown document fails. Through the store actor:
// every open/closed pattern over six registrations (64 x 6): accepted either way, listed once the document is open.
#[cfg(all(test, feature = "fs-store"))]
mod verif_rp_c17_peers {
    use super::*;

    #[derive(Clone, Copy, Debug, PartialEq, Eq)]
    enum Step { RegA(u8), RegB, Reopen, ReopenWithoutFlush, RecreateB }

    fn model_register(list: &mut Vec<u8>, p: u8) { list.retain(|x| *x != p); list.insert(0, p); list.truncate(5); }
    fn got(store: &mut Store, ns: &NamespaceId) -> Vec<u8> { store.get_sync_peers(ns).unwrap().map(|it| it.map(|p| p[0]).collect()).unwrap_or_default() }

    fn run(seq: &[Step], doc_a: &NamespaceSecret, doc_b: &NamespaceSecret) {
        let dir = tempfile::tempdir().unwrap();
        let path = dir.path().join("docs.redb");
        let mut store = Store::persistent(&path).unwrap();
        store.import_namespace(Capability::Write(doc_a.clone())).unwrap();
        store.import_namespace(Capability::Write(doc_b.clone())).unwrap();
        let (mut a, mut b): (Vec<u8>, Vec<u8>) = (vec![], vec![]);
        let mut next_b = 10u8;
        let mut all = seq.to_vec();
        all.push(Step::RegA(6)); all.push(Step::RegA(1));
        for (i, st) in all.iter().enumerate() {
            // distinct clock readings for consecutive registrations
            std::thread::sleep(std::time::Duration::from_micros(50));
            match st {
                Step::RegA(p) => { store.register_useful_peer(doc_a.id(), [*p; 32]).unwrap(); model_register(&mut a, *p); }
                Step::RegB => { next_b += 1; store.register_useful_peer(doc_b.id(), [next_b; 32]).unwrap(); model_register(&mut b, next_b); }
                Step::Reopen => { store.flush().unwrap(); drop(store); std::thread::sleep(std::time::Duration::from_millis(2)); store = Store::persistent(&path).unwrap(); }
                // a store that is dropped commits what is pending (`impl Drop for Store`): the registrations since the last flush must not be lost
                Step::ReopenWithoutFlush => { drop(store); std::thread::sleep(std::time::Duration::from_millis(2)); store = Store::persistent(&path).unwrap(); }
                Step::RecreateB => {
                    store.remove_replica(&doc_b.id()).unwrap();
                    assert_eq!(got(&mut store, &doc_b.id()), Vec::<u8>::new(), "WITNESS a removed document still reports useful peers (step {i} of {all:?})");
                    assert!(store.register_useful_peer(doc_b.id(), [99u8; 32]).is_err(), "WITNESS registering a peer for a removed document succeeds (step {i} of {all:?})");
                    store.import_namespace(Capability::Write(doc_b.clone())).unwrap();
                    b.clear();
                }
            }
            assert_eq!(got(&mut store, &doc_a.id()), a, "WITNESS useful peers of document A after step {i} ({st:?}) of {all:?} (first byte of each id, most recent first)");
            assert_eq!(got(&mut store, &doc_b.id()), b, "WITNESS useful peers of document B after step {i} ({st:?}) of {all:?}");
        }
    }

    #[test]
    fn peers_are_the_five_most_recent_per_document_across_reopen_and_removal() {
        let mut rng = rand::rng();
        let doc_a = NamespaceSecret::new(&mut rng);
        let doc_b = NamespaceSecret::new(&mut rng);
        let depth = if std::env::var("VERIF_BX_DEPTH").map(|v| v == "thorough").unwrap_or(false) { 5 } else { 4 };
        // unknown document
        {
            let mut store = Store::memory();
            assert!(store.register_useful_peer(doc_a.id(), [1u8; 32]).is_err(), "WITNESS registering a peer for an unknown document succeeds");
        }
        // a long single-document history first: 7 distinct peers, re-registrations
        let long: Vec<Step> = [1u8, 2, 3, 4, 5, 6, 7, 3, 1, 7, 7, 2].iter().map(|p| Step::RegA(*p)).collect();
        run(&long, &doc_a, &doc_b);
        let mut with_reopen = long.clone(); with_reopen.insert(6, Step::Reopen); with_reopen.insert(3, Step::RegB);
        run(&with_reopen, &doc_a, &doc_b);
        let mut layer: Vec<Vec<Step>> = vec![vec![]];
        let mut n = 0usize;
        for d in 0..depth {
            let mut next = vec![];
            for s in &layer { for st in [Step::RegA((d as u8 * 2 + s.len() as u8) % 7 + 1), Step::RegA(1), Step::RegB, Step::Reopen, Step::ReopenWithoutFlush, Step::RecreateB] { let mut t = s.clone(); t.push(st); next.push(t); } }
            layer = next;
        }
        // prefix of five registrations so that eviction is in play
        for s in &layer { let mut full: Vec<Step> = (1u8..=4).map(Step::RegA).collect(); full.push(Step::RegB); full.push(Step::RegB); full.extend(s.iter().cloned()); run(&full, &doc_a, &doc_b); n += 1; }
        println!("c17_peers: {n} histories");
    }

    /// through the store actor (the path the live engine uses): a registration is accepted for a known document whether or not it is open at
    /// that moment (a sync can finish after the document was closed), and is part of the list once the document is opened again
    #[tokio::test]
    async fn registrations_through_the_actor_do_not_depend_on_the_document_being_open() {
        use crate::actor::{OpenOpts, SyncHandle};
        let mut rng = rand::rng();
        let doc = NamespaceSecret::new(&mut rng);
        let unknown = NamespaceSecret::new(&mut rng);
        let handle = SyncHandle::spawn(Store::memory(), None, "c17".to_string());
        let ns = handle.import_namespace(Capability::Write(doc.clone())).await.unwrap();
        let mut model: Vec<u8> = vec![];
        let mut p = 0u8;
        // every pattern of open/closed over six registrations
        for pattern in 0u32..64 {
            for step in 0..6 {
                let want_open = pattern >> step & 1 == 1;
                if want_open { handle.open(ns, OpenOpts::default()).await.unwrap(); }
                tokio::time::sleep(std::time::Duration::from_micros(50)).await;
                p = p % 7 + 1;
                let res = handle.register_useful_peer(ns, [p; 32]).await;
                assert!(res.is_ok(), "WITNESS registering a useful peer for a known document that is {} fails: {res:?}", if want_open { "open" } else { "closed" });
                model_register(&mut model, p);
                if !want_open { handle.open(ns, OpenOpts::default()).await.unwrap(); }
                let got: Vec<u8> = handle.get_sync_peers(ns).await.unwrap().map(|v| v.iter().map(|x| x[0]).collect()).unwrap_or_default();
                assert_eq!(got, model, "WITNESS useful peers reported by the actor after registering while the document was {}", if want_open { "open" } else { "closed" });
                handle.close(ns).await.unwrap();
            }
        }
        assert!(handle.register_useful_peer(unknown.id(), [1u8; 32]).await.is_err(), "WITNESS the actor accepts a useful peer for an unknown document");
        handle.shutdown().await.unwrap();
    }
}
