// target: src/store/fs.rs
// labels: mig.v2tuples.*
// tier: quick
// bound: one store built through the current API (two documents - one write, one read capability -, two authors, 8 entries incl. a deletion marker, two
// entries of one author at the same greatest timestamp (the maintained head names the later written one) and
// keys with 0xff bytes, a download policy, three useful peers), copied table by table into a file in the format iroh-docs 0.94..=0.98 wrote (redb 2.x
// tuple tags on records / by-key / heads); that file is opened with Store::persistent (file-format migration + table migrations) and every observable
// (documents with capability kind, authors, entries by both query paths, heads, policy, peers) must equal the original; a second reopen changes nothing.
// The same with a legacy file that lacks the derived tables (heads, by-key index): they must be rebuilt by that first open.
#[cfg(all(test, feature = "fs-store", feature = "redb-v2-migration"))]
mod verif_rp_c18_legacy_file {
    use redb::{ReadableMultimapTable as _, ReadableTable as _};

    use super::*;
    use crate::store::{DownloadPolicy, FilterKind, SortBy, SortDirection};
    use crate::sync::Record;

    type Obs = (Vec<(Vec<u8>, String)>, Vec<Vec<u8>>, Vec<Vec<(Vec<u8>, Vec<u8>, u64, u64, bool)>>, Vec<Vec<(Vec<u8>, Vec<u8>, u64, u64, bool)>>, Vec<Vec<(Vec<u8>, u64, Vec<u8>)>>, Vec<String>, Vec<Option<Vec<Vec<u8>>>>);

    fn observe(store: &mut Store, docs: &[NamespaceId]) -> Obs {
        let mut namespaces: Vec<(Vec<u8>, String)> = store.list_namespaces().unwrap().map(|r| { let (id, kind) = r.unwrap(); (id.to_bytes().to_vec(), kind.to_string()) }).collect();
        namespaces.sort();
        let mut authors: Vec<Vec<u8>> = store.list_authors().unwrap().map(|a| a.unwrap().to_bytes().to_vec()).collect();
        authors.sort();
        let row = |e: SignedEntry| (e.author().to_bytes().to_vec(), e.key().to_vec(), e.timestamp(), e.content_len(), e.is_empty());
        let mut by_author = vec![]; let mut by_key = vec![]; let mut heads = vec![]; let mut policies = vec![]; let mut peers = vec![];
        for d in docs {
            by_author.push(store.get_many(*d, Query::all().include_empty().sort_by(SortBy::AuthorKey, SortDirection::Asc)).unwrap().map(|e| row(e.unwrap())).collect());
            by_key.push(store.get_many(*d, Query::all().include_empty().sort_by(SortBy::KeyAuthor, SortDirection::Asc)).unwrap().map(|e| row(e.unwrap())).collect());
            heads.push(store.get_latest_for_each_author(*d).unwrap().map(|x| { let (a, t, k) = x.unwrap(); (a.to_bytes().to_vec(), t, k) }).collect());
            policies.push(format!("{:?}", store.get_download_policy(d).unwrap()));
            peers.push(store.get_sync_peers(d).unwrap().map(|it| it.map(|p| p.to_vec()).collect()));
        }
        (namespaces, authors, by_author, by_key, heads, policies, peers)
    }

    #[tokio::test]
    async fn legacy_file_reopens_with_everything_in_it() {
        let mut rng = rand::rng();
        let write_doc = NamespaceSecret::new(&mut rng);
        let read_doc = NamespaceSecret::new(&mut rng);
        let authors = [Author::new(&mut rng), Author::new(&mut rng)];
        let docs = [write_doc.id(), read_doc.id()];
        let base = crate::sync::Record::empty_current().timestamp() - 1_000_000;

        // the reference: a store built through the current API
        let dir = tempfile::tempdir().unwrap();
        let ref_path = dir.path().join("reference.redb");
        let mut reference = Store::persistent(&ref_path).unwrap();
        reference.import_namespace(Capability::Write(write_doc.clone())).unwrap();
        reference.import_namespace(Capability::Read(read_doc.id())).unwrap();
        for a in &authors { reference.import_author(a.clone()).unwrap(); }
        let keys: [&[u8]; 4] = [b"a", b"a\xff", b"a\xff\xff", b""];
        let mut t = 0;
        for (nss, open_id) in [(&write_doc, docs[0]), (&read_doc, docs[1])] {
            let mut r = reference.open_replica(&open_id).unwrap();
            for (i, k) in keys.iter().enumerate() {
                let a = &authors[i % 2];
                t += 1;
                let rec = if *k == b"a\xff\xff" { Record::empty(base + t) } else { Record::new(Hash::new([b"x".as_slice(), k].concat()), 1 + i as u64, base + t) };
                if k.is_empty() && open_id == docs[1] { continue; }
                let e = SignedEntry::from_parts(nss, a, k, rec);
                r.insert_remote_entry(e, [9u8; 32], crate::ContentStatus::Missing).await.unwrap();
            }
            if open_id == docs[0] {
                // two entries of one author at the same, greatest timestamp, the one with the smaller key written later: the maintained head names the
                // later one ("tb"), a rebuild from the records would name the greater key ("tz")
                for k in [b"tz".as_slice(), b"tb".as_slice()] {
                    let e = SignedEntry::from_parts(nss, &authors[1], k, Record::new(Hash::new(k), 2, base + 500));
                    r.insert_remote_entry(e, [9u8; 32], crate::ContentStatus::Missing).await.unwrap();
                }
            }
            drop(r);
            reference.close_replica(open_id);
        }
        reference.set_download_policy(&docs[0], DownloadPolicy::NothingExcept(vec![FilterKind::Prefix("a".into()), FilterKind::Exact("b".into())])).unwrap();
        for p in 1u8..=3 { reference.register_useful_peer(docs[1], [p; 32]).unwrap(); }
        reference.flush().unwrap();
        let want = observe(&mut reference, &docs);
        assert_eq!(want.0.len(), 2);

        let mut reopened_last: Option<Store> = None;
        // second variant: the legacy file lacks the derived tables (heads, by-key index): the first open must rebuild them as well
        for with_derived in [false, true] {
        let what = if with_derived { "all tables" } else { "without the derived tables" };
        // the same contents in a file as iroh-docs 0.94..=0.98 wrote it
        let legacy_path = dir.path().join(if with_derived { "legacy.redb" } else { "legacy-no-derived.redb" });
        {
            use migrate_redb_v2_tuples::old;
            const AUTHORS: redb_v3::TableDefinition<&[u8; 32], &[u8; 32]> = redb_v3::TableDefinition::new("authors-1");
            const NAMESPACES: redb_v3::TableDefinition<&[u8; 32], (u8, &[u8; 32])> = redb_v3::TableDefinition::new("namespaces-2");
            const POLICY: redb_v3::TableDefinition<&[u8; 32], &[u8]> = redb_v3::TableDefinition::new("download-policy-1");
            const PEERS: redb_v3::MultimapTableDefinition<&[u8; 32], (u64, &[u8; 32])> = redb_v3::MultimapTableDefinition::new("sync-peers-1");
            let snap = reference.snapshot_owned().unwrap();
            let db = redb_v3::Database::create(&legacy_path).unwrap();
            let tx = db.begin_write().unwrap();
            {
                let mut t = tx.open_table(old::RECORDS_TABLE).unwrap();
                for x in snap.records.iter().unwrap() { let (k, v) = x.unwrap(); t.insert(k.value(), v.value()).unwrap(); }
                if with_derived {
                let mut t = tx.open_table(old::RECORDS_BY_KEY_TABLE).unwrap();
                for x in snap.records_by_key.iter().unwrap() { let (k, _) = x.unwrap(); t.insert(k.value(), ()).unwrap(); }
                let mut t = tx.open_table(old::LATEST_PER_AUTHOR_TABLE).unwrap();
                for x in snap.latest_per_author.iter().unwrap() { let (k, v) = x.unwrap(); t.insert(k.value(), v.value()).unwrap(); }
                }
                let mut t = tx.open_table(AUTHORS).unwrap();
                for x in snap.authors.iter().unwrap() { let (k, v) = x.unwrap(); t.insert(k.value(), v.value()).unwrap(); }
                let mut t = tx.open_table(NAMESPACES).unwrap();
                for x in snap.namespaces.iter().unwrap() { let (k, v) = x.unwrap(); t.insert(k.value(), v.value()).unwrap(); }
                let mut t = tx.open_table(POLICY).unwrap();
                for x in snap.download_policy.iter().unwrap() { let (k, v) = x.unwrap(); t.insert(k.value(), v.value()).unwrap(); }
                let mut t = tx.open_multimap_table(PEERS).unwrap();
                for x in snap.namespace_peers.iter().unwrap() { let (k, vs) = x.unwrap(); for v in vs { t.insert(k.value(), v.unwrap().value()).unwrap(); } }
            }
            tx.commit().unwrap();
        }

        reopened_last = Some(match Store::persistent(&legacy_path) { Ok(s) => s, Err(e) => panic!("WITNESS a store file in the 0.94..=0.98 format ({what}) does not open: {e:?}") });
        let reopened = reopened_last.as_mut().unwrap();
        let got = observe(reopened, &docs);
        assert_eq!(got.0, want.0, "WITNESS documents / capability kinds after opening the legacy file ({})", what);
        assert_eq!(got.1, want.1, "WITNESS authors after opening the legacy file ({})", what);
        assert_eq!(got.2, want.2, "WITNESS entries (author-key path) after opening the legacy file ({})", what);
        assert_eq!(got.3, want.3, "WITNESS entries (key-author path) after opening the legacy file ({})", what);
        if with_derived {
            assert_eq!(got.4, want.4, "WITNESS author heads after opening the legacy file ({})", what);
        } else {
            // rebuilt heads: the timestamp is determined; on equal timestamps the head may name any of the newest entries of the author
            let strip = |h: &Vec<Vec<(Vec<u8>, u64, Vec<u8>)>>| h.iter().map(|d| d.iter().map(|(a, t, _)| (a.clone(), *t)).collect::<Vec<_>>()).collect::<Vec<_>>();
            assert_eq!(strip(&got.4), strip(&want.4), "WITNESS author heads after opening the legacy file ({})", what);
            for (d, hs) in got.4.iter().enumerate() { for (a, t, k) in hs {
                assert!(got.2[d].iter().any(|(ea, ek, et, _, _)| ea == a && ek == k && et == t), "WITNESS a rebuilt head names no held entry with its timestamp ({})", what);
            } }
        }
        assert_eq!(got.5, want.5, "WITNESS download policies after opening the legacy file ({})", what);
        assert_eq!(got.6, want.6, "WITNESS useful peers after opening the legacy file ({})", what);
        }
        drop(reference);
        let mut reopened = reopened_last.unwrap();
        let legacy_path = dir.path().join("legacy.redb");
        // the write secret survived: local writes work on the write document and are refused on the read-only one
        let mut r = reopened.open_replica(&docs[0]).unwrap();
        let res = r.hash_and_insert(b"new", &authors[0], b"v").await;
        assert!(res.is_ok(), "WITNESS the write capability did not survive the reopen: {res:?}");
        drop(r);
        reopened.close_replica(docs[0]);
        let mut r = reopened.open_replica(&docs[1]).unwrap();
        let res = r.hash_and_insert(b"new", &authors[0], b"v").await;
        assert!(matches!(res, Err(crate::sync::InsertError::ReadOnly)), "WITNESS the read-only document accepts local writes after the reopen: {res:?}");
        drop(r);
        reopened.close_replica(docs[1]);
        reopened.flush().unwrap();
        let after = observe(&mut reopened, &docs);
        drop(reopened);
        let mut again = Store::persistent(&legacy_path).unwrap();
        let got2 = observe(&mut again, &docs);
        assert_eq!(got2, after, "WITNESS a second reopen changes the contents");
    }
}
