// target: src/sync.rs
// labels: query.* bounds.author_key.* bounds.bykey.* bounds.namespace.* store.get_exact.*
// tier: quick
// bound: two authors, keys over {a, ab, b, [61 ff], [61 ff 01], [62]}, a fixed history of 15 inserts incl. three deletion markers, an out-of-order arrival below a prefix and one
// prefix deletion that removes a longer key (dangling by-key index row in the middle of the key order); every query over kind {flat by author-key, flat by key-author, latest-per-key} x author filter {any, a0, a1} x key filter
// {any, exact k, prefix p for every k, p in the key universe and [61], [ff]} x direction x include_empty x offset {0,1,2} x limit {none,0,1,2}
// compared with the definition of C05 (filter, order, group latest per key over all authors, then author filter, skip, take).
// Also point lookups (get_exact) against the same reference.
#[cfg(test)]
mod verif_rp_c05_query {
    use super::*;
    use crate::store::{Query, SortBy, SortDirection, Store};

    type Row = (Vec<u8>, usize, u64, bool); // key, author index, ts offset, is_empty

    fn reference(held: &[Row], kind: u8, author: Option<usize>, key_f: &(u8, Vec<u8>), desc: bool, include_empty: bool, offset: usize, limit: Option<usize>, aid: &[AuthorId; 2]) -> Vec<Row> {
        let key_ok = |k: &Vec<u8>| match key_f.0 { 0 => true, 1 => *k == key_f.1, _ => k.starts_with(&key_f.1) };
        let mut rows: Vec<Row> = held.iter().filter(|r| key_ok(&r.0)).cloned().collect();
        if kind == 2 {
            // latest per key over ALL authors (greatest timestamp; ties: the entry of the greater author id is later in index order,
            // the selector keeps the first of equal timestamps in iteration order - avoided by distinct timestamps in the history)
            let mut keys: Vec<Vec<u8>> = rows.iter().map(|r| r.0.clone()).collect();
            keys.sort(); keys.dedup();
            let mut out = vec![];
            for k in keys {
                let best = rows.iter().filter(|r| r.0 == k).max_by_key(|r| r.2).unwrap().clone();
                out.push(best);
            }
            rows = out;
            if let Some(a) = author { rows.retain(|r| r.1 == a); }
            if !include_empty { rows.retain(|r| !r.3); }
            rows.sort_by(|x, y| x.0.cmp(&y.0));
        } else {
            if let Some(a) = author { rows.retain(|r| r.1 == a); }
            if !include_empty { rows.retain(|r| !r.3); }
            if kind == 0 { rows.sort_by(|x, y| (aid[x.1].as_bytes(), &x.0).cmp(&(aid[y.1].as_bytes(), &y.0))); }
            else { rows.sort_by(|x, y| (&x.0, aid[x.1].as_bytes()).cmp(&(&y.0, aid[y.1].as_bytes()))); }
        }
        if desc { rows.reverse(); }
        let rows: Vec<Row> = rows.into_iter().skip(offset).collect();
        match limit { Some(l) => rows.into_iter().take(l).collect(), None => rows }
    }

    #[tokio::test]
    async fn queries_match_definition() {
        let mut rng = rand::rng();
        let authors = [Author::new(&mut rng), Author::new(&mut rng)];
        let aid = [authors[0].id(), authors[1].id()];
        let ns = NamespaceSecret::new(&mut rng);
        let base = system_time_now() - 1_000_000;
        let mut store = Store::memory();
        let mut r = store.new_replica(ns.clone()).unwrap();
        // (author, key, ts, marker)
        let hist: Vec<(usize, Vec<u8>, u64, bool)> = vec![
            (0, vec![0x61], 1, false), (1, vec![0x61], 2, false), (0, vec![0x61, 0x62], 3, false), (1, vec![0x61, 0x62], 4, true),
            (0, vec![0x62], 5, false), (1, vec![0x62], 6, false), (0, vec![0x61, 0xff], 7, false), (1, vec![0x61, 0xff, 0x01], 8, false),
            (0, vec![0x61, 0xff, 0x01], 9, true), (1, vec![0x62], 10, true), (0, vec![0x62], 11, false),
            // prefix deletion that really removes a longer key of the same author ([61 ff 01] of author 1) and leaves its index row behind
            (1, vec![0x61, 0xff], 12, false),
            // out-of-order arrival below a prefix: a newer and an older entry of author 0 below [61 62], then an entry at [61 62] whose timestamp
            // lies between them: the older one is pruned, the newer one must stay reachable through both indexes
            (0, vec![0x61, 0x62, 0x63], 20, false), (0, vec![0x61, 0x62, 0x64], 14, false), (0, vec![0x61, 0x62], 15, false),
        ];
        for (a, k, ts, marker) in &hist {
            let (hash, len) = if *marker { (Hash::EMPTY, 0) } else { (Hash::new(b"x"), 1) };
            let e = SignedEntry::from_parts(&ns, &authors[*a], k, Record { hash, len, timestamp: base + ts });
            r.insert_remote_entry(e, [1u8; 32], ContentStatus::Missing).await.unwrap();
        }
        drop(r);
        let mut held: Vec<Row> = vec![];
        let key_universe: Vec<Vec<u8>> = vec![vec![0x61], vec![0x61, 0x62], vec![0x62], vec![0x61, 0xff], vec![0x61, 0xff, 0x01], vec![0x61, 0x62, 0x63], vec![0x61, 0x62, 0x64]];
        for (ai, a) in aid.iter().enumerate() { for k in &key_universe {
            if let Some(e) = store.get_exact(ns.id(), *a, k, true).unwrap() { held.push((k.clone(), ai, e.timestamp() - base, e.is_empty())); }
        } }
        // point lookups agree with the include_empty flag
        for (ai, a) in aid.iter().enumerate() { for k in &key_universe {
            let want = held.iter().find(|r| r.0 == *k && r.1 == ai && !r.3).map(|r| r.2);
            let got = store.get_exact(ns.id(), *a, k, false).unwrap().map(|e| e.timestamp() - base);
            assert_eq!(got, want, "WITNESS get_exact(author {ai}, key {k:02x?}, include_empty=false)");
        } }
        let mut key_filters: Vec<(u8, Vec<u8>)> = vec![(0, vec![])];
        for k in key_universe.iter().chain([vec![0x61u8], vec![0xffu8], vec![0x61u8, 0xff, 0xff]].iter()) { key_filters.push((1, k.clone())); key_filters.push((2, k.clone())); }
        let mut n = 0usize;
        for kind in 0u8..3 { for author in [None, Some(0usize), Some(1usize)] { for kf in &key_filters { for desc in [false, true] { for include_empty in [false, true] {
            for offset in 0usize..3 { for limit in [None, Some(0usize), Some(1usize), Some(2usize)] {
                let dir = if desc { SortDirection::Desc } else { SortDirection::Asc };
                let q: Query = if kind == 2 {
                    let mut b = Query::single_latest_per_key().sort_direction(dir).offset(offset as u64);
                    if let Some(a) = author { b = b.author(aid[a]); }
                    b = match kf.0 { 0 => b, 1 => b.key_exact(&kf.1), _ => b.key_prefix(&kf.1) };
                    if include_empty { b = b.include_empty(); }
                    if let Some(l) = limit { b = b.limit(l as u64); }
                    b.build()
                } else {
                    let mut b = Query::all().sort_by(if kind == 0 { SortBy::AuthorKey } else { SortBy::KeyAuthor }, dir).offset(offset as u64);
                    if let Some(a) = author { b = b.author(aid[a]); }
                    b = match kf.0 { 0 => b, 1 => b.key_exact(&kf.1), _ => b.key_prefix(&kf.1) };
                    if include_empty { b = b.include_empty(); }
                    if let Some(l) = limit { b = b.limit(l as u64); }
                    b.build()
                };
                let got: Vec<Row> = store.get_many(ns.id(), q).unwrap().map(|e| { let e = e.unwrap(); (e.key().to_vec(), if e.author() == aid[0] { 0 } else { 1 }, e.timestamp() - base, e.is_empty()) }).collect();
                let want = reference(&held, kind, author, kf, desc, include_empty, offset, limit, &aid);
                n += 1;
                assert_eq!(got, want, "WITNESS query kind={kind} (0 flat author-key, 1 flat key-author, 2 latest-per-key) author={author:?} key_filter={kf:02x?} (0 any,1 exact,2 prefix) desc={desc} include_empty={include_empty} offset={offset} limit={limit:?} over held rows {held:02x?}");
            } }
        } } } } }
        println!("c05_query: {n} queries checked");
    }
}
