// target: src/sync.rs
// labels: store.remove_replica.* store.load_replica_info.* store.close_replica.* actor.close.* peers.register.unknown-doc-fails-unchanged policy.set.only-existing-document
// tier: quick
// bound: one store with three documents (one whose id is the byte-order successor of another, one ending in 0xFF), two authors, four keys;
// every document in turn: opened through each of new_replica / open_replica / load_replica_info the removal must be refused with nothing
// changed; after closing, removal erases exactly that document (entries, heads, peers, policy, capability, content hashes) and every
// other document is unchanged; late peer registration / policy for the removed document fails; re-creation yields an empty document.
// Second part: three neighbouring documents without entries but with policy and peers, each removed and re-created. Third part: after every step of
// an 8-step history (inserts, overwrites, prefix deletions, removal) over two documents the reported content hashes are exactly the hashes of the held entries.
// Fourth part: three documents with directly neighbouring ids, 3 authors (all-zero, ordinary, all-0xFF) x 3 keys (empty, ordinary, 0xFF 0xFF) each; each removed in turn.
#[cfg(test)]
mod verif_rp_c16_remove {
    use super::*;
    use crate::store::{DownloadPolicy, FilterKind, Query, Store};

    type Snapshot = (Vec<(Vec<u8>, AuthorId, u64)>, Vec<(AuthorId, u64)>, Option<Vec<[u8; 32]>>, String, bool);

    fn snapshot(store: &mut Store, ns: NamespaceId) -> Snapshot {
        let entries = store.get_many(ns, Query::all().include_empty()).unwrap().map(|e| { let e = e.unwrap(); (e.key().to_vec(), e.author(), e.timestamp()) }).collect();
        let heads = store.get_latest_for_each_author(ns).unwrap().map(|x| { let (a, t, _) = x.unwrap(); (a, t) }).collect();
        let peers = store.get_sync_peers(&ns).unwrap().map(|p| p.collect::<Vec<_>>());
        let policy = format!("{:?}", store.get_download_policy(&ns).unwrap());
        let known = store.list_namespaces().unwrap().any(|x| x.unwrap().0 == ns);
        (entries, heads, peers, policy, known)
    }
    fn hashes(store: &mut Store) -> Vec<Hash> { let mut h: Vec<Hash> = store.content_hashes().unwrap().map(|h| h.unwrap()).collect(); h.sort(); h }

    #[tokio::test]
    async fn removal_erases_exactly_one_document() {
        let mut rng = rand::rng();
        let authors = [Author::new(&mut rng), Author::new(&mut rng)];
        let docs: Vec<NamespaceSecret> = (0..3).map(|_| NamespaceSecret::new(&mut rng)).collect();
        let base = system_time_now() - 1_000_000;
        let mut store = Store::memory();
        for (di, ns) in docs.iter().enumerate() {
            let mut r = store.new_replica(ns.clone()).unwrap();
            let mut t = 100;
            for a in &authors { for k in [&b"ab"[..], b"a", b"b", b""] {
                t -= 1;
                let e = SignedEntry::from_parts(ns, a, k, Record { hash: Hash::new(format!("{di}{t}")), len: 1, timestamp: base + t });
                r.insert_remote_entry(e, [1u8; 32], ContentStatus::Missing).await.unwrap();
            } }
            drop(r);
            store.close_replica(ns.id());
            store.register_useful_peer(ns.id(), [di as u8; 32]).unwrap();
            store.set_download_policy(&ns.id(), DownloadPolicy::NothingExcept(vec![FilterKind::Prefix(vec![di as u8].into())])).unwrap();
        }
        for victim in 0..docs.len() {
            let ns = docs[victim].id();
            let before: Vec<Snapshot> = docs.iter().map(|d| snapshot(&mut store, d.id())).collect();
            let hashes_before = hashes(&mut store);
            // refused while open, however it was opened
            for how in 0..3 {
                match how { 0 => { drop(store.open_replica(&ns).unwrap()); } 1 => { store.load_replica_info(&ns).unwrap(); } _ => { drop(store.new_replica(docs[victim].clone()).unwrap()); } }
                assert!(store.remove_replica(&ns).is_err(), "WITNESS remove_replica succeeded on document {victim} while it was open (opened via {})", ["open_replica", "load_replica_info", "new_replica"][how]);
                let now: Vec<Snapshot> = docs.iter().map(|d| snapshot(&mut store, d.id())).collect();
                assert_eq!(now, before, "WITNESS refused removal changed the store");
                store.close_replica(ns);
            }
            store.remove_replica(&ns).unwrap();
            let after: Vec<Snapshot> = docs.iter().map(|d| snapshot(&mut store, d.id())).collect();
            for (i, d) in docs.iter().enumerate() {
                if i == victim {
                    assert_eq!(after[i], (vec![], vec![], None, format!("{:?}", DownloadPolicy::default()), false), "WITNESS remains of removed document {}", d.id().fmt_short());
                } else {
                    assert_eq!(after[i], before[i], "WITNESS removing document {victim} changed document {i}");
                }
            }
            let own: Vec<Hash> = before[victim].0.iter().map(|_| Hash::EMPTY).collect(); let _ = own;
            let hashes_after = hashes(&mut store);
            assert_eq!(hashes_after.len(), hashes_before.len() - before[victim].0.len(), "WITNESS content hashes after removing document {victim}");
            assert!(store.register_useful_peer(ns, [9u8; 32]).is_err(), "WITNESS registering a peer for a removed document succeeded");
            assert!(store.set_download_policy(&ns, DownloadPolicy::default()).is_err(), "WITNESS setting a policy for a removed document succeeded");
            assert_eq!(snapshot(&mut store, ns), (vec![], vec![], None, format!("{:?}", DownloadPolicy::default()), false), "WITNESS failed late writes left rows for the removed document");
            // re-create: empty document; then restore its content for the next round
            drop(store.new_replica(docs[victim].clone()).unwrap());
            store.close_replica(ns);
            let fresh = snapshot(&mut store, ns);
            assert_eq!((fresh.0.len(), fresh.1.len(), fresh.2.clone()), (0, 0, None), "WITNESS re-created document is not empty");
            let mut r = store.open_replica(&ns).unwrap();
            for (k, a, t) in &before[victim].0 {
                let author = authors.iter().find(|x| x.id() == *a).unwrap();
                let e = SignedEntry::from_parts(&docs[victim], author, k, Record { hash: Hash::new(format!("{victim}{}", t - base)), len: 1, timestamp: *t });
                r.insert_remote_entry(e, [1u8; 32], ContentStatus::Missing).await.unwrap();
            }
            drop(r);
            store.close_replica(ns);
            store.register_useful_peer(ns, [victim as u8; 32]).unwrap();
            store.set_download_policy(&ns, DownloadPolicy::NothingExcept(vec![FilterKind::Prefix(vec![victim as u8].into())])).unwrap();
        }
    }

    /// A document without any entry that has a download policy and useful peers: removal erases policy and peers, a re-created document starts
    /// with the default policy and no peers; its byte-order neighbours (ids ..fe, ..ff, next prefix) are untouched.
    #[tokio::test]
    async fn removing_an_entry_less_document_erases_its_settings() {
        let mut store = Store::memory();
        let mut ids = vec![];
        // three neighbouring read-only documents; the middle one ends in 0xFF
        for last in [[0x07u8, 0xfe], [0x07, 0xff], [0x08, 0x00]] {
            let mut id = [0x42u8; 32]; id[30] = last[0]; id[31] = last[1];
            let ns = NamespaceId::from(&id);
            store.import_namespace(Capability::Read(ns)).unwrap();
            store.register_useful_peer(ns, [last[1]; 32]).unwrap();
            store.set_download_policy(&ns, DownloadPolicy::NothingExcept(vec![FilterKind::Exact(vec![last[1]].into())])).unwrap();
            ids.push(ns);
        }
        for victim in 0..3 {
            let before: Vec<Snapshot> = ids.iter().map(|d| snapshot(&mut store, *d)).collect();
            store.remove_replica(&ids[victim]).unwrap();
            for (i, d) in ids.iter().enumerate() {
                let now = snapshot(&mut store, *d);
                if i == victim { assert_eq!(now, (vec![], vec![], None, format!("{:?}", DownloadPolicy::default()), false), "WITNESS remains of a removed document that held no entries (id ..{:02x}{:02x})", d.as_bytes()[30], d.as_bytes()[31]); }
                else { assert_eq!(now, before[i], "WITNESS removing entry-less document {victim} changed document {i}"); }
            }
            store.import_namespace(Capability::Read(ids[victim])).unwrap();
            let fresh = snapshot(&mut store, ids[victim]);
            assert_eq!((fresh.2.clone(), fresh.3.clone()), (None, format!("{:?}", DownloadPolicy::default())), "WITNESS a re-created entry-less document inherits peers or policy");
            store.register_useful_peer(ids[victim], [victim as u8 + 1; 32]).unwrap();
            store.set_download_policy(&ids[victim], DownloadPolicy::NothingExcept(vec![FilterKind::Exact(vec![victim as u8].into())])).unwrap();
        }
    }

    /// "At all times the set of content hashes the store reports is exactly the set of hashes of entries currently held": after every step of a
    /// history with overwrites, prefix deletions (markers are entries, too) and a removal, over two documents.
    #[tokio::test]
    async fn content_hashes_are_exactly_the_hashes_of_the_held_entries() {
        let mut rng = rand::rng();
        let author = Author::new(&mut rng);
        let docs = [NamespaceSecret::new(&mut rng), NamespaceSecret::new(&mut rng)];
        let mut store = Store::memory();
        for d in &docs { drop(store.new_replica(d.clone()).unwrap()); store.close_replica(d.id()); }
        store.import_author(author.clone()).unwrap();
        let check = |store: &mut Store, step: &str| {
            let mut held: Vec<Hash> = vec![];
            for d in &docs { if let Ok(it) = store.get_many(d.id(), Query::all().include_empty()) { for e in it { held.push(e.unwrap().content_hash()); } } }
            held.sort();
            let got = hashes(store);
            assert_eq!(got, held, "WITNESS after {step}: reported content hashes {} differ from the hashes of the {} held entries", got.len(), held.len());
        };
        for (i, (d, key, del)) in [(0usize, &b"a/1"[..], false), (0, b"a/2", false), (1, b"a/1", false), (0, b"a/1", false), (0, b"a/", true), (1, b"b", false), (1, b"", true), (0, b"c", false)].into_iter().enumerate() {
            let mut r = store.open_replica(&docs[d].id()).unwrap();
            if del { r.delete_prefix(key, &author).await.unwrap(); } else { r.hash_and_insert(key, &author, format!("v{i}")).await.unwrap(); }
            drop(r);
            store.close_replica(docs[d].id());
            check(&mut store, &format!("step {i} ({} {:?} in document {d})", if del { "delete_prefix" } else { "insert" }, String::from_utf8_lossy(key)));
        }
        store.remove_replica(&docs[1].id()).unwrap();
        check(&mut store, "removing document 1");
    }

    /// Fourth part: three documents whose ids are direct neighbours in byte order, each holding entries at the extreme record positions (all-zero
    /// author with the empty key, all-0xFF author with a 0xFF key) besides ordinary ones; each removed in turn: the two others are unchanged,
    /// through both query paths, exact lookups, heads and content hashes. (The store does not check signatures, so the entries carry dummy ones.)
    #[test]
    fn removal_stops_exactly_at_the_borders_of_the_document() {
        use crate::ranger::Store as _;
        let entry = |ns: NamespaceId, author: AuthorId, key: &[u8], data: &[u8]| {
            let id = RecordIdentifier::new(ns, author, key);
            SignedEntry::new(EntrySignature::from_parts(&[0u8; 64], &[0u8; 64]), Entry::new(id, Record::new(Hash::new(data), data.len() as u64, 1)))
        };
        let ids: Vec<NamespaceId> = (6u8..=8).map(|last| { let mut b = [7u8; 32]; b[31] = last; NamespaceId::from(&b) }).collect();
        let authors = [AuthorId::from(&[0u8; 32]), AuthorId::from(&[9u8; 32]), AuthorId::from(&[255u8; 32])];
        let keys: [&[u8]; 3] = [b"", b"k", &[255u8, 255]];
        for victim in 0..3usize {
            let mut store = Store::memory();
            for ns in &ids { store.import_namespace(Capability::Read(*ns)).unwrap(); }
            for (d, ns) in ids.iter().enumerate() { for (a, author) in authors.iter().enumerate() { for (k, key) in keys.iter().enumerate() {
                let e = entry(*ns, *author, key, format!("{d}{a}{k}").as_bytes());
                crate::store::fs::StoreInstance::new(e.namespace(), &mut store).entry_put(e).unwrap();
            } } }
            let view = |store: &mut Store, ns: NamespaceId| {
                let by_author: Vec<_> = store.get_many(ns, Query::all().include_empty()).unwrap().map(|e| { let e = e.unwrap(); (e.author(), e.key().to_vec(), e.content_hash()) }).collect();
                let by_key: Vec<_> = store.get_many(ns, Query::single_latest_per_key().include_empty()).unwrap().map(|e| { let e = e.unwrap(); (e.author(), e.key().to_vec(), e.content_hash()) }).collect();
                let exact: Vec<bool> = authors.iter().flat_map(|a| keys.iter().map(move |k| (*a, *k))).map(|(a, k)| store.get_exact(ns, a, k, true).unwrap().is_some()).collect();
                let heads: Vec<_> = store.get_latest_for_each_author(ns).unwrap().map(|x| { let (a, t, k) = x.unwrap(); (a, t, k) }).collect();
                (by_author, by_key, exact, heads)
            };
            let before: Vec<_> = ids.iter().map(|ns| view(&mut store, *ns)).collect();
            assert!(before.iter().all(|v| v.0.len() == 9 && v.2.iter().all(|x| *x)), "WITNESS setup: not every entry is held");
            let hashes_before = hashes(&mut store);
            store.remove_replica(&ids[victim]).unwrap();
            for (d, ns) in ids.iter().enumerate() {
                let now = view(&mut store, *ns);
                if d == victim {
                    assert!(now.0.is_empty() && now.1.is_empty() && now.2.iter().all(|x| !*x) && now.3.is_empty(), "WITNESS the removed document {d} of three neighbouring ids still shows entries or heads: {now:?}");
                } else {
                    assert_eq!(now, before[d], "WITNESS removing document {victim} of three documents with neighbouring ids changed document {d}");
                }
            }
            let gone: Vec<Hash> = before[victim].0.iter().map(|x| x.2).collect();
            let mut want: Vec<Hash> = hashes_before.iter().filter(|h| !gone.contains(h)).cloned().collect();
            want.sort();
            assert_eq!(hashes(&mut store), want, "WITNESS after removing document {victim} of three neighbouring ids the reported content hashes are not those of the other two");
        }
    }
}
