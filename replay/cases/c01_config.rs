// target: src/ranger.rs
// labels: ranger.process_message.* recon.split.*
// tier: quick
// bound: reconciliation sessions driven through ranger::Store::process_message of the redb-backed store with every SyncConfig in
// split_factor 2..=5 x max_set_size 1..=3: alice holds k0..k{n-1} (n in 4..=11, one author), bob lacks one entry (every choice) or holds
// one extra newer entry; both choices of initiator. Each session must end within 64 messages, both sides must hold the join, a second
// session must transfer nothing, sent and received value counts must mirror. (Replica::sync_process_message only ever uses the default
// config; the property quantifies over every legal setting.) Second family: one side holds a band k[lo..hi) (lo in 0..=4, hi in 8..=12) of
// twelve keys, the other side all twelve, both initiators: the wrap-around range is itself split again.
#[cfg(test)]
mod verif_rp_c01_config {
    use super::*;
    use crate::{store::Store as DocStore, sync::{Replica, SignedEntry, Record}, Author, NamespaceSecret};

    async fn session(config: &SyncConfig, alice: &mut Replica<'_>, bob: &mut Replica<'_>) -> (usize, usize, usize, usize, usize) {
        // -> (values sent by alice, by bob, stored by alice, by bob, messages)
        let (mut a_sent, mut b_sent, mut messages) = (0, 0, 1);
        let a_ins = std::cell::Cell::new(0usize);
        let b_ins = std::cell::Cell::new(0usize);
        let mut next_to_bob = Some(alice.store.initial_message().unwrap());
        while let Some(msg) = next_to_bob.take() {
            assert!(messages < 64, "WITNESS session does not terminate within 64 messages (config {config:?})");
            a_sent += msg.value_count();
            let reply = bob.store.process_message(config, msg, |_, _, _| true, async |_, _, _| { b_ins.set(b_ins.get() + 1); }, async |_| ContentStatus::Complete).await.unwrap();
            if let Some(msg) = reply {
                messages += 1;
                b_sent += msg.value_count();
                next_to_bob = alice.store.process_message(config, msg, |_, _, _| true, async |_, _, _| { a_ins.set(a_ins.get() + 1); }, async |_| ContentStatus::Complete).await.unwrap();
                if next_to_bob.is_some() { messages += 1; }
            }
        }
        (a_sent, b_sent, a_ins.get(), b_ins.get(), messages)
    }
    fn entries(replica: &mut Replica<'_>) -> Vec<SignedEntry> {
        let mut all = replica.store.all().unwrap().collect::<anyhow::Result<Vec<_>>>().unwrap();
        all.sort();
        all
    }

    #[tokio::test]
    async fn every_config_converges() {
        let mut rng = rand::rng();
        let author = Author::new(&mut rng);
        let base = std::time::SystemTime::now().duration_since(std::time::UNIX_EPOCH).unwrap().as_micros() as u64 - 1_000_000;
        let deep = std::env::var("VERIF_BX_DEPTH").map(|v| v == "thorough").unwrap_or(false);
        let mut sessions = 0usize;
        for split_factor in 2..=5usize { for max_set_size in 1..=3usize {
            let config = SyncConfig { max_set_size, split_factor };
            for n in 4..=11usize {
                if !deep && n % 2 == 0 && split_factor != 3 { continue; }
                // variants: bob lacks entry `m` (m in 0..n), or (m == n) bob holds a newer version of k1
                for m in 0..=n { for alice_initiates in [true, false] {
                    let ns = NamespaceSecret::new(&mut rng);
                    let mut a_store = DocStore::memory();
                    let mut b_store = DocStore::memory();
                    let mut alice = a_store.new_replica(ns.clone()).unwrap();
                    let mut bob = b_store.new_replica(ns.clone()).unwrap();
                    let mk = |i: usize, ts: u64| SignedEntry::from_parts(&ns, &author, format!("k{i:02}").as_bytes(), Record::new(iroh_blobs::Hash::new(format!("v{i}-{ts}")), 3, base + ts));
                    for i in 0..n {
                        let _ = alice.store.put(mk(i, 10)).unwrap();
                        if i != m { let _ = bob.store.put(mk(i, 10)).unwrap(); }
                    }
                    if m == n { let _ = bob.store.put(mk(1, 20)).unwrap(); }
                    let mut want: Vec<SignedEntry> = (0..n).map(|i| if m == n && i == 1 { mk(1, 20) } else { mk(i, 10) }).collect();
                    want.sort();
                    let (a_sent, b_sent, a_ins, b_ins, _messages) = if alice_initiates { session(&config, &mut alice, &mut bob).await } else { let (b, a, bi, ai, r) = session(&config, &mut bob, &mut alice).await; (a, b, ai, bi, r) };
                    let (ea, eb) = (entries(&mut alice), entries(&mut bob));
                    let ctx = format!("split_factor={split_factor} max_set_size={max_set_size} n={n} variant={m} alice_initiates={alice_initiates}");
                    assert_eq!(ea, eb, "WITNESS replicas hold different entries after a complete session ({ctx})");
                    assert_eq!(ea, want, "WITNESS replicas did not converge to the join ({ctx})");
                    assert!(a_ins <= b_sent && b_ins <= a_sent, "WITNESS more entries stored than were sent ({ctx})");
                    let (a2, b2, ai2, bi2, _) = if alice_initiates { session(&config, &mut alice, &mut bob).await } else { session(&config, &mut bob, &mut alice).await };
                    assert_eq!((a2 + b2, ai2 + bi2), (0, 0), "WITNESS a second session still transferred entries ({ctx})");
                    sessions += 1;
                } }
            }
        } }
        println!("c01_config: {sessions} sessions");
    }

    /// second family: one side holds a band k[lo..hi) of the keys k00..k11, the other all twelve - so that the side that splits first has
    /// neighbours below its smallest and above its greatest key on the other side, and the wrap-around range (greatest pivot .. smallest pivot)
    /// is itself split again there (sub-ranges that straddle the wrap point)
    #[tokio::test]
    async fn every_config_converges_when_the_wrap_around_range_is_split_again() {
        let mut rng = rand::rng();
        let author = Author::new(&mut rng);
        let base = std::time::SystemTime::now().duration_since(std::time::UNIX_EPOCH).unwrap().as_micros() as u64 - 1_000_000;
        let mut sessions = 0usize;
        for split_factor in 2..=5usize { for max_set_size in 1..=3usize {
            let config = SyncConfig { max_set_size, split_factor };
            for lo in 0..=4usize { for hi in 8..=12usize { for full_initiates in [true, false] {
                let ns = NamespaceSecret::new(&mut rng);
                let mut a_store = DocStore::memory();
                let mut b_store = DocStore::memory();
                let mut band = a_store.new_replica(ns.clone()).unwrap();
                let mut full = b_store.new_replica(ns.clone()).unwrap();
                let mk = |i: usize| SignedEntry::from_parts(&ns, &author, format!("k{i:02}").as_bytes(), Record::new(iroh_blobs::Hash::new(format!("v{i}")), 3, base + 10));
                for i in 0..12 { let _ = full.store.put(mk(i)).unwrap(); if lo <= i && i < hi { let _ = band.store.put(mk(i)).unwrap(); } }
                let mut want: Vec<SignedEntry> = (0..12).map(mk).collect();
                want.sort();
                let _ = if full_initiates { session(&config, &mut full, &mut band).await } else { session(&config, &mut band, &mut full).await };
                let (ea, eb) = (entries(&mut band), entries(&mut full));
                let ctx = format!("split_factor={split_factor} max_set_size={max_set_size} band=k{lo:02}..k{hi:02} of k00..k11, the side holding all twelve initiates: {full_initiates}");
                assert_eq!(ea, eb, "WITNESS replicas hold different entries after a complete session ({ctx})");
                assert_eq!(ea, want, "WITNESS replicas did not converge to the join ({ctx})");
                let (a2, b2, ai2, bi2, _) = session(&config, &mut band, &mut full).await;
                assert_eq!((a2 + b2, ai2 + bi2), (0, 0), "WITNESS a second session still transferred entries ({ctx})");
                sessions += 1;
            } } }
        } }
        println!("c01_config: {sessions} band sessions");
    }
}
