// target: src/sync.rs
// labels: valid.canon.* rid.* codec.*
// tier: quick
// bound: pinned byte encodings for fixed keys (namespace secret [1; 32], author secret [2; 32]) and three fixed entries (a record with a
// 300-byte length, a deletion marker, a key with 0xFF bytes): the ids, the bytes that are signed, the postcard bytes of SignedEntry, of a
// Capability, of a reconciliation Message carrying the entries, and the length-prefixed frame of the sync protocol - compared with
// literals taken from the pinned tree; Capability::raw / from_raw and its postcard form round-trip for write and read capabilities, also for read ids
// that are not curve points. (ed25519 signatures are deterministic, so the bytes are reproducible.) Record identifiers of every length 0..=70: shorter
// than 64 bytes refused when decoding, otherwise unchanged with all accessors answering.
#[cfg(test)]
mod verif_rp_c09_pinned {
    use super::*;

    fn hexs(b: &[u8]) -> String { b.iter().map(|x| format!("{x:02x}")).collect() }

    fn fixtures() -> (NamespaceSecret, Author, Vec<SignedEntry>) {
        let ns = NamespaceSecret::from_bytes(&[1u8; 32]);
        let author = Author::from_bytes(&[2u8; 32]);
        let ts = 1_700_000_000_000_000u64;
        let e1 = SignedEntry::from_parts(&ns, &author, b"hello/world", Record::new(Hash::new(b"content"), 300, ts));
        let e2 = SignedEntry::from_parts(&ns, &author, b"hello/", Record::new(Hash::EMPTY, 0, ts + 1));
        let e3 = SignedEntry::from_parts(&ns, &author, [0x61u8, 0xff, 0xff], Record::new(Hash::new([0xffu8; 3]), u64::MAX, ts + 2));
        (ns, author, vec![e1, e2, e3])
    }

    fn observed() -> Vec<(String, String)> {
        let (ns, author, entries) = fixtures();
        let mut out = vec![];
        out.push(("namespace id".to_string(), hexs(ns.id().as_bytes())));
        out.push(("author id".to_string(), hexs(author.id().as_bytes())));
        out.push(("namespace secret bytes".to_string(), hexs(&ns.to_bytes())));
        out.push(("author secret bytes".to_string(), hexs(&author.to_bytes())));
        for (i, e) in entries.iter().enumerate() {
            let mut signed = Vec::new();
            e.entry().encode(&mut signed);
            out.push((format!("entry {i}: bytes that are signed"), hexs(&signed)));
            out.push((format!("entry {i}: postcard SignedEntry"), hexs(&postcard::to_stdvec(e).unwrap())));
            out.push((format!("entry {i}: fingerprint"), hexs(&crate::ranger::RangeEntry::as_fingerprint(e).0)));
        }
        let cap = Capability::Write(ns.clone());
        out.push(("postcard Capability::Write".to_string(), hexs(&postcard::to_stdvec(&cap).unwrap())));
        out.push(("postcard Capability::Read".to_string(), hexs(&postcard::to_stdvec(&Capability::Read(ns.id())).unwrap())));
        let (kind, raw) = cap.raw();
        out.push(("Capability::raw".to_string(), format!("{kind}:{}", hexs(&raw))));
        out
    }

    const PINNED: &str = "\
namespace id = 8a88e3dd7409f195fd52db2d3cba5d72ca6709bf1d94121bf3748801b40f6f5c\n\
author id = 8139770ea87d175f56a35466c34c7ecccb8d8a91b4ee37a25df60f5b8fc9b394\n\
namespace secret bytes = 0101010101010101010101010101010101010101010101010101010101010101\n\
author secret bytes = 0202020202020202020202020202020202020202020202020202020202020202\n\
entry 0: bytes that are signed = 8a88e3dd7409f195fd52db2d3cba5d72ca6709bf1d94121bf3748801b40f6f5c8139770ea87d175f56a35466c34c7ecccb8d8a91b4ee37a25df60f5b8fc9b39468656c6c6f2f776f726c64000000000000012c3fba5250be9ac259c56e7250c526bc83bacb4be825f2799d3d59e5b4878dd74e00060a24181e4000\n\
entry 0: postcard SignedEntry = 8dabe1fbbde41454abce1fc595e1753eb08486f7f5cc782e201a9722c06aaa5626625ed9963a8fcdef3a00e2c1292f197042090914b34a3b2372185e1dcf3a06421eb7c081acce5b66ff544514139ed9b1970bfaedbd32e23207b6320110ea82d49013542aeb7d897b4b1fd1d969ea808f781a9bd9c468f22aab8973e88dfb0a4b8a88e3dd7409f195fd52db2d3cba5d72ca6709bf1d94121bf3748801b40f6f5c8139770ea87d175f56a35466c34c7ecccb8d8a91b4ee37a25df60f5b8fc9b39468656c6c6f2f776f726c64ac023fba5250be9ac259c56e7250c526bc83bacb4be825f2799d3d59e5b4878dd74e8080f9c0c1c48203\n\
entry 0: fingerprint = 087623eb6e06878ad9ea0f336f7d6bc22fa3656215b10227d03fa28709a6f81e\n\
entry 1: bytes that are signed = 8a88e3dd7409f195fd52db2d3cba5d72ca6709bf1d94121bf3748801b40f6f5c8139770ea87d175f56a35466c34c7ecccb8d8a91b4ee37a25df60f5b8fc9b39468656c6c6f2f0000000000000000af1349b9f5f9a1a6a0404dea36dcc9499bcb25c9adc112b7cc9a93cae41f326200060a24181e4001\n\
entry 1: postcard SignedEntry = 0149d07b9b603f3851155384620fadf20564efe8f2513407b4d76ea34d74bb00863bc7a4f7fa38716b6adfbbef867d817fb6f525c56eccb38c748c55dd4d1709352a04485ba723ef3df3732a2651f996c0351ce9799bf6d0db550165476bc5674b5e3f6a108acdd1d5c73b9dc044404db3e166b8b7331b7d1e5afae52e0b5c02468a88e3dd7409f195fd52db2d3cba5d72ca6709bf1d94121bf3748801b40f6f5c8139770ea87d175f56a35466c34c7ecccb8d8a91b4ee37a25df60f5b8fc9b39468656c6c6f2f00af1349b9f5f9a1a6a0404dea36dcc9499bcb25c9adc112b7cc9a93cae41f32628180f9c0c1c48203\n\
entry 1: fingerprint = dabea061055ac4feb49e9f93c778f417ba435a0443262737eee42a52d8621dbc\n\
entry 2: bytes that are signed = 8a88e3dd7409f195fd52db2d3cba5d72ca6709bf1d94121bf3748801b40f6f5c8139770ea87d175f56a35466c34c7ecccb8d8a91b4ee37a25df60f5b8fc9b39461fffffffffffffffffffff08564b45e732d9070278e95715661ed02165ca35ea3cf94e71ff568a173b24000060a24181e4002\n\
entry 2: postcard SignedEntry = 6da2eb4c0037f933670494179c7c20532a3104aa6c0102d624112bfc6fa80fcc81a2553f7dc9936312e34aefddfcd966c7c6c5ba71b52b536bd727f34fb29e00ee9919dfa8b682acd30917635dfb44435e39f2515a42884082cd7ab199e6d3349417611bc01617e5b0eb990b2684b793b5283dfd1a56af566f43d99386182f08438a88e3dd7409f195fd52db2d3cba5d72ca6709bf1d94121bf3748801b40f6f5c8139770ea87d175f56a35466c34c7ecccb8d8a91b4ee37a25df60f5b8fc9b39461ffffffffffffffffffffff01f08564b45e732d9070278e95715661ed02165ca35ea3cf94e71ff568a173b2408280f9c0c1c48203\n\
entry 2: fingerprint = b5841fb64d38e0a03dc286a0f5dc29c0ea8c3dabdfb046a78abedc7e0d547ef1\n\
postcard Capability::Write = 00200101010101010101010101010101010101010101010101010101010101010101\n\
postcard Capability::Read = 018a88e3dd7409f195fd52db2d3cba5d72ca6709bf1d94121bf3748801b40f6f5c\n\
Capability::raw = 1:0101010101010101010101010101010101010101010101010101010101010101\n";

    /// `Capability::raw` / `from_raw` are inverse for every capability, also for read ids that are not curve points and for
    /// neighbouring ids (ids are plain 32 bytes everywhere else)
    #[test]
    fn capability_raw_round_trips() {
        let ns = NamespaceSecret::from_bytes(&[1u8; 32]);
        let mut caps = vec![Capability::Write(ns.clone()), Capability::Read(ns.id())];
        for b in [0u8, 1, 2, 0x7f, 0x80, 0xfe, 0xff] { caps.push(Capability::Read(NamespaceId::from(&[b; 32]))); }
        for cap in caps {
            let (kind, bytes) = cap.raw();
            let back = Capability::from_raw(kind, &bytes);
            match back {
                Ok(c) => assert_eq!((c.kind() as u8, c.id()), (cap.kind() as u8, cap.id()), "WITNESS Capability::from_raw(raw({cap:?})) gives another capability"),
                Err(e) => panic!("WITNESS Capability::from_raw(raw({cap:?})) fails: {e:#}"),
            }
            let enc = postcard::to_stdvec(&cap).unwrap();
            let dec: Capability = postcard::from_bytes(&enc).unwrap_or_else(|e| panic!("WITNESS postcard round trip of {cap:?} fails: {e}"));
            assert_eq!((dec.kind() as u8, dec.id()), (cap.kind() as u8, cap.id()), "WITNESS postcard round trip of {cap:?}");
        }
    }

    #[test]
    fn encodings_are_the_pinned_ones() {
        let got: String = observed().into_iter().map(|(k, v)| format!("{k} = {v}\n")).collect();
        if std::env::var("VERIF_C09_PRINT").is_ok() { println!("BEGIN-PINNED\n{got}END-PINNED"); }
        for (g, w) in got.lines().zip(PINNED.lines()) {
            assert_eq!(g, w, "WITNESS pinned encoding changed: now `{g}`, pinned `{w}`");
        }
        assert_eq!(got.lines().count(), PINNED.lines().count(), "WITNESS number of pinned lines");
    }

    /// hostile bytes: a record identifier shorter than the two ids it must contain is refused when decoding (its accessors slice at 32 and 64),
    /// every length from 64 on decodes unchanged and every accessor answers
    #[test]
    fn short_record_identifiers_are_refused_when_decoding() {
        for n in 0usize..=70 {
            let raw = bytes::Bytes::from(vec![7u8; n]);
            let enc = postcard::to_stdvec(&raw).unwrap();
            let dec: std::result::Result<RecordIdentifier, _> = postcard::from_bytes(&enc);
            if n < 64 {
                assert!(dec.is_err(), "WITNESS a record identifier of {n} bytes decodes (namespace(), author() and key() would slice out of range)");
            } else {
                let id = match dec { Ok(id) => id, Err(e) => panic!("WITNESS a record identifier of {n} bytes does not decode: {e}") };
                assert_eq!(id.as_ref(), &raw[..], "WITNESS a decoded record identifier of {n} bytes differs from its bytes");
                assert_eq!((id.namespace().to_bytes().len(), id.author().to_bytes().len(), id.key().len()), (32, 32, n - 64), "WITNESS parts of a decoded record identifier of {n} bytes");
            }
        }
        // the same inside a signed entry arriving from the network
        let short = bytes::Bytes::from(vec![7u8; 10]);
        let mut enc = vec![];
        enc.extend(postcard::to_stdvec(&([1u8; 64].to_vec(), [2u8; 64].to_vec())).unwrap());
        enc.extend(postcard::to_stdvec(&short).unwrap());
        enc.extend([0u8; 48]);
        let dec: std::result::Result<SignedEntry, _> = postcard::from_bytes(&enc);
        if let Ok(e) = dec { let r = std::panic::catch_unwind(std::panic::AssertUnwindSafe(|| { let _ = (e.namespace(), e.author(), e.key().len()); })); assert!(r.is_ok(), "WITNESS a signed entry with a 10-byte identifier decodes and its accessors panic"); }
    }
}
