// target: src/store/fs.rs
// labels: mig.*
// tier: quick
// bound: one persistent store, two documents, two authors, 6 keys with out-of-order timestamps and deletion markers (the newest entry of
// an author is not at its greatest key; a marker is the newest entry of a key another author also wrote); the database is re-opened with
// the head table deleted, with the by-key index deleted, with both deleted, with nothing deleted, and twice in a row. Heads (author,
// timestamp) and all key-ordered queries must answer as on the store that maintained the tables (distinct timestamps per author); in the second
// document each author's newest entry sits at its smallest key. Second part: a database with documents and authors but no record, derived tables
// deleted: the first read after opening (four kinds) answers empty instead of failing.
#[cfg(all(test, feature = "fs-store"))]
mod verif_rp_c18_migrate {
    use super::tables::{LATEST_PER_AUTHOR_TABLE, RECORDS_BY_KEY_TABLE};
    use super::*;
    use crate::store::{Query, SortBy, SortDirection};
    use crate::sync::ContentStatus;

    type Obs = (Vec<(AuthorId, u64)>, Vec<Vec<(Vec<u8>, AuthorId, u64, bool)>>);

    fn observe(store: &mut Store, ns: NamespaceId) -> Obs {
        let mut heads: Vec<(AuthorId, u64)> = store.get_latest_for_each_author(ns).unwrap().map(|x| { let (a, t, _k) = x.unwrap(); (a, t) }).collect();
        heads.sort();
        let mut qs: Vec<Query> = vec![];
        for dir in [SortDirection::Asc, SortDirection::Desc] {
            qs.push(Query::all().sort_by(SortBy::KeyAuthor, dir).include_empty().build());
            qs.push(Query::all().sort_by(SortBy::KeyAuthor, dir).build());
            qs.push(Query::all().sort_by(SortBy::AuthorKey, dir).include_empty().build());
            qs.push(Query::single_latest_per_key().sort_direction(dir).include_empty().build());
            qs.push(Query::single_latest_per_key().sort_direction(dir).build());
            qs.push(Query::single_latest_per_key().sort_direction(dir).key_prefix(b"doc/").build());
        }
        let rows = qs.into_iter().map(|q| store.get_many(ns, q).unwrap().map(|e| { let e = e.unwrap(); (e.key().to_vec(), e.author(), e.timestamp(), e.is_empty()) }).collect()).collect();
        (heads, rows)
    }

    fn copy_and_modify(source: &std::path::Path, modify: impl Fn(&redb::WriteTransaction)) -> tempfile::NamedTempFile {
        let dbfile = tempfile::NamedTempFile::new().unwrap();
        std::fs::copy(source, dbfile.path()).unwrap();
        let db = Database::create(dbfile.path()).unwrap();
        let write_tx = db.begin_write().unwrap();
        modify(&write_tx);
        write_tx.commit().unwrap();
        drop(db);
        dbfile
    }

    #[tokio::test]
    async fn reopen_rebuilds_derived_tables_exactly() {
        let mut rng = rand::rng();
        let dbfile = tempfile::NamedTempFile::new().unwrap();
        let docs = [NamespaceSecret::new(&mut rng), NamespaceSecret::new(&mut rng)];
        let authors = [Author::new(&mut rng), Author::new(&mut rng)];
        let base = crate::sync::Record::empty_current().timestamp() - 1_000_000;
        let expected: Vec<Obs> = {
            let mut store = Store::persistent(dbfile.path()).unwrap();
            for ns in &docs {
                let mut r = store.new_replica(ns.clone()).unwrap();
                // (author, key, ts, marker): newest entry of author 0 is `apple` (not its greatest key `zebra`); `doc/a` of author 0 is hidden by author 1's newer marker
                // each author's newest entry sits at its SMALLEST key (`aa` / `ab`), not at its greatest
                let second = true; // in BOTH documents (which of them sorts first depends on the random ids)
                let hist: Vec<(usize, &[u8], u64, bool)> = [
                    (0usize, &b"zebra"[..], 10u64, false), (0, b"apple", 30, false), (1, b"mango", 20, false), (1, b"kiwi", 5, false),
                    (0, b"doc/a", 40, false), (1, b"doc/a", 50, true), (0, b"doc/b", 45, false), (1, b"doc/c", 60, true),
                ].into_iter().chain(if second { vec![(0usize, &b"aa"[..], 70u64, false), (1, b"ab", 80, false)] } else { vec![] }).collect();
                for (a, k, ts, marker) in hist {
                    let (hash, len) = if marker { (Hash::EMPTY, 0) } else { (Hash::new(k), 1) };
                    let e = SignedEntry::from_parts(ns, &authors[a], k, Record::new(hash, len, base + ts));
                    r.insert_remote_entry(e, [1u8; 32], ContentStatus::Missing).await.unwrap();
                }
                drop(r);
                store.close_replica(ns.id());
            }
            let expected = docs.iter().map(|ns| observe(&mut store, ns.id())).collect();
            store.flush().unwrap();
            drop(store);
            expected
        };
        for variant in 0..4 {
            let file = copy_and_modify(dbfile.path(), |tx| {
                if variant == 0 || variant == 2 { tx.delete_table(LATEST_PER_AUTHOR_TABLE).unwrap(); }
                if variant == 1 || variant == 2 { tx.delete_table(RECORDS_BY_KEY_TABLE).unwrap(); }
            });
            let what = ["head table deleted", "by-key index deleted", "both derived tables deleted", "nothing deleted"][variant];
            for round in 0..2 {
                let mut store = Store::persistent(file.path()).unwrap();
                for (i, ns) in docs.iter().enumerate() {
                    let got = observe(&mut store, ns.id());
                    assert_eq!(got.0, expected[i].0, "WITNESS heads of document {i} after reopening (round {round}) with {what}");
                    assert_eq!(got.1, expected[i].1, "WITNESS key-ordered / latest-per-key queries of document {i} after reopening (round {round}) with {what}");
                }
                store.flush().unwrap();
            }
        }
    }

    /// An older database without the derived tables and without any record (documents and authors only): the very first operation
    /// after opening is a snapshot-based read (query, document list, author list) and must answer (empty), not fail.
    #[tokio::test]
    async fn old_database_without_records_answers_reads_right_after_opening() {
        let mut rng = rand::rng();
        let dbfile = tempfile::NamedTempFile::new().unwrap();
        let ns = NamespaceSecret::new(&mut rng);
        {
            let mut store = Store::persistent(dbfile.path()).unwrap();
            store.import_namespace(ns.clone().into()).unwrap();
            store.new_author(&mut rng).unwrap();
            store.flush().unwrap();
        }
        for variant in 0..3 {
            let what = ["head table deleted", "by-key index deleted", "both derived tables deleted"][variant];
            for first_op in 0..4 {
                let file = copy_and_modify(dbfile.path(), |tx| {
                    if variant == 0 || variant == 2 { tx.delete_table(LATEST_PER_AUTHOR_TABLE).unwrap(); }
                    if variant == 1 || variant == 2 { tx.delete_table(RECORDS_BY_KEY_TABLE).unwrap(); }
                });
                let mut store = Store::persistent(file.path()).unwrap_or_else(|e| panic!("WITNESS an old database without records ({what}) does not open: {e:#}"));
                let res: std::result::Result<usize, anyhow::Error> = match first_op {
                    0 => store.get_many(ns.id(), Query::all()).map(|it| it.count()),
                    1 => store.get_many(ns.id(), Query::single_latest_per_key()).map(|it| it.count()),
                    2 => store.list_namespaces().map(|it| it.count()),
                    _ => store.get_latest_for_each_author(ns.id()).map(|it| it.count()),
                };
                let n = res.unwrap_or_else(|e| panic!("WITNESS first read (kind {first_op}) after opening an old database without records ({what}) fails: {e:#}"));
                assert_eq!(n, if first_op == 2 { 1 } else { 0 }, "WITNESS first read (kind {first_op}) after opening an old database without records ({what})");
            }
        }
    }
}
