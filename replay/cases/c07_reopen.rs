// target: src/store/fs.rs
// labels: store.import_namespace.* tx.*
// tier: quick
// bound: one persistent store, one document; every sequence of up to 4 steps over {import read capability, import write capability, flush,
// drop the store and reopen it, failing write on an unknown document}; after every step the stored capability is the strongest one imported so
// far (write is never lost, not by a reopen without flush - a clean drop commits -, not by another operation failing), and a final reopen shows the same.
#[cfg(test)]
mod verif_rp_c07_reopen {
    use super::*;

    #[test]
    fn the_strongest_imported_capability_survives_every_reopen() {
        let mut rng = rand::rng();
        let nss = NamespaceSecret::new(&mut rng);
        let ns = nss.id();
        let deep = std::env::var("VERIF_BX_DEPTH").map(|v| v == "thorough").unwrap_or(false);
        let len = if deep { 5 } else { 4 };
        let mut seqs: Vec<Vec<u8>> = vec![vec![]];
        let mut layer: Vec<Vec<u8>> = vec![vec![]];
        for _ in 0..len { let mut next = vec![]; for s in &layer { for o in 0..5u8 { let mut t = s.clone(); t.push(o); next.push(t); } } seqs.extend(next.iter().cloned()); layer = next; }
        // observed through the open write transaction (`load_replica_info` reads the tables without committing; a snapshot-based read such as
        // list_namespaces would commit the pending writes and hide a lost commit)
        let kind_of = |store: &mut Store| -> Option<CapabilityKind> { let r = store.load_replica_info(&ns).ok().map(|info| info.capability.kind()); store.close_replica(ns); r };
        let mut n = 0usize;
        for seq in seqs.iter().filter(|s| s.iter().any(|o| *o < 2)) {
            let dir = tempfile::tempdir().unwrap();
            let path = dir.path().join("docs.redb");
            let mut store = Store::persistent(&path).unwrap();
            let mut best: Option<u8> = None; // 1 = read, 2 = write
            for (i, op) in seq.iter().enumerate() {
                match op {
                    0 => { store.import_namespace(Capability::Read(ns)).unwrap(); best = Some(best.unwrap_or(1).max(1)); }
                    1 => { store.import_namespace(Capability::Write(nss.clone())).unwrap(); best = Some(2); }
                    2 => { store.flush().unwrap(); }
                    3 => { drop(store); store = Store::persistent(&path).unwrap(); }
                    _ => { let other = NamespaceId::from(&[9u8; 32]); assert!(store.set_download_policy(&other, crate::store::DownloadPolicy::default()).is_err()); }
                }
                let got = kind_of(&mut store).map(|k| match k { CapabilityKind::Read => 1u8, CapabilityKind::Write => 2 });
                assert_eq!(got, best, "WITNESS after step {i} of {seq:?} (0 import read, 1 import write, 2 flush, 3 drop+reopen, 4 failing write elsewhere) the stored capability is {got:?} (1 read, 2 write), strongest imported is {best:?}");
            }
            drop(store);
            let mut store = Store::persistent(&path).unwrap();
            let got = kind_of(&mut store).map(|k| match k { CapabilityKind::Read => 1u8, CapabilityKind::Write => 2 });
            assert_eq!(got, best, "WITNESS after a final drop and reopen of history {seq:?} the stored capability is {got:?}, strongest imported was {best:?}");
            if best == Some(2) {
                let info = store.load_replica_info(&ns).unwrap();
                assert!(info.capability.secret_key().is_ok(), "WITNESS the write secret is gone after history {seq:?}");
                store.close_replica(ns);
            }
            n += 1;
        }
        println!("c07_reopen: {n} histories");
    }
}
