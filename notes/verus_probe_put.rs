use vstd::prelude::*;

verus! {

#[verifier::external_body]
pub struct StoreError { _p: u8 }

// abstract key / value / entry of a replica (one namespace)
#[verifier::external_body]
pub struct Key { _p: u8 }
#[verifier::external_body]
pub struct Value { _p: u8 }
#[verifier::external_body]
pub struct E { _p: u8 }

impl Key { pub uninterp spec fn view(&self) -> (int, Seq<u8>); } // (author, key bytes)
impl Value { pub uninterp spec fn view(&self) -> int; }          // rank in the total (ts,hash) order
impl E {
    pub uninterp spec fn k(&self) -> (int, Seq<u8>);
    pub uninterp spec fn v(&self) -> int;
    #[verifier::external_body]
    pub fn key(&self) -> (r: &Key) ensures r@ == self.k() { unimplemented!() }
    #[verifier::external_body]
    pub fn value(&self) -> (r: &Value) ensures r@ == self.v() { unimplemented!() }
}

pub open spec fn is_prefix(p: Seq<u8>, k: Seq<u8>) -> bool {
    p.len() <= k.len() && k.subrange(0, p.len() as int) == p
}

#[verifier::external_body]
fn value_le(a: &Value, b: &Value) -> (r: bool) ensures r == (a@ <= b@) { unimplemented!() }
#[verifier::external_body]
fn value_ge(a: &Value, b: &Value) -> (r: bool) ensures r == (a@ >= b@) { unimplemented!() }

pub enum InsertOutcome { NotInserted, Inserted { removed: usize } }

#[verifier::external_body]
pub struct S { _p: u8 }

impl S {
    pub uninterp spec fn view(&self) -> Map<(int, Seq<u8>), int>;   // (author,key) -> value rank

    #[verifier::external_body]
    fn prefixes_of(&mut self, key: &Key) -> (r: Result<Vec<Result<E, StoreError>>, StoreError>)
        ensures
            final(self)@ == old(self)@,
            r is Ok ==> (forall|i: int| 0 <= i < r->Ok_0.len() ==> r->Ok_0[i] is Ok) ==> (
                forall|p: Seq<u8>| #![auto] is_prefix(p, key@.1) && old(self)@.contains_key((key@.0, p)) ==>
                    exists|i: int| 0 <= i < r->Ok_0.len() && (r->Ok_0[i]->Ok_0).k() == (key@.0, p) && (r->Ok_0[i]->Ok_0).v() == old(self)@[(key@.0, p)]),
    { unimplemented!() }

    #[verifier::external_body]
    fn remove_prefix_filtered<F: Fn(&Value) -> bool>(&mut self, prefix: &Key, predicate: F) -> (r: Result<usize, StoreError>)
    { unimplemented!() }

    #[verifier::external_body]
    fn entry_put(&mut self, entry: E) -> (r: Result<(), StoreError>)
        ensures r is Ok ==> final(self)@ == old(self)@.insert(entry.k(), entry.v()),
    { unimplemented!() }

    // ---- extracted: ranger.rs Store::put ----
    fn put(&mut self, entry: E) -> (res: Result<InsertOutcome, StoreError>)
        ensures
            res is Ok && res->Ok_0 is NotInserted ==> final(self)@ == old(self)@,
    {
        let prefix_entry = self.prefixes_of(entry.key())?;
        for prefix_entry in prefix_entry {
            let prefix_entry = prefix_entry?;
            if value_le(entry.value(), prefix_entry.value()) {
                return Ok(InsertOutcome::NotInserted);
            }
        }

        let removed = self.remove_prefix_filtered(entry.key(), |value| value_ge(entry.value(), value))?;

        self.entry_put(entry)?;
        Ok(InsertOutcome::Inserted { removed })
    }
}

} // verus!
fn main() {}
