use vstd::prelude::*;
use std::ops::Bound;
use std::collections::HashSet;

verus! {

// ---------------- prelude: shells ----------------
#[verifier::external_body]
pub struct AnyhowError { _p: u8 }
impl AnyhowError { #[verifier::external_body] pub fn msg() -> AnyhowError { unimplemented!() } }
#[verifier::external_body]
pub struct StorageError { _p: u8 }
impl From<StorageError> for AnyhowError { #[verifier::external_body] fn from(e: StorageError) -> AnyhowError { unimplemented!() } }
pub type Result<T> = std::result::Result<T, AnyhowError>;

#[derive(Clone, Copy, PartialEq, Eq, Hash)]
pub struct NamespaceId(pub [u8; 32]);
impl NamespaceId {
    pub fn as_bytes(&self) -> (r: &[u8; 32]) ensures *r == self.0 { &self.0 }
    pub fn to_bytes(&self) -> (r: [u8; 32]) ensures r == self.0 { self.0 }
}

pub type Ns = Seq<u8>;
pub type RecKey = (Seq<u8>, Seq<u8>, Seq<u8>);      // (ns, author, key)
pub type ByKeyKey = (Seq<u8>, Seq<u8>, Seq<u8>);    // (ns, key, author)

#[verifier::external_body]
pub struct RecordsBounds { _p: u8 }
impl RecordsBounds {
    pub uninterp spec fn contains(&self, k: RecKey) -> bool;
    #[verifier::external_body]
    pub fn namespace(ns: NamespaceId) -> (r: Self)
        ensures forall|k: RecKey| #[trigger] r.contains(k) <==> k.0 == ns.0@
    { unimplemented!() }
    #[verifier::external_body]
    pub fn as_ref(&self) -> (r: &RecordsBounds) ensures r == self { unimplemented!() }
}
#[verifier::external_body]
pub struct ByKeyBounds { _p: u8 }
impl ByKeyBounds {
    pub uninterp spec fn contains(&self, k: ByKeyKey) -> bool;
    #[verifier::external_body]
    pub fn namespace(ns: NamespaceId) -> (r: Self)
        ensures forall|k: ByKeyKey| #[trigger] r.contains(k) <==> k.0 == ns.0@
    { unimplemented!() }
    #[verifier::external_body]
    pub fn as_ref(&self) -> (r: &ByKeyBounds) ensures r == self { unimplemented!() }
}

// redb tables as ghost maps (A-redb)
#[verifier::external_body]
pub struct RecordsTbl { _p: u8 }
impl RecordsTbl {
    pub uninterp spec fn view(&self) -> Map<RecKey, int>;
    #[verifier::external_body]
    pub fn retain_in<F: Fn(u8, u8) -> bool>(&mut self, b: &RecordsBounds, f: F) -> (r: std::result::Result<(), StorageError>)
        ensures r is Ok ==> (forall|k: RecKey| #![auto] final(self)@.contains_key(k) <==> (old(self)@.contains_key(k) && !(b.contains(k) && f.ensures((0u8, 0u8), false)))),
                r is Ok ==> (forall|k: RecKey| #![auto] final(self)@.contains_key(k) ==> final(self)@[k] == old(self)@[k]),
    { unimplemented!() }
}
#[verifier::external_body]
pub struct ByKeyTbl { _p: u8 }
impl ByKeyTbl {
    pub uninterp spec fn view(&self) -> Set<ByKeyKey>;
    #[verifier::external_body]
    pub fn retain_in<F: Fn(u8, u8) -> bool>(&mut self, b: &ByKeyBounds, f: F) -> (r: std::result::Result<(), StorageError>)
    { unimplemented!() }
}
#[verifier::external_body]
pub struct NsTbl { _p: u8 }
impl NsTbl {
    pub uninterp spec fn view(&self) -> Map<Seq<u8>, int>;
    #[verifier::external_body]
    pub fn remove(&mut self, k: &[u8; 32]) -> (r: std::result::Result<(), StorageError>)
        ensures r is Ok ==> final(self)@ == old(self)@.remove(k@)
    { unimplemented!() }
    #[verifier::external_body]
    pub fn remove_all(&mut self, k: &[u8; 32]) -> (r: std::result::Result<(), StorageError>)
        ensures r is Ok ==> final(self)@ == old(self)@.remove(k@)
    { unimplemented!() }
}

pub struct Tables {
    pub records: RecordsTbl,
    pub records_by_key: ByKeyTbl,
    pub namespaces: NsTbl,
    pub namespace_peers: NsTbl,
    pub download_policy: NsTbl,
    pub latest_per_author: NsTbl,
}

pub struct Store {
    pub tables: Tables,
    pub open_replicas: HashSet<NamespaceId>,
}
impl Store {
    fn tables_mut(&mut self) -> (r: &mut Tables)
        ensures *r == old(self).tables, final(self).open_replicas == old(self).open_replicas, *final(r) == final(self).tables
    { &mut self.tables }

    // ---------------- extracted: fs.rs Store::remove_replica (R1,R4,R5,R9) ----------------
    fn remove_replica(&mut self, namespace: &NamespaceId) -> (res: Result<()>)
        ensures
            old(self).open_replicas@.contains(*namespace) ==> res is Err && final(self).tables == old(self).tables,
            res is Ok ==> (forall|k: RecKey| #![auto] final(self).tables.records@.contains_key(k) <==> (old(self).tables.records@.contains_key(k) && k.0 != namespace.0@)),
            res is Ok ==> !final(self).tables.namespaces@.contains_key(namespace.0@),
            res is Ok ==> !final(self).tables.latest_per_author@.contains_key(namespace.0@),
    {
        if self.open_replicas.contains(namespace) {
            return Err(AnyhowError::msg());
        }
        { let tables = self.tables_mut();
            let bounds = RecordsBounds::namespace(*namespace);
            tables.records.retain_in(bounds.as_ref(), |_k: u8, _v: u8| -> (b: bool) ensures b == false { false })?;
            let bounds = ByKeyBounds::namespace(*namespace);
            let _ = tables
                .records_by_key
                .retain_in(bounds.as_ref(), |_k, _v| false);
            tables.namespaces.remove(namespace.as_bytes())?;
            tables.namespace_peers.remove_all(namespace.as_bytes())?;
            tables.download_policy.remove(namespace.as_bytes())?;
            Ok(())
        }
    }
}

} // verus!
fn main() {}
