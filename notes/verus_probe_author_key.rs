use vstd::prelude::*;
use std::ops::Bound;

verus! {

// ---- prelude shells ----
#[verifier::external_body]
pub struct Bytes { _p: u8 }
impl Bytes {
    pub uninterp spec fn view(&self) -> Seq<u8>;
    #[verifier::external_body]
    pub fn new() -> (r: Bytes) ensures r@ == Seq::<u8>::empty() { unimplemented!() }
    #[verifier::external_body]
    pub fn to_vec(&self) -> (r: Vec<u8>) ensures r@ == self@ { unimplemented!() }
}
impl Clone for Bytes {
    #[verifier::external_body]
    fn clone(&self) -> (r: Bytes) ensures r@ == self@ { unimplemented!() }
}
impl From<Vec<u8>> for Bytes {
    #[verifier::external_body]
    fn from(v: Vec<u8>) -> (r: Bytes) ensures r@ == v@ { unimplemented!() }
}

#[derive(Clone, Copy)]
pub struct NamespaceId(pub [u8; 32]);
#[derive(Clone, Copy)]
pub struct AuthorId(pub [u8; 32]);
impl NamespaceId { pub fn to_bytes(&self) -> (r: [u8; 32]) ensures r == self.0 { self.0 } }
impl AuthorId { pub fn to_bytes(&self) -> (r: [u8; 32]) ensures r == self.0 { self.0 } }

pub enum KeyFilter { Any, Exact(Bytes), Prefix(Bytes) }

pub type RecordsIdOwned = ([u8; 32], [u8; 32], Bytes);

pub struct RecordsBounds(pub Bound<RecordsIdOwned>, pub Bound<RecordsIdOwned>);

#[verifier::external_body]
fn increment_by_one(value: &mut [u8]) -> (r: bool)
    ensures final(value)@.len() == old(value)@.len()
{ unimplemented!() }

fn clone3(t: &RecordsIdOwned) -> (r: RecordsIdOwned)
    ensures r.0 == t.0, r.1 == t.1, r.2@ == t.2@
{ (t.0, t.1, t.2.clone()) }

// ---- extracted: bounds.rs RecordsBounds::author_key ----
impl RecordsBounds {
    pub fn author_key(ns: NamespaceId, author: AuthorId, key_matcher: KeyFilter) -> Self {
        let key_is_exact = matches!(key_matcher, KeyFilter::Exact(_));
        let key = match key_matcher {
            KeyFilter::Any => Bytes::new(),
            KeyFilter::Exact(key) => key,
            KeyFilter::Prefix(prefix) => prefix,
        };
        let author = author.to_bytes();
        let ns = ns.to_bytes();
        let mut author_end = author;
        let mut ns_end = ns;
        let mut key_end = key.to_vec();

        let start = (ns, author, key);

        let end = if key_is_exact {
            Bound::Included(clone3(&start))
        } else if increment_by_one(&mut key_end) {
            Bound::Excluded((ns, author, key_end.into()))
        } else if increment_by_one(&mut author_end) {
            Bound::Excluded((ns, author_end, Bytes::new()))
        } else if increment_by_one(&mut ns_end) {
            Bound::Excluded((ns_end, [0u8; 32], Bytes::new()))
        } else {
            Bound::Unbounded
        };

        Self(Bound::Included(start), end)
    }
}

} // verus!
fn main() {}
