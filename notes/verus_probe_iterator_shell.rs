use vstd::prelude::*;
verus! {
#[verifier::external_body]
pub struct PIter { _p: u8 }
impl PIter {
    pub uninterp spec fn rest(&self) -> Seq<u64>;
}
impl Iterator for PIter {
    type Item = u64;
    #[verifier::external_body]
    fn next(&mut self) -> (r: Option<u64>) { unimplemented!() }
}
impl vstd::std_specs::iter::IteratorSpecImpl for PIter {
    open spec fn obeys_prophetic_iter_laws(&self) -> bool { true }
    open spec fn remaining(&self) -> Seq<u64> { self.rest() }
    open spec fn will_return_none(&self) -> bool { true }
    open spec fn decrease(&self) -> Option<nat> { Some(self.rest().len()) }
    open spec fn peek(&self, i: int) -> Option<u64> { if 0 <= i < self.rest().len() { Some(self.rest()[i]) } else { None } }
}

fn all_pos(it: PIter) -> (b: bool)
    ensures b == (forall|i: int| 0 <= i < it.rest().len() ==> it.rest()[i] > 0)
{
    let ghost all = it.rest();
    let mut ok = true;
    for x in iter: it
        invariant
            ok == (forall|i: int| 0 <= i < iter.index@ ==> all[i] > 0),
    {
        if x == 0 { ok = false; }
    }
    ok
}
}
fn main() {}
