use vstd::prelude::*;
use std::future::Future;

verus! {

// ---- prelude shells ----
#[verifier::external_body]
pub struct AnyhowError { _p: u8 }
impl AnyhowError {
    #[verifier::external_body]
    pub fn msg() -> AnyhowError { unimplemented!() }
}
#[derive(Clone, Copy, PartialEq, Eq)]
pub struct NamespaceId(pub [u8; 32]);
#[derive(Clone, Copy, PartialEq, Eq)]
pub struct PublicKey(pub [u8; 32]);
impl PublicKey { pub fn as_bytes(&self) -> &[u8; 32] { &self.0 } }

#[derive(Clone, Copy, PartialEq, Eq)]
pub enum AbortReason { NotFound, AlreadySyncing, InternalServerError }
pub enum AcceptOutcome { Allow, Reject(AbortReason) }

pub enum AcceptError {
    Abort { peer: PublicKey, namespace: NamespaceId, reason: AbortReason },
    Sync { peer: PublicKey, namespace: Option<NamespaceId>, error: AnyhowError },
}
impl AcceptError {
    pub fn sync(peer: PublicKey, namespace: Option<NamespaceId>, error: AnyhowError) -> Self {
        AcceptError::Sync { peer, namespace, error }
    }
}

#[verifier::external_body]
pub struct ProtocolMessage { _p: u8 }
#[verifier::external_body]
pub struct SyncOutcome { _p: u8 }
impl Default for SyncOutcome {
    #[verifier::external_body]
    fn default() -> Self { unimplemented!() }
}

pub enum Message {
    Init { namespace: NamespaceId, message: ProtocolMessage },
    Sync(ProtocolMessage),
    Abort { reason: AbortReason },
}

#[verifier::external_body]
pub struct SyncHandle { _p: u8 }
impl SyncHandle {
    #[verifier::external_body]
    pub async fn sync_process_message(&self, namespace: NamespaceId, message: ProtocolMessage, from: [u8; 32], state: SyncOutcome)
        -> Result<(Option<ProtocolMessage>, SyncOutcome), AnyhowError>
    { unimplemented!() }
}

#[verifier::external_body]
#[verifier::reject_recursive_types(R)]
pub struct FramedRead<R> { _p: std::marker::PhantomData<R> }
#[verifier::external_body]
#[verifier::reject_recursive_types(W)]
pub struct FramedWrite<W> { _p: std::marker::PhantomData<W> }
pub struct SyncCodec;
impl<R> FramedRead<R> {
    #[verifier::external_body]
    pub fn new(r: R, c: SyncCodec) -> Self { unimplemented!() }
    #[verifier::external_body]
    pub async fn next(&mut self) -> Option<Result<Message, AnyhowError>> { unimplemented!() }
}
impl<W> FramedWrite<W> {
    #[verifier::external_body]
    pub fn new(w: W, c: SyncCodec) -> Self { unimplemented!() }
    #[verifier::external_body]
    pub async fn send(&mut self, m: Message) -> Result<(), AnyhowError> { unimplemented!() }
}

struct BobState {
    namespace: Option<NamespaceId>,
    peer: PublicKey,
    progress: Option<SyncOutcome>,
}

impl BobState {
    fn new(peer: PublicKey) -> (r: Self)
        ensures r.progress is Some
    {
        Self {
            peer,
            namespace: None,
            progress: Some(Default::default()),
        }
    }

    fn fail(&self, reason: AnyhowError) -> AcceptError {
        AcceptError::sync(self.peer, self.namespace(), reason.into())
    }

    #[verifier::exec_allows_no_decreases_clause]
    async fn run<R, W, F, Fut>(
        &mut self,
        writer: W,
        reader: R,
        sync: SyncHandle,
        accept_cb: F,
    ) -> (res: Result<NamespaceId, AcceptError>)
    where
        F: Fn(NamespaceId, PublicKey) -> Fut,
        Fut: Future<Output = AcceptOutcome>,
        requires old(self).progress is Some,
        ensures final(self).progress is Some,
    {
        let mut reader = FramedRead::new(reader, SyncCodec);
        let mut writer = FramedWrite::new(writer, SyncCodec);
        while let Some(msg) = reader.next().await
            invariant self.progress is Some
        {
            let msg = msg.map_err(|e| self.fail(e))?;
            let next = match (msg, self.namespace.as_ref()) {
                (Message::Init { namespace, message }, None) => {
                    let accept = accept_cb(namespace, self.peer).await;
                    match accept {
                        AcceptOutcome::Allow => {
                        }
                        AcceptOutcome::Reject(reason) => {
                            writer
                                .send(Message::Abort { reason })
                                .await
                                .map_err(|e| self.fail(e))?;
                            return Err(AcceptError::Abort {
                                namespace,
                                peer: self.peer,
                                reason,
                            });
                        }
                    }
                    let last_progress = self.progress.take().unwrap();
                    let next = sync
                        .sync_process_message(
                            namespace,
                            message,
                            *self.peer.as_bytes(),
                            last_progress,
                        )
                        .await;
                    self.namespace = Some(namespace);
                    next
                }
                (Message::Sync(msg), Some(namespace)) => {
                    let last_progress = self.progress.take().unwrap();
                    sync.sync_process_message(*namespace, msg, *self.peer.as_bytes(), last_progress)
                        .await
                }
                (Message::Init { .. }, Some(_)) => {
                    return Err(self.fail(AnyhowError::msg()));
                }
                (Message::Sync(_), None) => {
                    return Err(self.fail(AnyhowError::msg()));
                }
                (Message::Abort { .. }, _) => {
                    return Err(self.fail(AnyhowError::msg()));
                }
            };
            let (reply, progress) = next.map_err(|e| self.fail(e))?;
            self.progress = Some(progress);
            match reply {
                Some(msg) => {
                    writer
                        .send(Message::Sync(msg))
                        .await
                        .map_err(|e| self.fail(e))?;
                }
                None => break,
            }
        }

        self.namespace()
            .ok_or_else(|| self.fail(AnyhowError::msg()))
    }

    fn namespace(&self) -> Option<NamespaceId> {
        self.namespace
    }

    fn into_outcome(self) -> SyncOutcome
        requires self.progress is Some
    {
        self.progress.unwrap()
    }
}

} // verus!
fn main() {}
