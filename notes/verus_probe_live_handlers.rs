use vstd::prelude::*;

verus! {

#[verifier::external_body]
pub struct AnyhowError { _p: u8 }
impl AnyhowError {
    #[verifier::external_body]
    pub fn to_string(&self) -> String { unimplemented!() }
}
pub type Result<T> = std::result::Result<T, AnyhowError>;

#[derive(Clone, Copy, PartialEq, Eq)]
pub struct NamespaceId(pub [u8; 32]);
#[derive(Clone, Copy, PartialEq, Eq)]
pub struct PublicKey(pub [u8; 32]);
impl PublicKey { pub fn as_bytes(&self) -> &[u8; 32] { &self.0 } }

#[verifier::external_body]
#[verifier::external_type_specification]
pub struct ExSystemTime(std::time::SystemTime);
pub assume_specification [ std::time::SystemTime::now ]() -> std::time::SystemTime;

#[derive(Clone, Copy, PartialEq, Eq)]
pub enum SyncReason { DirectJoin, NewNeighbor, SyncReport, Resync }
#[derive(Clone, PartialEq, Eq)]
pub enum Origin { Connect(SyncReason), Accept }
#[derive(Clone, Copy, PartialEq, Eq)]
pub enum AbortReason { NotFound, AlreadySyncing, InternalServerError }

#[verifier::external_body]
pub struct AuthorHeads { _p: u8 }
impl AuthorHeads {
    #[verifier::external_body]
    pub fn encode(&self, size_limit: Option<usize>) -> Result<Vec<u8>> { unimplemented!() }
}
pub struct SyncOutcome { pub heads_received: AuthorHeads, pub num_recv: usize, pub num_sent: usize }
pub struct SyncFinished { pub namespace: NamespaceId, pub peer: PublicKey, pub outcome: SyncOutcome }
pub struct SyncDetails { pub entries_received: usize, pub entries_sent: usize }
impl From<&SyncFinished> for SyncDetails {
    fn from(value: &SyncFinished) -> Self {
        Self { entries_received: value.outcome.num_recv, entries_sent: value.outcome.num_sent }
    }
}

pub enum ConnectError {
    Connect { error: AnyhowError },
    RemoteAbort(AbortReason),
    Sync { error: AnyhowError },
    Close { error: AnyhowError },
}
impl From<ConnectError> for AnyhowError {
    #[verifier::external_body]
    fn from(e: ConnectError) -> AnyhowError { unimplemented!() }
}

pub struct SyncReport { namespace: NamespaceId, heads: Vec<u8> }
pub enum Op { SyncReport(SyncReport) }
pub struct SyncEvent { pub peer: PublicKey, pub origin: Origin, pub finished: std::time::SystemTime, pub started: std::time::SystemTime, pub result: std::result::Result<SyncDetails, String> }
pub enum Event { SyncFinished(SyncEvent), PendingContentReady }

// slot state (abstract): 0 idle, 1 running-connect, 2 running-accept
#[verifier::external_body]
pub struct NamespaceStates { _p: u8 }
impl NamespaceStates {
    pub uninterp spec fn slot(&self, ns: NamespaceId, peer: PublicKey) -> int;
    #[verifier::external_body]
    pub fn finish(&mut self, namespace: &NamespaceId, node: PublicKey, origin: &Origin, result: Result<SyncFinished>) -> (r: Option<(std::time::SystemTime, bool)>)
        ensures final(self).slot(*namespace, node) == 0 || r is None && final(self).slot(*namespace, node) == old(self).slot(*namespace, node)
    { unimplemented!() }
    #[verifier::external_body]
    pub fn set_may_emit_ready(&mut self, namespace: &NamespaceId, value: bool) -> (r: Option<()>)
        ensures forall|n: NamespaceId, p: PublicKey| final(self).slot(n, p) == old(self).slot(n, p)
    { unimplemented!() }
    #[verifier::external_body]
    pub fn is_syncing(&self, namespace: &NamespaceId) -> bool { unimplemented!() }
}

#[verifier::external_body]
pub struct SyncHandle { _p: u8 }
impl SyncHandle {
    #[verifier::external_body]
    pub async fn register_useful_peer(&self, namespace: NamespaceId, peer: [u8; 32]) -> Result<()> { unimplemented!() }
}
#[verifier::external_body]
pub struct GossipState { _p: u8 }
impl GossipState {
    #[verifier::external_body]
    pub fn max_message_size(&self) -> usize { unimplemented!() }
}
#[verifier::external_body]
pub struct SubscribersMap { _p: u8 }
impl SubscribersMap {
    #[verifier::external_body]
    pub async fn send(&mut self, namespace: &NamespaceId, event: Event) -> bool { unimplemented!() }
}
#[verifier::external_body]
pub struct QueuedHashes { _p: u8 }
impl QueuedHashes {
    #[verifier::external_body]
    pub fn contains_namespace(&self, namespace: &NamespaceId) -> bool { unimplemented!() }
}

pub struct LiveActor {
    sync: SyncHandle,
    gossip: GossipState,
    subscribers: SubscribersMap,
    queued_hashes: QueuedHashes,
    state: NamespaceStates,
}

impl LiveActor {
    #[verifier::external_body]
    fn sync_with_peer(&mut self, namespace: NamespaceId, peer: PublicKey, reason: SyncReason)
    { unimplemented!() }

    #[verifier::external_body]
    async fn broadcast_neighbors(&mut self, namespace: NamespaceId, op: &Op)
        ensures final(self).state == old(self).state
    { unimplemented!() }

    async fn on_sync_via_connect_finished(
        &mut self,
        namespace: NamespaceId,
        peer: PublicKey,
        reason: SyncReason,
        result: std::result::Result<SyncFinished, ConnectError>,
    )
        ensures final(self).state.slot(namespace, peer) != 1
    {
        match result {
            Err(ConnectError::RemoteAbort(AbortReason::AlreadySyncing)) => {
            }
            res => {
                self.on_sync_finished(
                    namespace,
                    peer,
                    Origin::Connect(reason),
                    res.map_err(Into::into),
                )
                .await
            }
        }
    }

    async fn on_sync_finished(
        &mut self,
        namespace: NamespaceId,
        peer: PublicKey,
        origin: Origin,
        result: Result<SyncFinished>,
    ) {
        match &result {
            Err(ref err) => {
            }
            Ok(ref details) => {
                // register the peer as useful for the document
                if let Err(e) = self
                    .sync
                    .register_useful_peer(namespace, *peer.as_bytes())
                    .await
                {
                }

                // broadcast a sync report to our neighbors, but only if we received new entries.
                if details.outcome.num_recv > 0 {
                    match details
                        .outcome
                        .heads_received
                        .encode(Some(self.gossip.max_message_size()))
                    {
                        Err(err) => {}
                        Ok(heads) => {
                            let report = SyncReport { namespace, heads };
                            self.broadcast_neighbors(namespace, &Op::SyncReport(report))
                                .await;
                        }
                    }
                }
            }
        };

        let result_for_event = match &result {
            Ok(details) => Ok(details.into()),
            Err(err) => Err(err.to_string()),
        };

        let Some((started, resync)) = self.state.finish(&namespace, peer, &origin, result) else {
            return;
        };

        let ev = SyncEvent {
            peer,
            origin,
            result: result_for_event,
            finished: std::time::SystemTime::now(),
            started,
        };
        self.subscribers
            .send(&namespace, Event::SyncFinished(ev))
            .await;

        if self.queued_hashes.contains_namespace(&namespace) {
            self.state.set_may_emit_ready(&namespace, true);
        } else {
            self.subscribers
                .send(&namespace, Event::PendingContentReady)
                .await;
            self.state.set_may_emit_ready(&namespace, false);
        }

        if resync {
            self.sync_with_peer(namespace, peer, SyncReason::Resync);
        }
    }
}

} // verus!
fn main() {}
