use vstd::prelude::*;

verus! {

#[verifier::external_body]
#[verifier::external_type_specification]
pub struct ExSystemTime(std::time::SystemTime);

#[verifier::external_body]
#[verifier::external_type_specification]
pub struct ExInstant(std::time::Instant);

pub assume_specification [ std::time::SystemTime::now ]() -> std::time::SystemTime;
pub assume_specification [ std::time::Instant::now ]() -> std::time::Instant;

#[verifier::external_body]
pub struct SyncFinished { _p: u8 }
#[verifier::external_body]
pub struct AnyhowError { _p: u8 }
pub type Result<T> = std::result::Result<T, AnyhowError>;

#[derive(Debug, Clone, Eq, PartialEq, Copy)]
pub enum SyncReason { DirectJoin, NewNeighbor, SyncReport, Resync }

#[derive(Debug, Clone, Eq, PartialEq)]
pub enum Origin { Connect(SyncReason), Accept }

#[derive(Debug, Clone, Copy, PartialEq, Eq)]
pub enum AbortReason { NotFound, AlreadySyncing, InternalServerError }

#[derive(Debug, Clone)]
pub enum AcceptOutcome { Allow, Reject(AbortReason) }

pub enum SyncState {
    Idle,
    Running { start: std::time::SystemTime, origin: Origin },
}

struct PeerState {
    state: SyncState,
    resync_requested: bool,
    last_sync: Option<(std::time::Instant, Result<SyncFinished>)>,
}

pub enum SyncDirection { Accept, Connect }

impl PeerState {
    fn finish(
        &mut self,
        origin: &Origin,
        result: Result<SyncFinished>,
    ) -> (r: Option<(std::time::SystemTime, bool)>)
        ensures
            final(self).state is Idle,
            final(self).resync_requested == old(self).resync_requested,
            r is Some <==> old(self).state is Running,
            r is Some ==> r.unwrap().1 == old(self).resync_requested,
    {
        let start = match &self.state {
            SyncState::Running {
                start,
                origin: origin2,
            } => {
                if origin2 != origin {
                }
                Some(*start)
            }
            SyncState::Idle => {
                None
            }
        };

        self.last_sync = Some((std::time::Instant::now(), result));
        self.state = SyncState::Idle;
        start.map(|s| (s, self.resync_requested))
    }

    fn start_connect(&mut self, reason: SyncReason) -> (r: bool)
        ensures
            r <==> old(self).state is Idle,
    {
        match self.state {
            // never run two syncs at the same time
            SyncState::Running { .. } => {
                if matches!(reason, SyncReason::SyncReport) {
                    self.resync_requested = true;
                }
                false
            }
            SyncState::Idle => {
                self.set_sync_running(Origin::Connect(reason));
                true
            }
        }
    }

    fn set_sync_running(&mut self, origin: Origin)
        ensures final(self).state is Running, final(self).resync_requested == false,
    {
        self.state = SyncState::Running {
            origin,
            start: std::time::SystemTime::now(),
        };
        self.resync_requested = false;
    }
}

} // verus!
fn main() {}
