use vstd::prelude::*;
use std::ops::Bound;
use std::cmp::Ordering;
use std::iter::{Chain, Flatten};

verus! {

#[verifier::external_type_specification]
#[verifier::external_body]
#[verifier::reject_recursive_types(A)]
#[verifier::reject_recursive_types(B)]
pub struct ExChain<A, B>(Chain<A, B>);

#[verifier::external_type_specification]
#[verifier::external_body]
#[verifier::reject_recursive_types(I)]
pub struct ExFlatten<I: Iterator<Item: IntoIterator>>(Flatten<I>);

#[verifier::external_type_specification]
#[verifier::external_body]
#[verifier::reject_recursive_types(T)]
pub struct ExOptIntoIter<T>(std::option::IntoIter<T>);

#[verifier::external_body]
pub struct AnyhowError { _p: u8 }
pub type Result<T> = std::result::Result<T, AnyhowError>;

#[derive(Clone, Copy, PartialEq, Eq)]
pub struct NamespaceId(pub [u8; 32]);

#[verifier::external_body]
pub struct Bytes { _p: u8 }
pub type RecordsIdOwned = ([u8; 32], [u8; 32], Bytes);

#[verifier::external_body]
pub struct RecordIdentifier { _p: u8 }
impl RecordIdentifier {
    #[verifier::external_body]
    pub fn to_byte_tuple(&self) -> RecordsIdOwned { unimplemented!() }
    #[verifier::external_body]
    pub fn cmp(&self, other: &Self) -> Ordering { unimplemented!() }
}
impl Clone for RecordIdentifier { #[verifier::external_body] fn clone(&self) -> Self { unimplemented!() } }

pub struct Range<K> { x: K, y: K }
impl<K> Range<K> {
    pub fn x(&self) -> &K { &self.x }
    pub fn y(&self) -> &K { &self.y }
}

#[verifier::external_body]
pub struct RecordsBounds { _p: u8 }
impl RecordsBounds {
    #[verifier::external_body] pub fn new(start: Bound<RecordsIdOwned>, end: Bound<RecordsIdOwned>) -> Self { unimplemented!() }
    #[verifier::external_body] pub fn namespace(ns: NamespaceId) -> Self { unimplemented!() }
    #[verifier::external_body] pub fn from_start(ns: &NamespaceId, end: Bound<RecordsIdOwned>) -> Self { unimplemented!() }
    #[verifier::external_body] pub fn to_end(ns: &NamespaceId, start: Bound<RecordsIdOwned>) -> Self { unimplemented!() }
}
#[verifier::external_body]
pub struct SignedEntry { _p: u8 }
#[verifier::external_body]
pub struct RecordsTbl { _p: u8 }
#[verifier::external_body]
pub struct RecordsRange<'a> { _p: &'a u8 }
impl<'a> RecordsRange<'a> {
    #[verifier::external_body]
    pub fn with_bounds(records: &'a RecordsTbl, bounds: RecordsBounds) -> Result<Self> { unimplemented!() }
}
impl<'a> Iterator for RecordsRange<'a> {
    type Item = Result<SignedEntry>;
    #[verifier::external_body]
    fn next(&mut self) -> Option<Self::Item> { unimplemented!() }
}
pub struct Tables { pub records: RecordsTbl }
pub struct Store { pub t: Tables }
impl Store {
    #[verifier::external_body]
    pub fn tables(&mut self) -> Result<&Tables> { unimplemented!() }
    pub fn as_mut(&mut self) -> &mut Store { self }
}

pub struct StoreInstance<'a> { namespace: NamespaceId, store: &'a mut Store }

fn chain_none<'a, I: Iterator<Item = T> + 'a, T>(
    iter: I,
) -> Chain<I, Flatten<std::option::IntoIter<I>>> {
    iter.chain(None.into_iter().flatten())
}

impl<'a> StoreInstance<'a> {
    fn get_range(&mut self, range: Range<RecordIdentifier>) -> Result<Chain<RecordsRange<'_>, Flatten<std::option::IntoIter<RecordsRange<'_>>>>> {
        let tables = self.store.as_mut().tables()?;
        let iter = match range.x().cmp(range.y()) {
            // identity range: iter1 = all, iter2 = none
            Ordering::Equal => {
                // iterator for all entries in replica
                let bounds = RecordsBounds::namespace(self.namespace);
                let iter = RecordsRange::with_bounds(&tables.records, bounds)?;
                chain_none(iter)
            }
            // regular range: iter1 = x <= t < y, iter2 = none
            Ordering::Less => {
                // iterator for entries from range.x to range.y
                let start = Bound::Included(range.x().to_byte_tuple());
                let end = Bound::Excluded(range.y().to_byte_tuple());
                let bounds = RecordsBounds::new(start, end);
                let iter = RecordsRange::with_bounds(&tables.records, bounds)?;
                chain_none(iter)
            }
            // split range: iter1 = start <= t < y, iter2 = x <= t <= end
            Ordering::Greater => {
                // iterator for entries from start to range.y
                let end = Bound::Excluded(range.y().to_byte_tuple());
                let bounds = RecordsBounds::from_start(&self.namespace, end);
                let iter = RecordsRange::with_bounds(&tables.records, bounds)?;

                // iterator for entries from range.x to end
                let start = Bound::Included(range.x().to_byte_tuple());
                let bounds = RecordsBounds::to_end(&self.namespace, start);
                let iter2 = RecordsRange::with_bounds(&tables.records, bounds)?;

                iter.chain(Some(iter2).into_iter().flatten())
            }
        };
        Ok(iter)
    }
}

} // verus!
fn main() {}
