use vstd::prelude::*;

verus! {

// ---------- prelude: abstract shells for external types (trusted) ----------
#[verifier::external_body]
pub struct AnyhowError { _p: u8 }

#[derive(Clone, Copy, PartialEq, Eq)]
pub struct NamespaceId(pub [u8; 32]);
#[derive(Clone, Copy, PartialEq, Eq)]
pub struct AuthorId(pub [u8; 32]);

#[verifier::external_body]
pub struct SignedEntry { _p: u8 }

pub struct EntryView { pub ns: NamespaceId, pub author: AuthorId, pub key: Seq<u8>, pub ts: u64, pub empty: bool }

impl SignedEntry {
    pub uninterp spec fn view(&self) -> EntryView;
}

#[verifier::external_body]
pub struct RecordsTable { _p: u8 }
impl RecordsTable {
    pub uninterp spec fn view(&self) -> Map<(NamespaceId, AuthorId, Seq<u8>), SignedEntry>;
}

#[verifier::external_body]
fn get_exact(
    table: &RecordsTable,
    namespace: NamespaceId,
    author: AuthorId,
    key: &Vec<u8>,
    include_empty: bool,
) -> (r: Result<Option<SignedEntry>, AnyhowError>)
    ensures
        r is Ok ==> (match r->Ok_0 {
            Some(e) => table@.contains_key((namespace, author, key@)) && e == table@[(namespace, author, key@)]
                        && (include_empty || !e@.empty),
            None => !table@.contains_key((namespace, author, key@))
                    || (!include_empty && table@[(namespace, author, key@)]@.empty),
        }),
{ unimplemented!() }

pub assume_specification<T> [ <[T]>::reverse ] (s: &mut [T])
    ensures final(s)@ == old(s)@.reverse();

pub open spec fn is_prefix(p: Seq<u8>, k: Seq<u8>) -> bool {
    p.len() <= k.len() && k.subrange(0, p.len() as int) == p
}


pub open spec fn all_ok(res: Seq<Result<SignedEntry, AnyhowError>>) -> bool {
    forall|i: int| 0 <= i < res.len() ==> res[i] is Ok
}
/// every table entry at a prefix of `key0` that is strictly longer than `done` is in `res`
pub open spec fn covered(res: Seq<Result<SignedEntry, AnyhowError>>, table: RecordsTable, ns: NamespaceId, a: AuthorId, key0: Seq<u8>, done: int) -> bool {
    forall|p: Seq<u8>| #![auto] is_prefix(p, key0) && p.len() >= done && table@.contains_key((ns, a, p))
        ==> exists|i: int| 0 <= i < res.len() && res[i] is Ok && res[i]->Ok_0 == table@[(ns, a, p)]
}

// ---------- extracted: src/store/fs.rs fn parents ----------
fn parents(
    table: &RecordsTable,
    namespace: NamespaceId,
    author: AuthorId,
    mut key: Vec<u8>,
) -> (res: Vec<Result<SignedEntry, AnyhowError>>)
    ensures
        all_ok(res@) ==> covered(res@, *table, namespace, author, key@, 0),
{
    let ghost key0 = key@;
    let mut res = Vec::new();

    while !key.is_empty()
        invariant
            is_prefix(key@, key0),
            all_ok(res@) ==> covered(res@, *table, namespace, author, key0, (key@.len() + 1) as int),
        decreases key@.len(),
    {
        let entry = get_exact(table, namespace, author, &key, false);
        key.pop();
        match entry {
            Err(err) => res.push(Err(err)),
            Ok(Some(entry)) => res.push(Ok(entry)),
            Ok(None) => continue,
        }
    }
    res.reverse();
    res
}

} // verus!
fn main() {}
