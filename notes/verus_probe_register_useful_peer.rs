use vstd::prelude::*;

verus! {

#[verifier::external_body]
pub struct AnyhowError { _p: u8 }
impl AnyhowError { #[verifier::external_body] pub fn msg() -> AnyhowError { unimplemented!() } }
#[verifier::external_body]
pub struct StorageError { _p: u8 }
impl From<StorageError> for AnyhowError { #[verifier::external_body] fn from(e: StorageError) -> AnyhowError { unimplemented!() } }
#[verifier::external_body]
pub struct SystemTimeError { _p: u8 }
impl From<SystemTimeError> for AnyhowError { #[verifier::external_body] fn from(e: SystemTimeError) -> AnyhowError { unimplemented!() } }
pub type Result<T> = std::result::Result<T, AnyhowError>;

pub assume_specification<T, E> [ Option::<std::result::Result<T, E>>::transpose ] (o: Option<std::result::Result<T, E>>) -> (r: std::result::Result<Option<T>, E>)
    ensures
        o is None ==> r == Ok::<Option<T>, E>(None),
        o is Some && o->Some_0 is Ok ==> r == Ok::<Option<T>, E>(Some(o->Some_0->Ok_0)),
        o is Some && o->Some_0 is Err ==> r == Err::<Option<T>, E>(o->Some_0->Err_0);
pub assume_specification<T> [ std::mem::drop ] (t: T);

#[derive(Clone, Copy, PartialEq, Eq)]
pub struct NamespaceId(pub [u8; 32]);
impl NamespaceId { pub fn as_bytes(&self) -> (r: &[u8; 32]) ensures *r == self.0 { &self.0 } }
pub type PeerIdBytes = [u8; 32];

#[verifier::external_body]
fn unix_nanos_now() -> std::result::Result<u64, SystemTimeError> { unimplemented!() }

// guard over one multimap value
#[verifier::external_body]
pub struct PeerGuard { _p: u8 }
impl PeerGuard {
    pub uninterp spec fn v(&self) -> (u64, PeerIdBytes);
    #[verifier::external_body]
    pub fn value(&self) -> (r: (u64, &PeerIdBytes)) ensures r.0 == self.v().0, *r.1 == self.v().1 { unimplemented!() }
}
#[verifier::external_body]
pub struct PeerValues { _p: u8 }
impl Iterator for PeerValues {
    type Item = std::result::Result<PeerGuard, StorageError>;
    #[verifier::external_body]
    fn next(&mut self) -> Option<Self::Item> { unimplemented!() }
}
#[verifier::external_body]
pub struct NsGuard { _p: u8 }

#[verifier::external_body]
pub struct NamespacesTbl { _p: u8 }
impl NamespacesTbl {
    #[verifier::external_body]
    pub fn get(&self, k: &[u8; 32]) -> std::result::Result<Option<NsGuard>, StorageError> { unimplemented!() }
}
#[verifier::external_body]
pub struct PeersTbl { _p: u8 }
impl PeersTbl {
    #[verifier::external_body]
    pub fn get(&self, k: &[u8; 32]) -> std::result::Result<PeerValues, StorageError> { unimplemented!() }
    #[verifier::external_body]
    pub fn insert(&mut self, k: &[u8; 32], v: (u64, &PeerIdBytes)) -> std::result::Result<bool, StorageError> { unimplemented!() }
    #[verifier::external_body]
    pub fn remove(&mut self, k: &[u8; 32], v: (u64, &PeerIdBytes)) -> std::result::Result<bool, StorageError> { unimplemented!() }
}
pub struct Tables { pub namespaces: NamespacesTbl, pub namespace_peers: PeersTbl }
pub struct Store { pub tables: Tables }

pub const PEERS_PER_DOC_CACHE_SIZE: usize = 5;

impl Store {
    fn tables_mut(&mut self) -> (r: &mut Tables) ensures *r == old(self).tables, *final(r) == final(self).tables { &mut self.tables }

    #[verifier::exec_allows_no_decreases_clause]
    fn register_useful_peer(
        &mut self,
        namespace: NamespaceId,
        peer: PeerIdBytes,
    ) -> Result<()> {
        let peer = &peer;
        let namespace = namespace.as_bytes();
        // calculate nanos since UNIX_EPOCH for a time measurement
        let nanos = unix_nanos_now()?;
        { let tables = self.tables_mut();
            // ensure the document exists
            if !(tables.namespaces.get(namespace)?.is_some()) { return Err(AnyhowError::msg()); }

            let mut namespace_peers = tables.namespace_peers.get(namespace)?;

            // get the oldest entry since it's candidate for removal
            let maybe_oldest = namespace_peers.next().transpose()?.map(|guard| {
                let (oldest_nanos, oldest_peer_ref) = guard.value(); let oldest_peer = *oldest_peer_ref;
                (oldest_nanos, oldest_peer)
            });
            match maybe_oldest {
                None => {
                    drop(namespace_peers);
                    tables.namespace_peers.insert(namespace, (nanos, peer))?;
                }
                Some((oldest_nanos, oldest_peer)) => {
                    let oldest_peer = &oldest_peer;

                    if oldest_peer == peer {
                        drop(namespace_peers);
                        tables
                            .namespace_peers
                            .remove(namespace, (oldest_nanos, oldest_peer))?;
                        tables.namespace_peers.insert(namespace, (nanos, peer))?;
                    } else {
                        let mut len = 1;
                        let mut prev_peer_nanos = None;

                        for result in namespace_peers {
                            len += 1;
                            let guard = result?;
                            let (peer_nanos, peer_bytes) = guard.value();
                            if prev_peer_nanos.is_none() && peer_bytes == peer {
                                prev_peer_nanos = Some(peer_nanos)
                            }
                        }

                        match prev_peer_nanos {
                            Some(prev_nanos) => {
                                tables
                                    .namespace_peers
                                    .remove(namespace, (prev_nanos, peer))?;
                                tables.namespace_peers.insert(namespace, (nanos, peer))?;
                            }
                            None => {
                                tables.namespace_peers.insert(namespace, (nanos, peer))?;
                                len += 1;
                                if len > PEERS_PER_DOC_CACHE_SIZE {
                                    tables
                                        .namespace_peers
                                        .remove(namespace, (oldest_nanos, oldest_peer))?;
                                }
                            }
                        }
                    }
                }
            }
            Ok(())
        }
    }
}

} // verus!
fn main() {}
