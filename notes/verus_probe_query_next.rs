use vstd::prelude::*;

verus! {

#[verifier::external_body]
pub struct AnyhowError { _p: u8 }
pub type Result<T> = std::result::Result<T, AnyhowError>;

#[derive(Clone, Copy, PartialEq, Eq)]
pub struct AuthorId(pub [u8; 32]);
impl AuthorId {
    #[verifier::external_body]
    pub fn from(b: &[u8; 32]) -> (r: AuthorId) ensures r.0 == *b { unimplemented!() }
}

#[verifier::external_body]
pub struct SignedEntry { _p: u8 }
impl SignedEntry {
    pub uninterp spec fn empty(&self) -> bool;
    #[verifier::external_body]
    pub fn is_empty(&self) -> (r: bool) ensures r == self.empty() { unimplemented!() }
}

#[derive(Clone, Copy)]
pub enum SortDirection { Asc, Desc }

pub enum KeyFilter { Any, Exact(Vec<u8>), Prefix(Vec<u8>) }
impl KeyFilter {
    #[verifier::external_body]
    pub fn matches(&self, key: &[u8]) -> bool { unimplemented!() }
}
pub enum AuthorFilter { Any, Exact(AuthorId) }
impl AuthorFilter {
    pub fn matches(&self, author: &AuthorId) -> bool {
        match self { Self::Any => true, Self::Exact(a) => a == author }
    }
}

pub struct Query {
    pub limit: Option<u64>,
    pub offset: u64,
    pub include_empty: bool,
    pub sort_direction: SortDirection,
}
impl Query {
    pub fn limit(&self) -> Option<u64> { self.limit }
    pub fn offset(&self) -> u64 { self.offset }
}

pub struct RecordsValue { pub hash_is_empty: bool }
fn value_is_empty(value: &RecordsValue) -> bool { value.hash_is_empty }

#[verifier::external_body]
pub struct RecordsRange { _p: u8 }
impl RecordsRange {
    #[verifier::external_body]
    pub fn next_filtered<F: Fn((&[u8; 32], &[u8; 32], &[u8]), RecordsValue) -> bool>(&mut self, direction: &SortDirection, filter: F) -> Option<Result<SignedEntry>>
    { unimplemented!() }
}
#[verifier::external_body]
pub struct RecordsByKeyRange { _p: u8 }
impl RecordsByKeyRange {
    #[verifier::external_body]
    pub fn next_filtered<F: Fn((&[u8; 32], &[u8], &[u8; 32])) -> bool>(&mut self, direction: &SortDirection, filter: F) -> Option<Result<SignedEntry>>
    { unimplemented!() }
}

pub enum SelectorRes { Finished, Continue, Some(SignedEntry) }
#[verifier::external_body]
pub struct LatestPerKeySelector { _p: u8 }
impl LatestPerKeySelector {
    #[verifier::external_body]
    pub fn push(&mut self, entry: Option<SignedEntry>) -> SelectorRes { unimplemented!() }
}

enum QueryRange {
    AuthorKey {
        range: RecordsRange,
        key_filter: KeyFilter,
    },
    KeyAuthor {
        range: RecordsByKeyRange,
        author_filter: AuthorFilter,
        selector: Option<LatestPerKeySelector>,
    },
}

struct QueryIterator {
    range: QueryRange,
    query: Query,
    offset: u64,
    count: u64,
}

impl QueryIterator {
    #[verifier::exec_allows_no_decreases_clause]
    fn next(&mut self) -> Option<Result<SignedEntry>> {
        // early-return if we reached the query limit.
        if let Some(limit) = self.query.limit() {
            if self.count >= limit {
                return None;
            }
        }
        loop {
            let next = match &mut self.range {
                QueryRange::AuthorKey { range, key_filter } => {
                    // get the next entry from the query range, filtered by the key and empty filters
                    range.next_filtered(&self.query.sort_direction, |k0, value| { let (_ns, _author, key) = k0;
                        key_filter.matches(key)
                            && (self.query.include_empty || !value_is_empty(&value))
                    })
                }

                QueryRange::KeyAuthor {
                    range,
                    author_filter,
                    selector,
                } => loop {
                    // get the next entry from the query range, filtered by the author filter
                    let next = range
                        .next_filtered(&self.query.sort_direction, |k0| { let (_ns, _key, author) = k0;
                            author_filter.matches(&(AuthorId::from(author)))
                        });

                    // early-break if next contains Err
                    let next = match next.transpose() {
                        Err(err) => break Some(Err(err)),
                        Ok(next) => next,
                    };

                    // push the entry into the selector. if active, only the latest entry
                    // for each key will be emitted.
                    let next = match selector {
                        None => next,
                        Some(selector) => match selector.push(next) {
                            SelectorRes::Continue => continue,
                            SelectorRes::Finished => None,
                            SelectorRes::Some(res) => Some(res),
                        },
                    };

                    // skip the entry if empty and no empty entries requested
                    if !self.query.include_empty && matches!(&next, Some(e) if e.is_empty()) {
                        continue;
                    }

                    break next.map(Result::Ok);
                },
            };

            // skip the entry if we didn't get past the requested offset yet.
            if self.offset < self.query.offset() && matches!(next, Some(Ok(_))) {
                self.offset += 1;
                continue;
            }

            self.count += 1;
            return next;
        }
    }
}

} // verus!
fn main() {}
