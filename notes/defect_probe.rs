// Design-phase probe (not framework code): appended to a scratch copy of /repo/src/sync.rs and run with
//   cargo test --offline --lib verif_probe -- --nocapture --test-threads 1
// on the pinned tree (450413238a48). All 9 tests FAIL there; each failure is a concrete input
// showing one of the defects D1..D6, D12 listed in DESIGN.md section 6.

#[cfg(test)]
mod verif_probe {
    use super::*;
    use crate::store::{Query, Store};
    use crate::ranger::Store as _;

    fn now() -> u64 { system_time_now() }

    fn signed(ns: &NamespaceSecret, a: &Author, key: &[u8], hash: Hash, len: u64, ts: u64) -> SignedEntry {
        SignedEntry::from_parts(ns, a, key, Record { hash, len, timestamp: ts })
    }

    fn keys(store: &mut Store, ns: NamespaceId) -> Vec<(Vec<u8>, u64, bool)> {
        store.get_many(ns, Query::all().include_empty()).unwrap()
            .map(|e| { let e = e.unwrap(); (e.key().to_vec(), e.timestamp(), e.is_empty()) }).collect()
    }

    // D1: tombstone newer than a late child
    #[tokio::test]
    async fn d1_tombstone_parent_ignored() {
        let mut rng = rand::rng();
        let a = Author::new(&mut rng);
        let ns = NamespaceSecret::new(&mut rng);
        let t = now();
        let h = Hash::new(b"x");
        // order 1: child then tombstone
        let mut s1 = Store::memory();
        let mut r1 = s1.new_replica(ns.clone()).unwrap();
        r1.insert_remote_entry(signed(&ns, &a, b"ab", h, 1, t - 100), [1u8; 32], ContentStatus::Missing).await.unwrap();
        r1.insert_remote_entry(signed(&ns, &a, b"a", Hash::EMPTY, 0, t - 50), [1u8; 32], ContentStatus::Missing).await.unwrap();
        // order 2: tombstone then child
        let mut s2 = Store::memory();
        let mut r2 = s2.new_replica(ns.clone()).unwrap();
        r2.insert_remote_entry(signed(&ns, &a, b"a", Hash::EMPTY, 0, t - 50), [1u8; 32], ContentStatus::Missing).await.unwrap();
        let res = r2.insert_remote_entry(signed(&ns, &a, b"ab", h, 1, t - 100), [1u8; 32], ContentStatus::Missing).await;
        println!("D1 second order result: {res:?}");
        let k1 = keys(&mut s1, ns.id());
        let k2 = keys(&mut s2, ns.id());
        println!("D1 order1={k1:?}\nD1 order2={k2:?}");
        assert_eq!(k1, k2, "D1: state depends on arrival order");
    }

    // D1b: empty-key entry as parent
    #[tokio::test]
    async fn d1b_empty_key_parent_ignored() {
        let mut rng = rand::rng();
        let a = Author::new(&mut rng);
        let ns = NamespaceSecret::new(&mut rng);
        let t = now();
        let h = Hash::new(b"x");
        let mut s2 = Store::memory();
        let mut r2 = s2.new_replica(ns.clone()).unwrap();
        r2.insert_remote_entry(signed(&ns, &a, b"", h, 1, t - 50), [1u8; 32], ContentStatus::Missing).await.unwrap();
        let res = r2.insert_remote_entry(signed(&ns, &a, b"ab", h, 1, t - 100), [1u8; 32], ContentStatus::Missing).await;
        println!("D1b result: {res:?} keys={:?}", keys(&mut s2, ns.id()));
        assert!(res.is_err(), "D1b: older entry under newer empty-key entry accepted");
    }

    // D2: prefix with trailing 0xFF prunes lexical successor
    #[tokio::test]
    async fn d2_prefix_ff_prunes_neighbor() {
        let mut rng = rand::rng();
        let a = Author::new(&mut rng);
        let ns = NamespaceSecret::new(&mut rng);
        let t = now();
        let h = Hash::new(b"x");
        let mut s = Store::memory();
        let mut r = s.new_replica(ns.clone()).unwrap();
        r.insert_remote_entry(signed(&ns, &a, &[0x62], h, 1, t - 100), [1u8; 32], ContentStatus::Missing).await.unwrap();
        let removed = r.insert_remote_entry(signed(&ns, &a, &[0x61, 0xff], Hash::EMPTY, 0, t - 50), [1u8; 32], ContentStatus::Missing).await.unwrap();
        let k = keys(&mut s, ns.id());
        println!("D2 removed={removed} keys={k:?}");
        let q: Vec<_> = s.get_many(ns.id(), Query::author(a.id()).key_prefix([0x61u8, 0xff]).include_empty()).unwrap().map(|e| e.unwrap().key().to_vec()).collect();
        println!("D2 query prefix [61 ff] -> {q:?}");
        assert_eq!(removed, 0, "D2: prefix delete removed a key that does not start with the prefix");
    }

    // D2b: query with 0xff prefix returns non matching
    #[tokio::test]
    async fn d2b_query_prefix_ff() {
        let mut rng = rand::rng();
        let a = Author::new(&mut rng);
        let ns = NamespaceSecret::new(&mut rng);
        let t = now();
        let h = Hash::new(b"x");
        let mut s = Store::memory();
        let mut r = s.new_replica(ns.clone()).unwrap();
        r.insert_remote_entry(signed(&ns, &a, &[0x62], h, 1, t - 100), [1u8; 32], ContentStatus::Missing).await.unwrap();
        r.insert_remote_entry(signed(&ns, &a, &[0x61, 0xff, 0x01], h, 1, t - 100), [1u8; 32], ContentStatus::Missing).await.unwrap();
        let q1: Vec<_> = s.get_many(ns.id(), Query::author(a.id()).key_prefix([0x61u8, 0xff])).unwrap().map(|e| e.unwrap().key().to_vec()).collect();
        let q2: Vec<_> = s.get_many(ns.id(), Query::single_latest_per_key().key_prefix([0x61u8, 0xff])).unwrap().map(|e| e.unwrap().key().to_vec()).collect();
        println!("D2b author-index {q1:?} key-index {q2:?}");
        assert_eq!(q1, vec![vec![0x61u8, 0xff, 0x01]]);
        assert_eq!(q2, vec![vec![0x61u8, 0xff, 0x01]]);
    }

    // D3: head overwritten by older arrival
    #[tokio::test]
    async fn d3_head_overwritten() {
        let mut rng = rand::rng();
        let a = Author::new(&mut rng);
        let ns = NamespaceSecret::new(&mut rng);
        let t = now();
        let h = Hash::new(b"x");
        let mut s = Store::memory();
        let mut r = s.new_replica(ns.clone()).unwrap();
        r.insert_remote_entry(signed(&ns, &a, b"k1", h, 1, t - 50), [1u8; 32], ContentStatus::Missing).await.unwrap();
        r.insert_remote_entry(signed(&ns, &a, b"k2", h, 1, t - 100), [1u8; 32], ContentStatus::Missing).await.unwrap();
        let heads: Vec<_> = s.get_latest_for_each_author(ns.id()).unwrap().map(|e| e.unwrap()).collect();
        println!("D3 heads={heads:?} expected ts {}", t - 50);
        assert_eq!(heads[0].1, t - 50, "D3: head is not the max timestamp");
    }

    // D4: remove_replica leaves heads
    #[tokio::test]
    async fn d4_remove_leaves_heads() {
        let mut rng = rand::rng();
        let a = Author::new(&mut rng);
        let ns = NamespaceSecret::new(&mut rng);
        let mut s = Store::memory();
        let mut r = s.new_replica(ns.clone()).unwrap();
        r.hash_and_insert(b"k", &a, b"v").await.unwrap();
        s.close_replica(ns.id());
        s.remove_replica(&ns.id()).unwrap();
        let _r = s.new_replica(ns.clone()).unwrap();
        let heads: Vec<_> = s.get_latest_for_each_author(ns.id()).unwrap().map(|e| e.unwrap()).collect();
        println!("D4 heads after remove+recreate = {heads:?}");
        assert!(heads.is_empty(), "D4: heads survive document removal");
    }

    // D5: encode collapses equal timestamps
    #[test]
    fn d5_heads_encode_equal_ts() {
        let mut h = AuthorHeads::default();
        h.insert(AuthorId::from(&[1u8; 32]), 7);
        h.insert(AuthorId::from(&[2u8; 32]), 7);
        let d = AuthorHeads::decode(&h.encode(None).unwrap()).unwrap();
        println!("D5 decoded len {}", d.len());
        assert_eq!(d.len(), 2, "D5: author lost in encode");
    }

    // D6: reconciliation path accepts malformed empty entry
    #[tokio::test]
    async fn d6_sync_accepts_malformed_empty() {
        let mut rng = rand::rng();
        let a = Author::new(&mut rng);
        let ns = NamespaceSecret::new(&mut rng);
        let t = now();
        let bad = signed(&ns, &a, b"bad", Hash::EMPTY, 5, t - 10);
        let mut s1 = Store::memory();
        let mut s2 = Store::memory();
        {
            let mut r1 = s1.new_replica(ns.clone()).unwrap();
            let direct = r1.insert_remote_entry(bad.clone(), [1u8; 32], ContentStatus::Missing).await;
            println!("D6 direct path: {direct:?}");
            assert!(direct.is_err());
            // peer holds it (a hostile peer can hold anything)
            r1.store.entry_put(bad.clone()).unwrap();
        }
        let mut r1 = s1.open_replica(&ns.id()).unwrap();
        let mut r2 = s2.new_replica(ns.clone()).unwrap();
        let mut st1 = SyncOutcome::default();
        let mut st2 = SyncOutcome::default();
        let mut next = Some(r1.sync_initial_message().unwrap());
        while let Some(m) = next.take() {
            if let Some(m2) = r2.sync_process_message(m, [1u8; 32], &mut st2).await.unwrap() {
                next = r1.sync_process_message(m2, [2u8; 32], &mut st1).await.unwrap();
            }
        }
        drop(r2);
        let k = keys(&mut s2, ns.id());
        println!("D6 receiver keys after sync: {k:?}");
        assert!(k.is_empty(), "D6: malformed entry accepted through reconciliation");
    }

    // D12: short record identifier decodes fine and panics on use
    #[test]
    fn d12_short_identifier() {
        let id = RecordIdentifier(Bytes::from_static(b"short"));
        let bytes = postcard::to_stdvec(&id).unwrap();
        let back: Result<RecordIdentifier, _> = postcard::from_bytes(&bytes);
        println!("D12 decode short id ok? {}", back.is_ok());
        let back = back.unwrap();
        let r = std::panic::catch_unwind(|| back.namespace());
        println!("D12 namespace() panicked? {}", r.is_err());
        assert!(r.is_ok(), "D12: decoded identifier panics on use");
    }
}
