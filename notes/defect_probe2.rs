// Design-phase probe (not framework code). Part 1 is appended to a scratch copy of /repo/src/net/codec.rs,
// part 2 to /repo/src/sync.rs; run with  cargo test --offline --lib verif_probe -- --nocapture --test-threads 1
// Both tests FAIL on the pinned tree (450413238a48): D7 and D13 of DESIGN.md section 6.

// ---------------- part 1: src/net/codec.rs ----------------
#[cfg(test)]
mod verif_probe {
    use super::*;
    use crate::{store::Store, NamespaceSecret};

    // D7: local failure while handling a message, then collecting the outcome
    #[tokio::test]
    async fn d7_bob_outcome_after_local_failure() {
        let mut rng = rand::rng();
        let ns = NamespaceSecret::new(&mut rng);
        // a peer's initial message
        let mut peer_store = Store::memory();
        let mut peer_replica = peer_store.new_replica(ns.clone()).unwrap();
        let init = peer_replica.sync_initial_message().unwrap();

        // bob: document exists but is not open (e.g. closed between accept and processing)
        let bob_store = Store::memory();
        let bob = SyncHandle::spawn(bob_store, None, "bob".into());
        bob.import_namespace(ns.clone().into()).await.unwrap();

        let (mut a, b) = tokio::io::duplex(64 * 1024);
        let (b_read, b_write) = tokio::io::split(b);
        {
            let mut w = FramedWrite::new(&mut a, SyncCodec);
            w.send(Message::Init { namespace: ns.id(), message: init }).await.unwrap();
        }
        let peer = iroh::SecretKey::from_bytes(&[1u8; 32]).public();
        let mut state = BobState::new(peer);
        let res = state
            .run(b_write, b_read, bob.clone(), |_ns, _peer| async { AcceptOutcome::Allow })
            .await;
        println!("D7 run result is_err={}", res.is_err());
        let r = std::panic::catch_unwind(std::panic::AssertUnwindSafe(move || state.into_outcome()));
        println!("D7 into_outcome panicked? {}", r.is_err());
        assert!(r.is_ok(), "D7: accepting side cannot report its outcome after a local failure");
    }
}

// ---------------- part 2: src/sync.rs ----------------
#[cfg(test)]
mod verif_probe {
    use super::*;
    use crate::store::{Query, Store};

    // D13: latest-per-key with an author filter
    #[tokio::test]
    async fn d13_latest_per_key_author_filter() {
        let mut rng = rand::rng();
        let a1 = Author::new(&mut rng);
        let a2 = Author::new(&mut rng);
        let ns = NamespaceSecret::new(&mut rng);
        let t = system_time_now();
        let h = Hash::new(b"x");
        let mut s = Store::memory();
        let mut r = s.new_replica(ns.clone()).unwrap();
        let e1 = SignedEntry::from_parts(&ns, &a1, b"k", Record { hash: h, len: 1, timestamp: t - 100 });
        let e2 = SignedEntry::from_parts(&ns, &a2, b"k", Record { hash: h, len: 1, timestamp: t - 50 });
        r.insert_remote_entry(e1, [1u8; 32], ContentStatus::Missing).await.unwrap();
        r.insert_remote_entry(e2, [1u8; 32], ContentStatus::Missing).await.unwrap();
        let q: Vec<_> = s.get_many(ns.id(), Query::single_latest_per_key().author(a1.id())).unwrap()
            .map(|e| { let e = e.unwrap(); (e.key().to_vec(), e.author() == a1.id(), e.timestamp() == t - 100) }).collect();
        println!("D13 latest-per-key + author(a1) -> {q:?} (a2 holds the newer entry for the key)");
        assert!(q.is_empty(), "D13: returned an entry that is not the latest for its key");
    }
}
